/-
  C04 — motions and kills cover exactly the grapheme, word, line or search range named.

  Theorems relate the model (`Rl/LineBuffer.lean`, tied to the code by `./check C04`) to the
  declarative spec (`Rl/Spec/Motion.lean`, the oracle that `./check C04` evaluates on the
  implementation), for every lawful segmenter.
  * targets: character motions, word motions (anchors Start / AfterEnd, backward), line start/end,
    character searches (`C04_char_search_*`), vertical motion (`C04_moveToLine*_dest`, `C04_moveToLine*_column`, `C04_vertical_column`);
  * spans: `C04_kill_<movement>_is_span` / `C04_copy_<movement>_is_span` for every movement except
    movement — `ViFirstPrint` included since the repair of D46 — assembled in `C04_kill_is_span` /
    `C04_copy_is_span`. Two movements need a property of the segmenter that every UAX #29
    segmenter has but an arbitrary lawful `Segmenter` need not have: `S.Stable` (re-segmenting a run of
    whole clusters gives the same clusters; used by `T`/`t` searches, which the code answers by
    re-segmenting a slice) and `S.NlAlone` (the line break is a cluster of its own; used by the
    whole-line kill of an empty line, which removes "the next cluster").
-/
import Rl.LineBuffer
import Rl.Spec.Motion
import Rl.Lemmas.Motion
import Rl.Lemmas.Span
import Rl.Lemmas.CharSearch
import Rl.Lemmas.KillSpan
import Rl.Lemmas.LineSpan
import Rl.Lemmas.WordSpan
import Rl.Lemmas.Vertical
import Rl.Lemmas.FirstPrint
import Rl.Lemmas.CharSearchClamp
import Rl.Lemmas.WordBeforeEnd
set_option linter.unusedVariables false
open Rl Rl.Spec

/-- Character motion forward moves by whole clusters: `next_pos(n)` is exactly the declarative
    target `pos + off (min n |gs|)`. -/
theorem C04_char_motion_fwd (S : Segmenter) (lb : LB) (n : Nat) (h : WF lb) (hne : lb.pos ≠ lb.len)
    (hn : n ≠ 0) : LB.nextPos S lb n = .ok (charTargetFwd S lb.buf lb.pos n) :=
  nextPos_eq_target S lb n h hne hn

/-- `move_forward(n)` lands on the declarative character target. -/
theorem C04_moveForward_target (S : Segmenter) (U : UData) (lb lb' : LB) (n : Nat) (r : Bool)
    (ns : List Notif) (h : WF lb) (hne : lb.pos ≠ lb.len) (hn : n ≠ 0)
    (hrun : LB.moveForward S U n lb = .ok (r, lb', ns)) :
    some lb'.pos = charTargetFwd S lb.buf lb.pos n := by
  have ht := C04_char_motion_fwd S lb n h hne hn
  unfold LB.moveForward at hrun
  simp only [LM.bind_apply, LM.ro, ht] at hrun
  cases hc : charTargetFwd S lb.buf lb.pos n with
  | none =>
    -- impossible: the target exists from a well-formed state
    obtain ⟨x, s, hb, hp⟩ := h.split
    simp [charTargetFwd, splitAt?, hb, hp, splitAtByte_append] at hc
  | some p =>
    simp [hc, LM.setPos] at hrun
    obtain ⟨_, rfl, _⟩ := hrun
    rfl

/-- Character motion backward moves by whole clusters. -/
theorem C04_char_motion_bwd (S : Segmenter) (lb : LB) (n : Nat) (h : WF lb) (hne : lb.pos ≠ 0)
    (hn : n ≠ 0) : LB.prevPos S lb n = .ok (charTargetBwd S lb.buf lb.pos n) :=
  prevPos_eq_target S lb n h hne hn

/-- Word motion / kill target, `At::Start` (w, W, M-f-style starts; after the D9 repair): the model's
    two-iterator loop returns exactly the declarative target — the n-th word start after the cursor,
    else the text end (`range = false`: cursor motion; `range = true`: kill/copy range). -/
theorem C04_word_target_start (S : Segmenter) (U : UData) (lb : LB) (d : Word) (n : Nat) (range : Bool)
    (h : WF lb) (hn : n ≠ 0) :
    LB.nextWordPosR S U lb lb.pos .start d n range =
      .ok (wordTargetFwd S U lb.buf lb.pos .start d n (!range)) :=
  nextWordPosR_start S U lb d n range h hn

/-- Word motion / kill target, `At::AfterEnd` (M-f, M-d, de, dE): the model's
    two-iterator loop returns exactly the declarative target — the n-th word end after the cursor,
    else the text end (`range = false`: cursor motion; `range = true`: kill/copy range). -/
theorem C04_word_target_afterEnd (S : Segmenter) (U : UData) (lb : LB) (d : Word) (n : Nat) (range : Bool)
    (h : WF lb) (hn : n ≠ 0) :
    LB.nextWordPosR S U lb lb.pos .afterEnd d n range =
      .ok (wordTargetFwd S U lb.buf lb.pos .afterEnd d n (!range)) :=
  nextWordPosR_afterEnd S U lb d n range h hn

/-- Backward word target (M-b, b, B, C-w-style kills; after the D9 repair): `prev_word_pos` returns the
    n-th word start before the cursor, or the text start when there are fewer. -/
theorem C04_word_target_prev (S : Segmenter) (U : UData) (lb : LB) (d : Word) (n : Nat) (h : WF lb) (hn : n ≠ 0) :
    LB.prevWordPos S U lb lb.pos d n = .ok (wordTargetBwd S U lb.buf lb.pos d n) :=
  prevWordPos_eq S U lb d n h hn

/-- A forward word kill (dw, dW, M-d, de …) removes exactly the text between the cursor and the
    declarative target, reports exactly that text, and leaves the cursor where it was. -/
theorem C04_deleteWord_is_span (S : Segmenter) (U : UData) (a : At) (d : Word) (n : Nat) (lb : LB)
    (h : WF lb) (ha : a ≠ .beforeEnd) (hn : n ≠ 0) (t : Nat)
    (ht : wordTargetFwd S U lb.buf lb.pos a d n false = some t) :
    ∃ x y z, lb.buf = x ++ y ++ z ∧ lb.pos = blen x ∧ t = blen x + blen y ∧
      LB.deleteWord S U a d n lb = .ok (true, { lb with buf := x ++ z }, [.del lb.pos y .forward]) := by
  have hr := nextWordPosR_target S U lb a d n true h ha hn
  simp only [Bool.not_true] at hr
  rw [ht] at hr
  obtain ⟨hb, hle⟩ := wordTargetFwd_boundary S U lb a d n false h t ht
  obtain ⟨x, y, z, hd, hbuf, hx, hy⟩ := drain_ok .forward h hb hle
  refine ⟨x, y, z, hbuf, hx, hy, ?_⟩
  unfold LB.deleteWord
  simp [LM.bind_apply, LM.ro, hr, LM.get, hd]

/-- A backward word kill (C-w, M-DEL, db, dB) removes exactly the text between the declarative target
    and the cursor, reports it, and puts the cursor on the target. -/
theorem C04_deletePrevWord_is_span (S : Segmenter) (U : UData) (d : Word) (n : Nat) (lb : LB)
    (h : WF lb) (hn : n ≠ 0) (t : Nat) (ht : wordTargetBwd S U lb.buf lb.pos d n = some t) :
    ∃ x y z, lb.buf = x ++ y ++ z ∧ t = blen x ∧ lb.pos = blen x + blen y ∧
      LB.deletePrevWord S U d n lb = .ok (true, { lb with buf := x ++ z, pos := t }, [.del t y .backward]) := by
  have hr := prevWordPos_eq S U lb d n h hn
  rw [ht] at hr
  obtain ⟨hb, hle⟩ := wordTargetBwd_boundary S U lb d n h t ht
  obtain ⟨x, y, z, hd, hbuf, hx, hy⟩ := drain_ok .backward hb h hle
  refine ⟨x, y, z, hbuf, hx, hy, ?_⟩
  unfold LB.deletePrevWord
  simp [LM.bind_apply, LM.ro, hr, LM.get, hd, LM.setPos]

/-- A forward word copy (yw, ye, M-w-style) returns exactly the text between the cursor and the target. -/
theorem C04_copy_word_is_span (S : Segmenter) (U : UData) (a : At) (d : Word) (n : Nat) (lb : LB)
    (h : WF lb) (ha : a ≠ .beforeEnd) (hn : n ≠ 0) (hne : lb.buf ≠ []) (t : Nat)
    (ht : wordTargetFwd S U lb.buf lb.pos a d n false = some t) :
    ∃ x y z, lb.buf = x ++ y ++ z ∧ lb.pos = blen x ∧ t = blen x + blen y ∧
      LB.copy S U lb (.forwardWord n a d) = .ok (some y) := by
  have hr := nextWordPosR_target S U lb a d n true h ha hn
  simp only [Bool.not_true] at hr
  rw [ht] at hr
  obtain ⟨hb, hle⟩ := wordTargetFwd_boundary S U lb a d n false h t ht
  obtain ⟨x, y, z, hs, hbuf, hx, hy⟩ := split3_of_boundaries h hb hle
  refine ⟨x, y, z, hbuf, hx, hy, ?_⟩
  have hemp : lb.buf.isEmpty = false := by simpa using hne
  unfold LB.copy
  simp [hemp, hr, slice, hs, bind, Except.bind, pure, Except.pure]

/-- Line motions respect line breaks: `move_home` / `move_end` go to the declarative line start / end. -/
theorem C04_line_home_end (lb : LB) (h : WF lb) :
    LB.startOfLine lb = .ok (lineStartOf lb.buf lb.pos) ∧ LB.endOfLine lb = .ok (lineEndOf lb.buf lb.pos) := by
  obtain ⟨x, s, hb, hp⟩ := h.split
  have hsp : splitAtByte lb.buf lb.pos = some (x, s) := by rw [hb, hp]; exact splitAtByte_append x s
  have hsf : sliceFrom lb.buf lb.pos = .ok s := by rw [hb, hp]; exact sliceFrom_mid x s
  have hst : sliceTo lb.buf lb.pos = .ok x := by rw [hb, hp]; exact sliceTo_mid x s
  constructor
  · unfold LB.startOfLine lineStartOf splitAt?
    simp only [hst, hsp, bind, Except.bind, pure, Except.pure]
    cases rfindChar '\n' x <;> rfl
  · unfold LB.endOfLine lineEndOf splitAt?
    simp only [hsf, hsp, bind, Except.bind, pure, Except.pure]
    cases findChar '\n' s with
    | none => rfl
    | some k => simp [Nat.add_comm]

/-! ### character searches -/

/-- `f` search (`Forward c`): the model lands on the n-th occurrence of `c` after the cluster under the
    cursor, whenever there is one. -/
theorem C04_char_search_forward (S : Segmenter) (lb : LB) (c : Char) (n t : Nat) (h : WF lb) (hn : n ≠ 0)
    (ht : charSearchTarget S lb.buf lb.pos (.forward c) n = some t) :
    LB.searchCharPos S lb (.forward c) n = .ok (some t) :=
  searchCharPos_forward_eq S lb c n t h hn ht

/-- `F` search (`Backward c`): the n-th occurrence before the cursor. -/
theorem C04_char_search_backward (S : Segmenter) (lb : LB) (c : Char) (n t : Nat) (h : WF lb) (hn : n ≠ 0)
    (ht : charSearchTarget S lb.buf lb.pos (.backward c) n = some t) :
    LB.searchCharPos S lb (.backward c) n = .ok (some t) :=
  searchCharPos_backward_eq S lb c n t h hn ht

/-- FULL statement for character searches (model target = declarative target: on / one whole cluster
    before / one whole cluster after the n-th occurrence). Kept as a `def`: for `t` / `T` the code
    re-segments a slice of the buffer, which agrees with the cluster boundaries of the whole text only for
    a segmenter that is stable under cutting at its own boundaries (`C04_char_search_partial`). -/
def C04_char_search_statement : Prop :=
  ∀ (S : Segmenter) (lb : LB) (cs : CharSearch) (n : Nat) (t : Nat), WF lb → n ≠ 0 →
    charSearchTarget S lb.buf lb.pos cs n = some t → LB.searchCharPos S lb cs n = .ok (some t)

/-- The char-search statement for every stable segmenter (all four kinds, every count ≥ 1). -/
theorem C04_char_search_partial (S : Segmenter) (hS : S.Stable) (lb : LB) (cs : CharSearch) (n t : Nat)
    (h : WF lb) (hn : n ≠ 0) (ht : charSearchTarget S lb.buf lb.pos cs n = some t) :
    LB.searchCharPos S lb cs n = .ok (some t) :=
  searchCharPos_eq_target S hS lb cs n t h hn ht

/-- a lawful but unstable segmenter: texts of at most two characters are one cluster, longer texts are
    cut into single characters -/
def C04_oddSeg : Segmenter where
  seg t := if t = [] then [] else if t.length ≤ 2 then [t] else t.map (fun c => [c])
  flatten_eq := by
    intro t
    by_cases h0 : t = []
    · simp [h0]
    · by_cases h2 : t.length ≤ 2
      · simp [h0, h2]
      · simp only [h0, h2, if_false]
        have key : ∀ u : Text, (u.map (fun c => [c])).flatten = u := by
          intro u
          induction u with
          | nil => rfl
          | cons c u ih => simp [ih]
        exact key t
  ne_nil := by
    intro t g hg
    by_cases h0 : t = []
    · simp [h0] at hg
    · by_cases h2 : t.length ≤ 2
      · simp [h0, h2] at hg; subst hg; exact h0
      · simp only [h0, h2, if_false] at hg
        obtain ⟨c, _, rfl⟩ := List.mem_map.mp hg
        simp

/-- the full char-search statement is false for some lawful segmenter: "abc", `tc` from 0 — the clusters of
    the whole text are a|b|c (target 1), the slice "ab" the code re-segments is one cluster (lands on 0) -/
theorem C04_char_search_counterexample : ¬ C04_char_search_statement := by
  intro h
  have := h C04_oddSeg ⟨['a', 'b', 'c'], 0, 16, false⟩ (.forwardBefore 'c') 1 1 (isBoundary_zero _) (by decide)
    (by rfl)
  have e : LB.searchCharPos C04_oddSeg ⟨['a', 'b', 'c'], 0, 16, false⟩ (.forwardBefore 'c') 1 = .ok (some 0) := by rfl
  rw [e] at this
  simp at this

/-- the extra hypothesis is satisfiable by the segmenter the driver runs: every left-to-right grouping
    segmenter whose state restarts at a break — in particular the UAX #29 one — is stable -/
theorem C04_uaxSeg_stable (cls : Char → String) : (uaxSeg cls).Stable := uaxSeg_stable cls

theorem C04_uaxSeg_nlAlone (cls : Char → String) (h : gcbBase (cls '\n') = "LF") : (uaxSeg cls).NlAlone :=
  uaxSeg_nlAlone cls h

/-! ### a kill removes, and a copy returns, exactly the span the movement names

  Each theorem says: whatever the kill returned, the new text is the old text without the declarative
  span, the text reported to the listener is the text of the span, and the cursor is at the span start
  (`checkKill … = none`); resp. the copy returned the text of the span (`checkCopy … = none`). -/

theorem C04_kill_forwardChar_is_span (S : Segmenter) (U : UData) (lb lb' : LB) (n : Nat) (r : Bool)
    (ns : List Notif) (h : WF lb) (hrun : LB.kill S U (.forwardChar n) lb = .ok (r, lb', ns)) :
    checkKill S U lb (.forwardChar n) lb'.buf lb'.pos ns = none :=
  kill_forwardChar_is_span S U lb lb' n r ns h hrun

theorem C04_kill_backwardChar_is_span (S : Segmenter) (U : UData) (lb lb' : LB) (n : Nat) (r : Bool)
    (ns : List Notif) (h : WF lb) (hrun : LB.kill S U (.backwardChar n) lb = .ok (r, lb', ns)) :
    checkKill S U lb (.backwardChar n) lb'.buf lb'.pos ns = none :=
  kill_backwardChar_is_span S U lb lb' n r ns h hrun

/-- `C-k` / `D`: to the end of the line; with nothing left on the line, the line break (next cluster) -/
theorem C04_kill_endOfLine_is_span (S : Segmenter) (U : UData) (lb lb' : LB) (r : Bool)
    (ns : List Notif) (h : WF lb) (hrun : LB.kill S U .endOfLine lb = .ok (r, lb', ns)) :
    checkKill S U lb .endOfLine lb'.buf lb'.pos ns = none :=
  kill_endOfLine_is_span S U lb lb' r ns h hrun

/-- `C-u` / `d0`: to the start of the line; at the line start, the preceding cluster (joins the lines) -/
theorem C04_kill_beginningOfLine_is_span (S : Segmenter) (U : UData) (lb lb' : LB) (r : Bool)
    (ns : List Notif) (h : WF lb) (hrun : LB.kill S U .beginningOfLine lb = .ok (r, lb', ns)) :
    checkKill S U lb .beginningOfLine lb'.buf lb'.pos ns = none :=
  kill_beginningOfLine_is_span S U lb lb' r ns h hrun

/-- whole-line kill: the line without its break; an empty line loses its line break (this is where the
    line break must be a cluster of its own: the code removes "one cluster") -/
theorem C04_kill_wholeLine_is_span (S : Segmenter) (U : UData) (hnl : S.NlAlone) (lb lb' : LB) (r : Bool)
    (ns : List Notif) (h : WF lb) (hrun : LB.kill S U .wholeLine lb = .ok (r, lb', ns)) :
    checkKill S U lb .wholeLine lb'.buf lb'.pos ns = none :=
  kill_wholeLine_is_span S U hnl lb lb' r ns h hrun

/-- `dk`: the current line and the n lines above, with exactly one adjoining line break -/
theorem C04_kill_lineUp_is_span (S : Segmenter) (U : UData) (lb lb' : LB) (n : Nat) (r : Bool)
    (ns : List Notif) (h : WF lb) (hrun : LB.kill S U (.lineUp n) lb = .ok (r, lb', ns)) :
    checkKill S U lb (.lineUp n) lb'.buf lb'.pos ns = none :=
  kill_lineUp_is_span S U lb lb' n r ns h hrun

/-- `dj`: the current line and the n lines below, with exactly one adjoining line break -/
theorem C04_kill_lineDown_is_span (S : Segmenter) (U : UData) (lb lb' : LB) (n : Nat) (r : Bool)
    (ns : List Notif) (h : WF lb) (hrun : LB.kill S U (.lineDown n) lb = .ok (r, lb', ns)) :
    checkKill S U lb (.lineDown n) lb'.buf lb'.pos ns = none :=
  kill_lineDown_is_span S U lb lb' n r ns h hrun

theorem C04_kill_endOfBuffer_is_span (S : Segmenter) (U : UData) (lb lb' : LB) (r : Bool)
    (ns : List Notif) (h : WF lb) (hrun : LB.kill S U .endOfBuffer lb = .ok (r, lb', ns)) :
    checkKill S U lb .endOfBuffer lb'.buf lb'.pos ns = none :=
  kill_endOfBuffer_is_span S U lb lb' r ns h hrun

theorem C04_kill_beginningOfBuffer_is_span (S : Segmenter) (U : UData) (lb lb' : LB) (r : Bool)
    (ns : List Notif) (h : WF lb) (hrun : LB.kill S U .beginningOfBuffer lb = .ok (r, lb', ns)) :
    checkKill S U lb .beginningOfBuffer lb'.buf lb'.pos ns = none :=
  kill_beginningOfBuffer_is_span S U lb lb' r ns h hrun

theorem C04_kill_wholeBuffer_is_span (S : Segmenter) (U : UData) (lb lb' : LB) (r : Bool)
    (ns : List Notif) (h : WF lb) (hrun : LB.kill S U .wholeBuffer lb = .ok (r, lb', ns)) :
    checkKill S U lb .wholeBuffer lb'.buf lb'.pos ns = none :=
  kill_wholeBuffer_is_span S U lb lb' r ns h hrun

/-- `df` / `dt` / `dF`: from the cursor to (and with, for `f`) the n-th occurrence — for every lawful segmenter -/
theorem C04_kill_charSearch_forward_is_span (S : Segmenter) (U : UData) (lb lb' : LB) (n : Nat) (c : Char)
    (r : Bool) (ns : List Notif) (h : WF lb)
    (hrun : LB.kill S U (.viCharSearch n (.forward c)) lb = .ok (r, lb', ns)) :
    checkKill S U lb (.viCharSearch n (.forward c)) lb'.buf lb'.pos ns = none :=
  kill_viCharSearch_forward_is_span S U lb lb' n c r ns h hrun

theorem C04_kill_charSearch_forwardBefore_is_span (S : Segmenter) (U : UData) (lb lb' : LB) (n : Nat) (c : Char)
    (r : Bool) (ns : List Notif) (h : WF lb)
    (hrun : LB.kill S U (.viCharSearch n (.forwardBefore c)) lb = .ok (r, lb', ns)) :
    checkKill S U lb (.viCharSearch n (.forwardBefore c)) lb'.buf lb'.pos ns = none :=
  kill_viCharSearch_forwardBefore_is_span S U lb lb' n c r ns h hrun

theorem C04_kill_charSearch_backward_is_span (S : Segmenter) (U : UData) (lb lb' : LB) (n : Nat) (c : Char)
    (r : Bool) (ns : List Notif) (h : WF lb)
    (hrun : LB.kill S U (.viCharSearch n (.backward c)) lb = .ok (r, lb', ns)) :
    checkKill S U lb (.viCharSearch n (.backward c)) lb'.buf lb'.pos ns = none :=
  kill_viCharSearch_backward_is_span S U lb lb' n c r ns h hrun

/-- every char-search kill (incl. `dT`, which needs the stable segmenter) -/
theorem C04_kill_charSearch_is_span (S : Segmenter) (U : UData) (hS : S.Stable) (lb lb' : LB) (n : Nat)
    (cs : CharSearch) (r : Bool) (ns : List Notif) (h : WF lb)
    (hrun : LB.kill S U (.viCharSearch n cs) lb = .ok (r, lb', ns)) :
    checkKill S U lb (.viCharSearch n cs) lb'.buf lb'.pos ns = none :=
  kill_viCharSearch_is_span S U hS lb lb' n cs r ns h hrun

/-- word kills in oracle form (decomposition form: `C04_deleteWord_is_span`, `C04_deletePrevWord_is_span`) -/
theorem C04_kill_forwardWord_is_span (S : Segmenter) (U : UData) (lb lb' : LB) (n : Nat) (a : At) (d : Word)
    (r : Bool) (ns : List Notif) (h : WF lb) (hrun : LB.kill S U (.forwardWord n a d) lb = .ok (r, lb', ns)) :
    checkKill S U lb (.forwardWord n a d) lb'.buf lb'.pos ns = none :=
  kill_forwardWord_is_span S U lb lb' n a d r ns h hrun

theorem C04_kill_backwardWord_is_span (S : Segmenter) (U : UData) (lb lb' : LB) (n : Nat) (d : Word)
    (r : Bool) (ns : List Notif) (h : WF lb) (hrun : LB.kill S U (.backwardWord n d) lb = .ok (r, lb', ns)) :
    checkKill S U lb (.backwardWord n d) lb'.buf lb'.pos ns = none :=
  kill_backwardWord_is_span S U lb lb' n d r ns h hrun

/-- vi `^` as a motion (D46): `move_to_first_print` lands on the declarative target — the first cluster of the
    current line that holds no white space, the line end when the line is blank — leaves the text alone and
    answers `false` exactly when the cursor did not move -/
theorem C04_moveToFirstPrint_target (S : Segmenter) (U : UData) (lb lb' : LB) (r : Bool) (ns : List Notif)
    (h : WF lb) (hrun : LB.moveToFirstPrint S U lb = .ok (r, lb', ns)) :
    firstPrintTarget S U lb.buf lb.pos = some lb'.pos ∧ lb'.buf = lb.buf ∧ (r = false ↔ lb'.pos = lb.pos) :=
  moveToFirstPrint_target S U lb lb' r ns h hrun

/-- `d^` / `c^` (after the repair of D46): the text between the cursor and the first non-blank of the line -/
theorem C04_kill_viFirstPrint_is_span (S : Segmenter) (U : UData) (lb lb' : LB) (r : Bool)
    (ns : List Notif) (h : WF lb) (hrun : LB.kill S U .viFirstPrint lb = .ok (r, lb', ns)) :
    checkKill S U lb .viFirstPrint lb'.buf lb'.pos ns = none :=
  kill_viFirstPrint_is_span S U lb lb' r ns h hrun

/-- Statement "a kill with a given movement removes exactly the span the movement names" for EVERY
    movement, phrased with the executable oracle of `./check C04`, for every segmenter that is stable (used
    by `dT`) and keeps the line break alone (used by the whole-line kill of an empty line) — every UAX #29
    segmenter is both (`C04_uaxSeg_stable`, `C04_uaxSeg_nlAlone`).  (Before the repair of D46 it was refuted by
    `kill(ViFirstPrint)`, a no-op.) -/
def C04_kill_is_span_statement : Prop :=
  ∀ (S : Segmenter) (U : UData), S.Stable → S.NlAlone → ∀ (lb lb' : LB) (mvt : Movement) (r : Bool)
    (ns : List Notif), WF lb →
    LB.kill S U mvt lb = .ok (r, lb', ns) → checkKill S U lb mvt lb'.buf lb'.pos ns = none

/-- **The kill statement for EVERY movement** (every count, word definition, anchor, char search). -/
theorem C04_kill_is_span : C04_kill_is_span_statement := by
  intro S U hS hnl lb lb' mvt r ns h hrun
  cases mvt with
  | viFirstPrint => exact kill_viFirstPrint_is_span S U lb lb' r ns h hrun
  | wholeLine => exact kill_wholeLine_is_span S U hnl lb lb' r ns h hrun
  | beginningOfLine => exact kill_beginningOfLine_is_span S U lb lb' r ns h hrun
  | endOfLine => exact kill_endOfLine_is_span S U lb lb' r ns h hrun
  | backwardWord n d => exact kill_backwardWord_is_span S U lb lb' n d r ns h hrun
  | forwardWord n a d => exact kill_forwardWord_is_span S U lb lb' n a d r ns h hrun
  | viCharSearch n cs => exact kill_viCharSearch_is_span S U hS lb lb' n cs r ns h hrun
  | backwardChar n => exact kill_backwardChar_is_span S U lb lb' n r ns h hrun
  | forwardChar n => exact kill_forwardChar_is_span S U lb lb' n r ns h hrun
  | lineUp n => exact kill_lineUp_is_span S U lb lb' n r ns h hrun
  | lineDown n => exact kill_lineDown_is_span S U lb lb' n r ns h hrun
  | wholeBuffer => exact kill_wholeBuffer_is_span S U lb lb' r ns h hrun
  | beginningOfBuffer => exact kill_beginningOfBuffer_is_span S U lb lb' r ns h hrun
  | endOfBuffer => exact kill_endOfBuffer_is_span S U lb lb' r ns h hrun

theorem C04_copy_forwardChar_is_span (S : Segmenter) (U : UData) (lb : LB) (n : Nat) (r : Option Text)
    (h : WF lb) (hrun : LB.copy S U lb (.forwardChar n) = .ok r) :
    checkCopy S U lb (.forwardChar n) (.optText r) = none :=
  copy_forwardChar_is_span S U lb n r h hrun

theorem C04_copy_backwardChar_is_span (S : Segmenter) (U : UData) (lb : LB) (n : Nat) (r : Option Text)
    (h : WF lb) (hrun : LB.copy S U lb (.backwardChar n) = .ok r) :
    checkCopy S U lb (.backwardChar n) (.optText r) = none :=
  copy_backwardChar_is_span S U lb n r h hrun

theorem C04_copy_wholeLine_is_span (S : Segmenter) (U : UData) (lb : LB) (r : Option Text)
    (h : WF lb) (hrun : LB.copy S U lb .wholeLine = .ok r) :
    checkCopy S U lb .wholeLine (.optText r) = none :=
  copy_wholeLine_is_span S U lb r h hrun

theorem C04_copy_beginningOfLine_is_span (S : Segmenter) (U : UData) (lb : LB) (r : Option Text)
    (h : WF lb) (hrun : LB.copy S U lb .beginningOfLine = .ok r) :
    checkCopy S U lb .beginningOfLine (.optText r) = none :=
  copy_beginningOfLine_is_span S U lb r h hrun

theorem C04_copy_endOfLine_is_span (S : Segmenter) (U : UData) (lb : LB) (r : Option Text)
    (h : WF lb) (hrun : LB.copy S U lb .endOfLine = .ok r) :
    checkCopy S U lb .endOfLine (.optText r) = none :=
  copy_endOfLine_is_span S U lb r h hrun

theorem C04_copy_lineUp_is_span (S : Segmenter) (U : UData) (lb : LB) (n : Nat) (r : Option Text)
    (h : WF lb) (hrun : LB.copy S U lb (.lineUp n) = .ok r) :
    checkCopy S U lb (.lineUp n) (.optText r) = none :=
  copy_lineUp_is_span S U lb n r h hrun

theorem C04_copy_lineDown_is_span (S : Segmenter) (U : UData) (lb : LB) (n : Nat) (r : Option Text)
    (h : WF lb) (hrun : LB.copy S U lb (.lineDown n) = .ok r) :
    checkCopy S U lb (.lineDown n) (.optText r) = none :=
  copy_lineDown_is_span S U lb n r h hrun

theorem C04_copy_endOfBuffer_is_span (S : Segmenter) (U : UData) (lb : LB) (r : Option Text)
    (h : WF lb) (hrun : LB.copy S U lb .endOfBuffer = .ok r) :
    checkCopy S U lb .endOfBuffer (.optText r) = none :=
  copy_endOfBuffer_is_span S U lb r h hrun

theorem C04_copy_beginningOfBuffer_is_span (S : Segmenter) (U : UData) (lb : LB) (r : Option Text)
    (h : WF lb) (hrun : LB.copy S U lb .beginningOfBuffer = .ok r) :
    checkCopy S U lb .beginningOfBuffer (.optText r) = none :=
  copy_beginningOfBuffer_is_span S U lb r h hrun

theorem C04_copy_wholeBuffer_is_span (S : Segmenter) (U : UData) (lb : LB) (r : Option Text)
    (h : WF lb) (hrun : LB.copy S U lb .wholeBuffer = .ok r) :
    checkCopy S U lb .wholeBuffer (.optText r) = none :=
  copy_wholeBuffer_is_span S U lb r h hrun

theorem C04_copy_charSearch_forward_is_span (S : Segmenter) (U : UData) (lb : LB) (n : Nat) (c : Char)
    (r : Option Text) (h : WF lb) (hrun : LB.copy S U lb (.viCharSearch n (.forward c)) = .ok r) :
    checkCopy S U lb (.viCharSearch n (.forward c)) (.optText r) = none :=
  copy_viCharSearch_forward_is_span S U lb n c r h hrun

theorem C04_copy_charSearch_forwardBefore_is_span (S : Segmenter) (U : UData) (lb : LB) (n : Nat) (c : Char)
    (r : Option Text) (h : WF lb) (hrun : LB.copy S U lb (.viCharSearch n (.forwardBefore c)) = .ok r) :
    checkCopy S U lb (.viCharSearch n (.forwardBefore c)) (.optText r) = none :=
  copy_viCharSearch_forwardBefore_is_span S U lb n c r h hrun

theorem C04_copy_charSearch_backward_is_span (S : Segmenter) (U : UData) (lb : LB) (n : Nat) (c : Char)
    (r : Option Text) (h : WF lb) (hrun : LB.copy S U lb (.viCharSearch n (.backward c)) = .ok r) :
    checkCopy S U lb (.viCharSearch n (.backward c)) (.optText r) = none :=
  copy_viCharSearch_backward_is_span S U lb n c r h hrun

theorem C04_copy_charSearch_is_span (S : Segmenter) (U : UData) (hS : S.Stable) (lb : LB) (n : Nat)
    (cs : CharSearch) (r : Option Text) (h : WF lb) (hrun : LB.copy S U lb (.viCharSearch n cs) = .ok r) :
    checkCopy S U lb (.viCharSearch n cs) (.optText r) = none :=
  copy_viCharSearch_is_span S U hS lb n cs r h hrun

theorem C04_copy_forwardWord_is_span (S : Segmenter) (U : UData) (lb : LB) (n : Nat) (a : At) (d : Word)
    (r : Option Text) (h : WF lb) (hrun : LB.copy S U lb (.forwardWord n a d) = .ok r) :
    checkCopy S U lb (.forwardWord n a d) (.optText r) = none :=
  copy_forwardWord_is_span S U lb n a d r h hrun

theorem C04_copy_backwardWord_is_span (S : Segmenter) (U : UData) (lb : LB) (n : Nat) (d : Word)
    (r : Option Text) (h : WF lb) (hrun : LB.copy S U lb (.backwardWord n d) = .ok r) :
    checkCopy S U lb (.backwardWord n d) (.optText r) = none :=
  copy_backwardWord_is_span S U lb n d r h hrun

/-- `y^` (after the repair of D46) -/
theorem C04_copy_viFirstPrint_is_span (S : Segmenter) (U : UData) (lb : LB) (r : Option Text)
    (h : WF lb) (hrun : LB.copy S U lb .viFirstPrint = .ok r) :
    checkCopy S U lb .viFirstPrint (.optText r) = none :=
  copy_viFirstPrint_is_span S U lb r h hrun

/-- Statement for copies, EVERY movement, for every stable segmenter (used by `yT`).  (Before the repair of D46
    it was refuted by `copy(ViFirstPrint)`, measured from the start of the buffer.) -/
def C04_copy_is_span_statement : Prop :=
  ∀ (S : Segmenter) (U : UData), S.Stable → ∀ (lb : LB) (mvt : Movement) (r : Option Text), WF lb →
    LB.copy S U lb mvt = .ok r → checkCopy S U lb mvt (.optText r) = none

/-- **The copy statement for EVERY movement.** -/
theorem C04_copy_is_span : C04_copy_is_span_statement := by
  intro S U hS lb mvt r h hrun
  cases mvt with
  | viFirstPrint => exact copy_viFirstPrint_is_span S U lb r h hrun
  | wholeLine => exact copy_wholeLine_is_span S U lb r h hrun
  | beginningOfLine => exact copy_beginningOfLine_is_span S U lb r h hrun
  | endOfLine => exact copy_endOfLine_is_span S U lb r h hrun
  | backwardWord n d => exact copy_backwardWord_is_span S U lb n d r h hrun
  | forwardWord n a d => exact copy_forwardWord_is_span S U lb n a d r h hrun
  | viCharSearch n cs => exact copy_viCharSearch_is_span S U hS lb n cs r h hrun
  | backwardChar n => exact copy_backwardChar_is_span S U lb n r h hrun
  | forwardChar n => exact copy_forwardChar_is_span S U lb n r h hrun
  | lineUp n => exact copy_lineUp_is_span S U lb n r h hrun
  | lineDown n => exact copy_lineDown_is_span S U lb n r h hrun
  | wholeBuffer => exact copy_wholeBuffer_is_span S U lb r h hrun
  | beginningOfBuffer => exact copy_beginningOfBuffer_is_span S U lb r h hrun
  | endOfBuffer => exact copy_endOfBuffer_is_span S U lb r h hrun

/-! ### what is NOT true of the current tree -/

/-- a small concrete Unicode-data record for counter-examples -/
def C04_exU : UData := ⟨fun c => c.isAlphanum, fun c => c == ' ', fun c => [c], fun c => [c], fun t => t.length, fun _ => 1⟩

/-- regression witnesses of D46: "ab", cursor 1, `d^` removes "a"; "a\nbc", cursor 4, `y^` returns "bc";
    "\n0. ", cursor 3, `^` goes to 1 -/
example : LB.kill charSeg C04_exU .viFirstPrint ⟨['a', 'b'], 1, 16, false⟩ =
    .ok (true, ⟨['b'], 0, 16, false⟩, [.startKill, .del 0 ['a'] .backward, .stopKill]) := by rfl
example : LB.copy charSeg C04_exU ⟨['a', '\n', 'b', 'c'], 4, 16, false⟩ .viFirstPrint = .ok (some ['b', 'c']) := by rfl
example : LB.moveToFirstPrint charSeg ⟨fun c => c.isAlphanum, fun c => c == ' ' || c == '\n', fun c => [c], fun c => [c], fun t => t.length, fun _ => 1⟩
    ⟨['\n', '0', '.', ' '], 3, 16, false⟩ = .ok (true, ⟨['\n', '0', '.', ' '], 1, 16, false⟩, []) := by rfl

/-- FULL statement for `At::BeforeEnd` (vi `e` / `E`), not a theorem on the current tree -/
def C04_word_target_beforeEnd_statement : Prop :=
  ∀ (S : Segmenter) (U : UData) (lb : LB) (d : Word) (n : Nat), WF lb → n ≠ 0 → d ≠ .emacs →
    LB.nextWordPos S U lb lb.pos .beforeEnd d n = .ok (wordTargetFwd S U lb.buf lb.pos .beforeEnd d n true)

theorem C04_word_target_beforeEnd_counterexample : ¬ C04_word_target_beforeEnd_statement := by
  intro h
  have := h charSeg C04_exU ⟨['a', ',', 'a'], 0, 16, false⟩ .vi 2 (isBoundary_zero _) (by decide) (by decide)
  have e1 : LB.nextWordPos charSeg C04_exU ⟨['a', ',', 'a'], 0, 16, false⟩ 0 .beforeEnd .vi 2 = .ok none := by rfl
  have e2 : wordTargetFwd charSeg C04_exU ['a', ',', 'a'] 0 .beforeEnd .vi 2 true = some 2 := by rfl
  rw [e1, e2] at this
  simp at this


/-! ## vertical motion (after the D36 repair) -/

/-- what `verticalTarget` picks: a cluster boundary of the destination line at or right of the wanted
    column `c`, or the line end -/
theorem C04_verticalTarget_spec (S : Segmenter) (U : UData) (buf : Text) (ds de : Nat) (line : Text) (pc c : Nat) :
    verticalTarget S U buf ds de line pc c = de ∨
      (verticalTarget S U buf ds de line pc c ∈ bounds ds (S.seg line) ∧
        displayCol U buf (verticalTarget S U buf ds de line pc c) pc ≥ c) := by
  unfold verticalTarget
  cases hf : (bounds ds (S.seg line)).find? (fun q => decide (displayCol U buf q pc ≥ c)) with
  | none => left; rfl
  | some q =>
    right
    have h1 := List.find?_some hf
    exact ⟨List.mem_of_find?_eq_some hf, by simpa using h1⟩

/-- `move_to_line_up(n)`, `n ≠ 0`, from a well-formed state: on the first line nothing happens;
    otherwise the destination is the declarative line (`n` lines up, or the first line), the cursor
    lands inside it, exactly on the declarative `verticalTarget`: the first cluster boundary of that line
    at or right of the display column the cursor came from, else the line end. -/
theorem C04_moveToLineUp_dest (S : Segmenter) (U : UData) (n pc : Nat) (lb lb' : LB) (r : Bool)
    (ns : List Notif) (h : WF lb) (hn : n ≠ 0) (hrun : LB.moveToLineUp S U n pc lb = .ok (r, lb', ns)) :
    (verticalDest lb.buf lb.pos n true = none ∧ r = false ∧ lb' = lb) ∨
    ∃ ds de line, verticalDest lb.buf lb.pos n true = some (ds, de) ∧ r = true ∧
      slice lb.buf ds de = .ok line ∧ lb'.buf = lb.buf ∧ ds ≤ lb'.pos ∧ lb'.pos ≤ de ∧
      lb'.pos = verticalTarget S U lb.buf ds de line pc (displayCol U lb.buf lb.pos pc) := by
  rcases vm_moveToLineUp_eval S U n pc lb h hn with ⟨h0, he⟩ | ⟨h0, ds, de, line, cur, hds, hL, hcur, he⟩
  · left
    rw [he] at hrun
    cases hrun
    exact ⟨by simp [verticalDest, h0], rfl, rfl⟩
  · right
    rw [he] at hrun
    cases hrun
    have hc : displayCol U lb.buf lb.pos pc = U.width cur := by
      simp [displayCol, hcur, h0]
    refine ⟨ds, de, line, ?_, rfl, hL.slice, rfl, Nat.le_add_right _ _, ?_, ?_⟩
    · simp [verticalDest, h0, ← hds, hL.end_start]
    · have := vm_offOf_le S line (vm_landK U (S.seg line) (U.width cur - (if ds = 0 then pc else 0)))
      have := hL.le
      simp only []
      omega
    · rw [hc, vm_target S U pc (U.width cur) hL]

/-- `move_to_line_down(n)`: same (the display column of the cursor includes the prompt width when the
    cursor is on the first line; the destination never is the first line). -/
theorem C04_moveToLineDown_dest (S : Segmenter) (U : UData) (n pc : Nat) (lb lb' : LB) (r : Bool)
    (ns : List Notif) (h : WF lb) (hn : n ≠ 0) (hrun : LB.moveToLineDown S U n pc lb = .ok (r, lb', ns)) :
    (verticalDest lb.buf lb.pos n false = none ∧ r = false ∧ lb' = lb) ∨
    ∃ ds de line, verticalDest lb.buf lb.pos n false = some (ds, de) ∧ r = true ∧
      slice lb.buf ds de = .ok line ∧ lb'.buf = lb.buf ∧ ds ≤ lb'.pos ∧ lb'.pos ≤ de ∧
      lb'.pos = verticalTarget S U lb.buf ds de line pc (displayCol U lb.buf lb.pos pc) := by
  rcases vm_moveToLineDown_eval S U n pc lb h hn with ⟨h0, he⟩ | ⟨h0, ds, de, line, cur, hde, hds0, hL, hcur, he⟩
  · left
    rw [he] at hrun
    cases hrun
    exact ⟨by simp [verticalDest, h0], rfl, rfl⟩
  · right
    rw [he] at hrun
    cases hrun
    have hc : displayCol U lb.buf lb.pos pc =
        U.width cur + (if lineStartOf lb.buf lb.pos = 0 then pc else 0) := by
      simp [displayCol, hcur]
    refine ⟨ds, de, line, ?_, rfl, hL.slice, rfl, Nat.le_add_right _ _, ?_, ?_⟩
    · have : ¬ blen lb.buf ≤ lineEndOf lb.buf lb.pos := by omega
      simp [verticalDest, this, ← hde, hL.start_end]
    · have := vm_offOf_le S line
        (vm_landK U (S.seg line) (U.width cur + (if lineStartOf lb.buf lb.pos = 0 then pc else 0)))
      have := hL.le
      simp only []
      omega
    · rw [hc, vm_target S U pc _ hL]
      simp [hds0]

/-- Column theorem for `move_to_line_up`, for EVERY lawful segmenter and every width function (wide,
    zero-width clusters included): the executable oracle `checkVerticalCol` is satisfied. "Same display
    column" means: the first cluster boundary of the destination line whose display column (width of the
    text before it, plus the prompt on the first line) is at or right of the cursor's; so exactly the
    cursor's column whenever a boundary has it, just after a wide cluster that straddles it, and the line
    end when the line is too short. -/
theorem C04_moveToLineUp_column (S : Segmenter) (U : UData) (n pc : Nat) (lb lb' : LB) (r : Bool)
    (ns : List Notif) (h : WF lb) (hn : n ≠ 0) (hrun : LB.moveToLineUp S U n pc lb = .ok (r, lb', ns)) :
    checkVerticalCol S U lb n true pc lb'.pos = none := by
  rcases vm_moveToLineUp_eval S U n pc lb h hn with ⟨h0, he⟩ | ⟨h0, ds, de, line, cur, hds, hL, hcur, he⟩
  · rw [he] at hrun
    cases hrun
    have hn' : (n == 0) = false := by simp [hn]
    simp [checkVerticalCol, hn', verticalDest, h0]
  · rw [he] at hrun
    cases hrun
    have hvd : verticalDest lb.buf lb.pos n true = some (ds, de) := by
      simp [verticalDest, h0, ← hds, hL.end_start]
    have hc : displayCol U lb.buf lb.pos pc = U.width cur := by
      simp [displayCol, hcur, h0]
    exact vm_check S U lb n true pc ds de line (U.width cur) _ hn hvd hL hc rfl

/-- Column theorem for `move_to_line_down`, likewise without any hypothesis on widths. -/
theorem C04_moveToLineDown_column (S : Segmenter) (U : UData) (n pc : Nat) (lb lb' : LB) (r : Bool)
    (ns : List Notif) (h : WF lb) (hn : n ≠ 0) (hrun : LB.moveToLineDown S U n pc lb = .ok (r, lb', ns)) :
    checkVerticalCol S U lb n false pc lb'.pos = none := by
  rcases vm_moveToLineDown_eval S U n pc lb h hn with ⟨h0, he⟩ | ⟨h0, ds, de, line, cur, hde, hds0, hL, hcur, he⟩
  · rw [he] at hrun
    cases hrun
    have hn' : (n == 0) = false := by simp [hn]
    simp [checkVerticalCol, hn', verticalDest, h0]
  · rw [he] at hrun
    cases hrun
    have hvd : verticalDest lb.buf lb.pos n false = some (ds, de) := by
      have : ¬ blen lb.buf ≤ lineEndOf lb.buf lb.pos := by omega
      simp [verticalDest, this, ← hde, hL.start_end]
    have hc : displayCol U lb.buf lb.pos pc =
        U.width cur + (if lineStartOf lb.buf lb.pos = 0 then pc else 0) := by
      simp [displayCol, hcur]
    exact vm_check S U lb n false pc ds de line _ _ hn hvd hL hc (by simp [hds0])

/-- the statement "a vertical motion keeps the display column" in one piece, phrased with the executable
    oracle `checkVerticalCol` (it was refuted before the D36 repair: the code used the display width as a
    cluster index) -/
def C04_vertical_column_statement : Prop :=
  ∀ (up : Bool) (S : Segmenter) (U : UData) (n pc : Nat) (lb lb' : LB) (r : Bool) (ns : List Notif), WF lb → n ≠ 0 →
    (if up then LB.moveToLineUp S U n pc lb else LB.moveToLineDown S U n pc lb) = .ok (r, lb', ns) →
    checkVerticalCol S U lb n up pc lb'.pos = none

/-- … is now a theorem -/
theorem C04_vertical_column : C04_vertical_column_statement := by
  intro up S U n pc lb lb' r ns h hn hrun
  cases up with
  | true => exact C04_moveToLineUp_column S U n pc lb lb' r ns h hn (by simpa using hrun)
  | false => exact C04_moveToLineDown_column S U n pc lb lb' r ns h hn (by simpa using hrun)

/-! ### non-vacuity and regression witnesses (the inputs that refuted the statement before D36) -/

/-- Unicode data with a wide character: `'W'` is two columns wide, every other character one -/
def C04_wideU : UData :=
  ⟨fun c => c.isAlphanum, fun c => c == ' ', fun c => [c], fun c => [c],
   fun t => (t.map (fun c => if c == 'W' then 2 else 1)).sum, fun c => if c == 'W' then 2 else 1⟩

/-- "WW\nabcd", cursor after "ab" (display column 2), one line up: after the first 'W' (was: end of "WW") -/
example : LB.moveToLineUp charSeg C04_wideU 1 0 ⟨['W', 'W', '\n', 'a', 'b', 'c', 'd'], 5, 16, false⟩ =
    .ok (true, ⟨['W', 'W', '\n', 'a', 'b', 'c', 'd'], 1, 16, false⟩, []) := by rfl
/-- "abcd\nWW", cursor after "ab", one line down: after the first 'W' (was: end of "WW") -/
example : LB.moveToLineDown charSeg C04_wideU 1 0 ⟨['a', 'b', 'c', 'd', '\n', 'W', 'W'], 2, 16, false⟩ =
    .ok (true, ⟨['a', 'b', 'c', 'd', '\n', 'W', 'W'], 6, 16, false⟩, []) := by rfl
/-- a wide cluster straddles the column: "Wx\nab", cursor after "a" (column 1), up: just after the 'W' (column 2) -/
example : LB.moveToLineUp charSeg C04_wideU 1 0 ⟨['W', 'x', '\n', 'a', 'b'], 4, 16, false⟩ =
    .ok (true, ⟨['W', 'x', '\n', 'a', 'b'], 1, 16, false⟩, []) := by rfl
example : verticalTarget charSeg C04_wideU ['W', 'x', '\n', 'a', 'b'] 0 2 ['W', 'x'] 0 1 = 1 := by rfl
example : verticalDest ['W', 'W', '\n', 'a', 'b', 'c', 'd'] 5 1 true = some (0, 2) := by rfl
example : verticalDest ['a', '\n', 'b', '\n', 'c', 'd'] 0 5 false = some (4, 6) := by rfl
example : displayCol C04_wideU ['W', 'W', '\n', 'a', 'b', 'c', 'd'] 1 3 = 5 := by rfl
/-- the old landing position (end of "WW") is rejected, the new one accepted -/
example : checkVerticalCol charSeg C04_wideU ⟨['W', 'W', '\n', 'a', 'b', 'c', 'd'], 5, 16, false⟩ 1 true 0 2 =
    some "vertical-wrong-column" := by rfl
example : checkVerticalCol charSeg C04_wideU ⟨['W', 'W', '\n', 'a', 'b', 'c', 'd'], 5, 16, false⟩ 1 true 0 1 = none := by rfl
/-- prompt wider than the column: the start of the first line -/
example : checkVerticalCol charSeg C04_wideU ⟨['x', 'y', 'z', '\n', 'a', 'b', 'c', 'd'], 5, 16, false⟩ 1 true 3 0 = none := by rfl


/-! ### non-vacuity (words) -/

example : wordTargetFwd charSeg C04_exU ['a', ',', 'b', 'c'] 0 .start .vi 2 true = some 2 := by rfl
example : LB.nextWordPos charSeg C04_exU ⟨['a', ',', 'b', 'c'], 0, 16, false⟩ 0 .start .vi 2 = .ok (some 2) := by rfl
example : wordTargetBwd charSeg C04_exU ['a', ',', 'b', 'c'] 4 .vi 2 = some 1 := by rfl


/-! ## character searches whose count exceeds the number of occurrences (round 17)

  `csTotal S buf pos cs` is the number of occurrences of the searched character in the region the search
  scans (after the cluster under the cursor for `f`/`t`, before the cursor for `F`/`T`).  The theorems
  `C04_char_search_*` above assume that the n-th occurrence exists; these say what the model — and, through
  `./check C04`, the code — does for EVERY count. -/

/-- No occurrence of the character in the region searched (any kind of search `f t F T`, any count ≥ 1, any
    lawful segmenter, any well-formed state): the declarative spec has no target and the model's
    `search_char_pos` answers `None`, so the cursor does not move and nothing is killed. -/
theorem C04_char_search_nothing (S : Segmenter) (lb : LB) (cs : CharSearch) (n : Nat) (h : WF lb) (hn : n ≠ 0)
    (h0 : csTotal S lb.buf lb.pos cs = 0) :
    charSearchTarget S lb.buf lb.pos cs n = none ∧ LB.searchCharPos S lb cs n = .ok none :=
  ⟨cs_target_none_of_total_zero S lb cs n h hn h0, searchCharPos_none_of_total_zero S lb cs n h h0⟩

/-- The count of a character search is CLAMPED to the number `K ≥ 1` of occurrences: for every well-formed
    state, every kind of search, every count `n ≥ 1` and every stable segmenter, the model lands on the
    declarative target of the `min n K`-th occurrence (on it, one whole cluster before it, one whole cluster
    after it).  For `n ≤ K` this is `C04_char_search_partial`; for `n > K` the model goes to the LAST occurrence
    although the property's "n-th occurrence" does not exist. -/
theorem C04_char_search_clamped (S : Segmenter) (hS : S.Stable) (lb : LB) (cs : CharSearch) (n t : Nat)
    (h : WF lb) (hn : n ≠ 0) (hK : csTotal S lb.buf lb.pos cs ≠ 0)
    (ht : charSearchTarget S lb.buf lb.pos cs (min n (csTotal S lb.buf lb.pos cs)) = some t) :
    LB.searchCharPos S lb cs n = .ok (some t) := by
  rw [searchCharPos_clamp S lb cs n h]
  exact searchCharPos_eq_target S hS lb cs _ t h (by omega) ht

/-- non-vacuity: "aXa", cursor 0, `5fa`: one occurrence after the cursor cluster, the model lands on it -/
example : csTotal charSeg ['a', 'X', 'a'] 0 (.forward 'a') = 1 ∧
    charSearchTarget charSeg ['a', 'X', 'a'] 0 (.forward 'a') (min 5 1) = some 2 ∧
    LB.searchCharPos charSeg ⟨['a', 'X', 'a'], 0, 16, false⟩ (.forward 'a') 5 = .ok (some 2) := ⟨rfl, rfl, rfl⟩

/-- FULL statement "the model's search target IS the declarative one" with the no-target case included (the
    cursor stays when there is no n-th occurrence) — refuted by `C04_char_search_total_counterexample`. -/
def C04_char_search_total_statement : Prop :=
  ∀ (S : Segmenter) (lb : LB) (cs : CharSearch) (n : Nat), S.Stable → WF lb → n ≠ 0 →
    LB.searchCharPos S lb cs n = .ok (charSearchTarget S lb.buf lb.pos cs n)

/-- FINDING (F-C04-charsearch-count-overrun): "aXa", cursor 0, `2fa` — there is one `a` after the cursor, no
    second occurrence, yet `search_char_pos` answers `Some(2)`: the cursor moves to the only occurrence (and
    `d2fa` kills up to and including it). -/
theorem C04_char_search_total_counterexample : ¬ C04_char_search_total_statement := by
  intro hst
  have := hst charSeg ⟨['a', 'X', 'a'], 0, 16, false⟩ (.forward 'a') 2 charSeg_stable (isBoundary_zero _) (by decide)
  have e1 : LB.searchCharPos charSeg ⟨['a', 'X', 'a'], 0, 16, false⟩ (.forward 'a') 2 = .ok (some 2) := by rfl
  have e2 : charSearchTarget charSeg ['a', 'X', 'a'] 0 (.forward 'a') 2 = none := by rfl
  rw [e1, e2] at this
  simp at this

/-- the same input as a kill: `d2fa` on "aXa" removes the whole text although there is no second `a` -/
example : (match LB.kill charSeg C04_exU (.viCharSearch 2 (.forward 'a')) ⟨['a', 'X', 'a'], 0, 16, false⟩ with
    | .ok (_, lb', _) => lb'.buf
    | _ => ['?']) = [] := by rfl

/-- The EXACT set of inputs on which model and spec agree for the plain searches `f` / `F`, for every lawful
    segmenter, well-formed state and count `n ≥ 1`: the model's answer equals the declarative target
    (including "no target, stay") if and only if the count does not exceed the number of occurrences, or there
    is no occurrence at all.  So the deviation recorded above happens exactly for `1 ≤ K < n`. -/
theorem C04_char_search_plain_agree_iff (S : Segmenter) (lb : LB) (cs : CharSearch) (c : Char)
    (hcs : cs = .forward c ∨ cs = .backward c) (n : Nat) (h : WF lb) (hn : n ≠ 0) :
    LB.searchCharPos S lb cs n = .ok (charSearchTarget S lb.buf lb.pos cs n) ↔
      (n ≤ csTotal S lb.buf lb.pos cs ∨ csTotal S lb.buf lb.pos cs = 0) := by
  have hplain : ∀ m t, m ≠ 0 → charSearchTarget S lb.buf lb.pos cs m = some t →
      LB.searchCharPos S lb cs m = .ok (some t) := by
    intro m t hm ht
    rcases hcs with rfl | rfl
    · exact searchCharPos_forward_eq S lb c m t h hm ht
    · exact searchCharPos_backward_eq S lb c m t h hm ht
  by_cases hK : csTotal S lb.buf lb.pos cs = 0
  · have := C04_char_search_nothing S lb cs n h hn hK
    rw [this.1, this.2]
    simp [hK]
  · by_cases hle : n ≤ csTotal S lb.buf lb.pos cs
    · have hs := cs_plain_isSome S lb cs c hcs n h hn
      cases ht : charSearchTarget S lb.buf lb.pos cs n with
      | none => rw [ht] at hs; simp at hs; omega
      | some t => rw [hplain n t hn ht]; simp [hle]
    · have hs := cs_plain_isSome S lb cs c hcs n h hn
      have hsK := cs_plain_isSome S lb cs c hcs (csTotal S lb.buf lb.pos cs) h hK
      cases htK : charSearchTarget S lb.buf lb.pos cs (csTotal S lb.buf lb.pos cs) with
      | none => rw [htK] at hsK; simp at hsK
      | some t =>
        have hm : min n (csTotal S lb.buf lb.pos cs) = csTotal S lb.buf lb.pos cs := by omega
        rw [searchCharPos_clamp S lb cs n h, hm, hplain _ t hK htK]
        cases ht : charSearchTarget S lb.buf lb.pos cs n with
        | none => simp [hle, hK]
        | some u => rw [ht] at hs; simp at hs; omega


/-! ## vi `e` / `E` (`At::BeforeEnd`) with a count of 1 (round 17)

  `C04_word_target_beforeEnd_statement` (every count) is refuted above (F-C04-vi-e-count, witness with count 2).
  For a count of 1 — plain `e` / `E`, the keys people type — the model target IS the declarative one, for every
  lawful segmenter, every Unicode data and every well-formed state; so every input on which model and spec
  differ has a count ≥ 2. -/

/-- `C04_word_target_beforeEnd_statement` with the extra hypothesis `n = 1` (what is missing: counts ≥ 2, where
    the statement is false): `next_word_pos(pos, BeforeEnd, Vi|Big, 1)` answers the start of the last cluster of
    the first word end lying at least one cluster after the cluster under the cursor; when there is none, the
    start of the last cluster of the text; `None` when the cursor is on the last cluster or at the text end. -/
theorem C04_word_target_beforeEnd_partial (S : Segmenter) (U : UData) (lb : LB) (d : Word) (h : WF lb)
    (hd : d ≠ .emacs) :
    LB.nextWordPos S U lb lb.pos .beforeEnd d 1 = .ok (wordTargetFwd S U lb.buf lb.pos .beforeEnd d 1 true) :=
  nextWordPos_beforeEnd_one S U lb d h hd

/-- The motion itself: `move_to_next_word(At::BeforeEnd, Vi|Big, 1)` (vi `e` / `E`) from a well-formed state
    leaves the text alone, puts the cursor on the declarative target, or leaves it where it was when there is no
    target, and answers `true` exactly when there was a target. -/
theorem C04_moveToNextWord_beforeEnd_one (S : Segmenter) (U : UData) (lb lb' : LB) (d : Word) (r : Bool)
    (ns : List Notif) (h : WF lb) (hd : d ≠ .emacs)
    (hrun : LB.moveToNextWord S U .beforeEnd d 1 lb = .ok (r, lb', ns)) :
    lb'.buf = lb.buf ∧ ns = [] ∧
      lb'.pos = (wordTargetFwd S U lb.buf lb.pos .beforeEnd d 1 true).getD lb.pos ∧
      r = (wordTargetFwd S U lb.buf lb.pos .beforeEnd d 1 true).isSome := by
  have ht := nextWordPos_beforeEnd_one S U lb d h hd
  unfold LB.moveToNextWord at hrun
  simp only [LM.bind_apply, LM.ro, ht] at hrun
  cases hc : wordTargetFwd S U lb.buf lb.pos .beforeEnd d 1 true with
  | none =>
    simp [hc] at hrun
    obtain ⟨rfl, rfl, rfl⟩ := hrun
    simp
  | some p =>
    simp [hc, LM.setPos] at hrun
    obtain ⟨rfl, rfl, rfl⟩ := hrun
    simp

/-- non-vacuity: "ab, c" from 0, `e` goes to 1 (the `b`); from 1 to 2 (the comma); "a,a" from 0 to 1;
    on the last cluster it stays -/
example : wordTargetFwd charSeg C04_exU ['a', 'b', ',', ' ', 'c'] 0 .beforeEnd .vi 1 true = some 1 := by rfl
example : LB.nextWordPos charSeg C04_exU ⟨['a', 'b', ',', ' ', 'c'], 1, 16, false⟩ 1 .beforeEnd .vi 1 = .ok (some 2) := by rfl
example : LB.nextWordPos charSeg C04_exU ⟨['a', ',', 'a'], 0, 16, false⟩ 0 .beforeEnd .vi 1 = .ok (some 1) := by rfl
example : LB.nextWordPos charSeg C04_exU ⟨['a', ',', 'a'], 2, 16, false⟩ 2 .beforeEnd .vi 1 = .ok none := by rfl
