/-
  Property C15 — file name completion offers exactly the matches, quoted so they read back intact.
  Only property theorems and non-vacuity examples live here; helper lemmas are in
  Rl/Lemmas/Completion.lean.  Model: Rl/Completion.lean (transliteration of src/completion.rs).
  Spec: Rl/Spec/Completion.lean (written from the property text).
-/
import Rl.Completion
import Rl.Spec.Completion
import Rl.Lemmas.Completion
import Rl.Lemmas.CompletionReplacement
open Rl Rl.Completion

/-- Escaping then unescaping is the identity, for every text, every break set that contains the
    escape character, in the bare and the double-quote context. -/
theorem C15_unescape_escape (e : Char) (isBreak : Char → Bool) (hb : isBreak e = true)
    (q : Quote) (hq : q ≠ .single) (s : Text) :
    unescape (some e) (escape (some e) isBreak q s) = s := by
  rw [unescape_some, escape_eq_flatMap e isBreak q hq]
  have := unescapeGo_flatMap_escChar e isBreak hb s []
  simpa [unescapeGo] using this

/-- Inside single quotes nothing is escaped and nothing is unescaped (`esc_char = None`). -/
theorem C15_unescape_escape_single (isBreak : Char → Bool) (s : Text) :
    unescape none (escape none isBreak .single s) = s := by
  simp [unescape, escape]

/-- the hypothesis of `C15_unescape_escape` is needed: with an escape character that is not a
    break character a name containing it is not read back -/
example : unescape (some '\\') (escape (some '\\') (fun c => c = ' ') .none "a\\b".toList) ≠ "a\\b".toList := by
  decide

/-- non-vacuity: both unix parameter sets satisfy the hypothesis -/
example : defaultBreak '\\' = true ∧ dqSpecial '\\' = true := by decide

/-! ### the word extractor and the quote scanner invert the escape function -/

/-- For the public helper `extract_word` (reverse scan, quotes not interpreted).
    Syntactic, decidable condition on what is typed before the partial path in the bare context:
    nothing, or a break character other than the escape character that is preceded by an even
    number (possibly zero) of escape characters. -/
def C15_unquoted (e : Char) (B : Char → Bool) (pre : Text) : Bool :=
  match pre.reverse with
  | [] => true
  | b :: r => B b && b != e && (r.takeWhile (· == e)).length % 2 == 0

/-- Decidable condition for the quoted contexts: the quote scanner is in its normal mode after
    the prefix (every quote opened in it is closed, it does not end in a pending escape). -/
def C15_closed (pre : Text) : Bool := (scanGo pre 0 .normal 0).1 == .normal

theorem C15_unquoted_sound (e : Char) (B : Char → Bool) (pre : Text) :
    C15_unquoted e B pre = true → UnquotedRev e B pre.reverse := by
  unfold C15_unquoted UnquotedRev
  cases pre.reverse with
  | nil => intro; exact Or.inl rfl
  | cons b r =>
    intro h
    simp only [Bool.and_eq_true, bne_iff_ne, ne_eq, beq_iff_eq] at h
    exact Or.inr ⟨b, r, rfl, h.1.1, h.1.2, h.2⟩

/-- Bare context.  After an unquoted prefix, with the cursor at the end of the inserted
    (escaped) text, `extract_word` returns exactly the inserted text and where it starts —
    for every text `s`, whatever blanks, quotes, backslashes or multi-byte characters it has. -/
theorem C15_extract_inverts (e : Char) (B : Char → Bool) (he : B e = true) (pre s : Text)
    (hpre : C15_unquoted e B pre = true) :
    extractWord (pre ++ escape (some e) B .none s) (blen (pre ++ escape (some e) B .none s)) (some e) B
      = some (blen pre, escape (some e) B .none s) := by
  rw [escape_eq_flatMap e B .none (by decide)]
  exact extractWord_escaped e B he pre s (C15_unquoted_sound e B pre hpre)

/-- Double-quote context: after a closed prefix, an opening `"` and the escaped text, the
    scanner reports that quote as the unclosed one. -/
theorem C15_quote_inverts (D : Char → Bool) (h1 : D '"' = true) (h2 : D '\\' = true) (pre s : Text)
    (hpre : C15_closed pre = true) :
    findUnclosedQuote (pre ++ ['"'] ++ escape (some '\\') D .double s) = some (blen pre, .double) := by
  rw [escape_eq_flatMap '\\' D .double (by decide)]
  unfold findUnclosedQuote
  have hm : (scanGo pre 0 .normal 0).1 = .normal := by simpa [C15_closed] using hpre
  simp only [List.append_assoc, scanGo_append, hm]
  simp [scanGo, scanStep, scanGo_escaped_dq D h1 h2]

/-- Single-quote context, for texts without a single quote (no escape exists there). -/
theorem C15_quote_inverts_single (pre s : Text) (hs : '\'' ∉ s) (hpre : C15_closed pre = true) :
    findUnclosedQuote (pre ++ ['\''] ++ s) = some (blen pre, .single) := by
  unfold findUnclosedQuote
  have hm : (scanGo pre 0 .normal 0).1 = .normal := by simpa [C15_closed] using hpre
  simp only [List.append_assoc, scanGo_append, hm]
  simp [scanGo, scanStep, scanGo_sq s hs]

/-- Bare context: the escaped text opens no quote. -/
theorem C15_bare_opens_no_quote (B : Char → Bool) (h1 : B '"' = true) (h2 : B '\\' = true)
    (h3 : B '\'' = true) (pre s : Text) (hpre : C15_closed pre = true) :
    findUnclosedQuote (pre ++ escape (some '\\') B .none s) = none := by
  rw [escape_eq_flatMap '\\' B .none (by decide)]
  unfold findUnclosedQuote
  have hm : (scanGo pre 0 .normal 0).1 = .normal := by simpa [C15_closed] using hpre
  simp only [scanGo_append, hm]
  simp [scanGo_escaped_bare B h1 h2 h3]

/-! ### the completer's own scan (`bare_word_start`, D26 repaired): one reading with the quote scanner -/

/-- Decidable condition on what is typed before the partial path in the bare context, for the
    completer: its scan, run on the prefix alone, ends outside quotes and escapes with the empty
    word (nothing typed, or the last thing read is a break character that is neither escaped nor
    quoted - a blank, `=`, a closing quote …). -/
def C15_bare_prefix (B : Char → Bool) (pre : Text) : Bool :=
  bareGo B pre 0 .normal 0 == (.normal, blen pre)

/-- The completer's word scan and `find_unclosed_quote` agree about what is quoted: their loops
    are in the same mode at the cursor, for every text and every break set. -/
theorem C15_scanners_agree (B : Char → Bool) (l : Text) :
    (bareGo B l 0 .normal 0).1 = (scanGo l 0 .normal 0).1 :=
  bareGo_mode B l 0 0 0 0 .normal

/-- … hence a bare prefix is a closed one -/
theorem C15_bare_prefix_closed (B : Char → Bool) (pre : Text) (h : C15_bare_prefix B pre = true) :
    C15_closed pre = true := by
  have h' : bareGo B pre 0 .normal 0 = (.normal, blen pre) := by simpa [C15_bare_prefix] using h
  have := C15_scanners_agree B pre
  rw [h'] at this
  simp [C15_closed, ← this]

/-- The prefix condition composes: whatever stands before (closed quoted segments ending in
    backslashes included), once the scan is outside quotes and escapes, one more break character
    that is not a backslash or a quote makes a bare prefix. -/
theorem C15_bare_prefix_after_break (B : Char → Bool) (pre : Text) (b : Char)
    (hm : (bareGo B pre 0 .normal 0).1 = .normal) (hb : B b = true)
    (h1 : b ≠ '"') (h2 : b ≠ '\\') (h3 : b ≠ '\'') :
    C15_bare_prefix B (pre ++ [b]) = true := by
  unfold C15_bare_prefix
  rw [bareGo_append, hm]
  simp [bareGo, bareStep, h1, h2, h3, hb]

/-- The slice `&line[start..pos]` taken by `complete_path` never panics: the scan ends on a
    character boundary, for every line and every break set. -/
theorem C15_bare_word_total (B : Char → Bool) (l : Text) :
    ∃ a w, l = a ++ w ∧ splitAtByte l (bareWordStart B l) = some (a, w) := by
  obtain ⟨a, w, h1, _, h3⟩ := bareWordStart_split B l
  exact ⟨a, w, h1, h3⟩

/-- Bare context, completer.  After a bare prefix, with the cursor at the end of the inserted
    (escaped) text, the completer's scan starts the word exactly at the inserted text — for every
    text `s`, whatever blanks, quotes, backslashes or multi-byte characters it has. -/
theorem C15_completer_inverts (B : Char → Bool) (h1 : B '"' = true) (h2 : B '\\' = true)
    (h3 : B '\'' = true) (pre s : Text) (hpre : C15_bare_prefix B pre = true) :
    bareWordStart B (pre ++ escape (some '\\') B .none s) = blen pre := by
  rw [escape_eq_flatMap '\\' B .none (by decide)]
  exact bareWordStart_escaped B h1 h2 h3 pre s (by simpa [C15_bare_prefix] using hpre)

/-! ### `complete_path` reads an inserted replacement back as the same path -/

/-- Bare: the parse step of `complete_path` on `pre ++ escape path` yields `path` again, the same
    start, the bare context.  (Since the repair of D26 the only hypothesis on the prefix is the
    completer's own: `C15_bare_prefix`, which implies `C15_closed`.) -/
theorem C15_reparse_bare (B D : Char → Bool) (h1 : B '"' = true) (h2 : B '\\' = true)
    (h3 : B '\'' = true) (pre path : Text) (hu : C15_bare_prefix B pre = true) :
    parsePath B D (pre ++ escape (some '\\') B .none path)
        (blen (pre ++ escape (some '\\') B .none path))
      = some (blen pre, path, some '\\', B, Quote.none) := by
  unfold parsePath
  rw [splitAtByte_full]
  simp only [C15_bare_opens_no_quote B h1 h2 h3 pre path (C15_bare_prefix_closed B pre hu),
    C15_completer_inverts B h1 h2 h3 pre path hu, splitAtByte_append,
    C15_unescape_escape '\\' B h2 .none (by decide)]

/-- Double quote: same, the start is right after the quote. -/
theorem C15_reparse_double (B D : Char → Bool) (h1 : D '"' = true) (h2 : D '\\' = true)
    (pre path : Text) (hc : C15_closed pre = true) :
    parsePath B D (pre ++ ['"'] ++ escape (some '\\') D .double path)
        (blen (pre ++ ['"'] ++ escape (some '\\') D .double path))
      = some (blen pre + 1, path, some '\\', D, Quote.double) := by
  unfold parsePath
  rw [splitAtByte_full]
  simp only [C15_quote_inverts D h1 h2 pre path hc]
  have hb : blen pre + 1 = blen (pre ++ ['"']) := by simp; decide
  rw [hb, splitAtByte_append]
  simp only [if_true, C15_unescape_escape '\\' D h2 .double (by decide)]

/-- Single quote: same, nothing to unescape. -/
theorem C15_reparse_single (B D : Char → Bool) (pre path : Text) (hs : '\'' ∉ path)
    (hc : C15_closed pre = true) :
    parsePath B D (pre ++ ['\''] ++ path) (blen (pre ++ ['\''] ++ path))
      = some (blen pre + 1, path, none, B, Quote.single) := by
  unfold parsePath
  rw [splitAtByte_full]
  simp only [C15_quote_inverts_single pre path hs hc]
  have hb : blen pre + 1 = blen (pre ++ ['\'']) := by simp; decide
  rw [hb, splitAtByte_append]
  simp

/-! ### completing again from the inserted text offers the entry again -/

/-- Whatever the context: if an entry `d` (a name, so without separator) was offered with
    replacement `r` for the path `path`, and the line typed next is read by the parse step as
    "same start, same context, path = directory part of `path` followed by `d`", then
    `complete_path` offers `d` again, with the same replacement. -/
theorem C15_offered_again (B D : Char → Bool) (fs : Listing) (path : Text) (esc : Option Char)
    (brk : Char → Bool) (q : Quote) (ms : List (Text × Text))
    (h : filenameComplete fs path esc brk q = some ms) (d r : Text) (hm : (d, r) ∈ ms) (hd : '/' ∉ d)
    (line2 : Text) (start : Nat)
    (hp : parsePath B D line2 (blen line2) = some (start, (splitPath path).1 ++ d, esc, brk, q)) :
    ∃ cs, completePath B D fs line2 (blen line2) = .ok (start, cs) ∧ (d, r) ∈ cs :=
  completePath_again B D fs path esc brk q ms h d r hm hd line2 start hp

/-- Bare context, end to end: `pre` is what stands before the word; the first completion parsed
    the word to `path` and offered the file `d` with replacement `r` (= the escaped directory part
    and name; for a directory candidate the trailing separator is taken off first).  After
    inserting `r` in place of the word, completing at the end of `pre ++ r` starts at the same
    place and offers `d` with the same replacement. -/
theorem C15_offered_again_bare (B D : Char → Bool) (h1 : B '"' = true) (h2 : B '\\' = true)
    (h3 : B '\'' = true) (fs : Listing) (pre path : Text) (hu : C15_bare_prefix B pre = true)
    (ms : List (Text × Text)) (h : filenameComplete fs path (some '\\') B .none = some ms)
    (d r : Text) (hm : (d, r) ∈ ms) (hd : '/' ∉ d)
    (hr : r = escape (some '\\') B .none ((splitPath path).1 ++ d)) :
    ∃ cs, completePath B D fs (pre ++ r) (blen (pre ++ r)) = .ok (blen pre, cs) ∧ (d, r) ∈ cs := by
  subst hr
  exact C15_offered_again B D fs path _ B .none ms h d _ hm hd _ _
    (C15_reparse_bare B D h1 h2 h3 pre _ hu)

/-- Double-quote context, end to end (the line is `pre`, the opening quote, the replacement). -/
theorem C15_offered_again_double (B D : Char → Bool) (h1 : D '"' = true) (h2 : D '\\' = true)
    (fs : Listing) (pre path : Text) (hc : C15_closed pre = true)
    (ms : List (Text × Text)) (h : filenameComplete fs path (some '\\') D .double = some ms)
    (d r : Text) (hm : (d, r) ∈ ms) (hd : '/' ∉ d)
    (hr : r = escape (some '\\') D .double ((splitPath path).1 ++ d)) :
    ∃ cs, completePath B D fs (pre ++ ['"'] ++ r) (blen (pre ++ ['"'] ++ r)) = .ok (blen pre + 1, cs)
      ∧ (d, r) ∈ cs := by
  subst hr
  exact C15_offered_again B D fs path _ D .double ms h d _ hm hd _ _
    (C15_reparse_double B D h1 h2 pre _ hc)

/-- Single-quote context, end to end, for names and directory parts without a single quote. -/
theorem C15_offered_again_single (B D : Char → Bool) (fs : Listing) (pre path : Text)
    (hc : C15_closed pre = true)
    (ms : List (Text × Text)) (h : filenameComplete fs path none B .single = some ms)
    (d r : Text) (hm : (d, r) ∈ ms) (hd : '/' ∉ d)
    (hr : r = (splitPath path).1 ++ d) (hq : '\'' ∉ r) :
    ∃ cs, completePath B D fs (pre ++ ['\''] ++ r) (blen (pre ++ ['\''] ++ r)) = .ok (blen pre + 1, cs)
      ∧ (d, r) ∈ cs := by
  subst hr
  exact C15_offered_again B D fs path _ B .single ms h d _ hm hd _ _
    (C15_reparse_single B D pre _ hq hc)

/-- non-vacuity of the end-to-end statement: a directory with `a b`, `a"c` and a sub-directory
    `x`; the user typed `ls a`: the word is parsed to the path `a`, both files are offered -/
example : (parsePath defaultBreak dqSpecial "ls a".toList 4).map (fun r => (r.1, r.2.1, r.2.2.1, r.2.2.2.2))
      = some (3, "a".toList, some '\\', Quote.none) := by decide
example :
    filenameComplete [⟨[], "a b".toList, false⟩, ⟨[], "a\"c".toList, false⟩, ⟨[], "x".toList, true⟩]
      "a".toList (some '\\') defaultBreak .none
    = some [("a b".toList, "a\\ b".toList), ("a\"c".toList, "a\\\"c".toList)] := by decide
/-- … and the directory with its separator, inside double quotes -/
example :
    filenameComplete [⟨[], "a b".toList, false⟩, ⟨[], "x y".toList, true⟩, ⟨"x y".toList, "z".toList, false⟩]
      "x".toList (some '\\') dqSpecial .double
    = some [("x y".toList, "x y/".toList)] := by decide

/-! non-vacuity: typical prefixes satisfy the hypotheses, the awkward ones do or do not as they should -/
example : C15_bare_prefix defaultBreak "ls -l ".toList = true ∧ C15_unquoted '\\' defaultBreak "ls -l ".toList = true
    ∧ C15_closed "ls -l ".toList = true := by decide
example : C15_bare_prefix defaultBreak "x=".toList = true ∧ C15_unquoted '\\' defaultBreak "x=".toList = true := by decide
example : C15_bare_prefix defaultBreak "a\\ b ".toList = true ∧ C15_unquoted '\\' defaultBreak "a\\ b ".toList = true := by
  decide
example : C15_bare_prefix defaultBreak "\"a b\" ".toList = true ∧ C15_unquoted '\\' defaultBreak "\"a b\" ".toList = true := by
  decide
/-- D24 (fixed): an escaped backslash followed by a real blank is an unquoted prefix … -/
example : C15_unquoted '\\' defaultBreak "q\\\\ ".toList = true ∧ C15_bare_prefix defaultBreak "q\\\\ ".toList = true := by
  decide
/-- … and the word after it is found (before the fix this was `some (2, "\\ a")`) -/
example : extractWord "q\\\\ a".toList 5 (some '\\') defaultBreak = some (4, "a".toList) := by decide
/-- an escaped blank is not the end of a prefix; nor is a blank inside an open quote for the completer -/
example : C15_unquoted '\\' defaultBreak "q\\ ".toList = false ∧ C15_bare_prefix defaultBreak "q\\ ".toList = false
    ∧ C15_bare_prefix defaultBreak "'a ".toList = false := by decide
/-- D26: the prefix `'\'` (a single-quoted backslash) is closed for the quote scanner and, since the
    repair, a bare prefix for the completer; it is not an unquoted prefix for the public helper
    `extract_word`, whose reverse scan does not interpret quotes … -/
example : C15_closed "'\\'".toList = true ∧ C15_bare_prefix defaultBreak "'\\'".toList = true
    ∧ C15_bare_prefix defaultBreak "'a\\' ".toList = true
    ∧ C15_unquoted '\\' defaultBreak "'\\'".toList = false := by decide
/-- … the helper and the quote scanner disagree on the line `'\'a` (by design of the helper) … -/
example : findUnclosedQuote "'\\'a".toList = none
    ∧ extractWord "'\\'a".toList 4 (some '\\') defaultBreak = some (1, "\\'a".toList) := by decide
/-- … and the completer (repaired) reads the word `a` at 3; before the repair its parse step gave
    `some (1, "'a", …)` and it looked for names starting with `'a` -/
example : (parsePath defaultBreak dqSpecial "'\\'a".toList 4).map (fun r => (r.1, r.2.1, r.2.2.2.2))
      = some (3, "a".toList, Quote.none) := by decide
example : (parsePath defaultBreak dqSpecial "ls '\\\\\\'\\ a".toList 11).map (fun r => (r.1, r.2.1, r.2.2.2.2))
      = some (8, " a".toList, Quote.none) := by decide
example : defaultBreak '"' = true ∧ defaultBreak '\\' = true ∧ defaultBreak '\'' = true
    ∧ dqSpecial '"' = true ∧ dqSpecial '\\' = true := by decide

/-! ### longest common prefix (byte loop + back-off to a character boundary) -/

/-- The final slice `&candidate[0..n]` never panics: the back-off ends on a character boundary. -/
theorem C15_lcp_total (cs : List Text) : longestCommonPrefix cs ≠ none := by
  match cs with
  | [] => simp [longestCommonPrefix]
  | [c] => simp [longestCommonPrefix]
  | c0 :: c1 :: r =>
    obtain ⟨p, r', hc0, hn, _, _⟩ := lcp_core c0 (c1 :: r) (by simp)
    simp only [longestCommonPrefix, hn]
    split
    · simp
    · rw [hc0, splitAtByte_append]; simp

/-- The reported prefix is a prefix, as a sequence of characters, of every candidate; in
    particular it ends on a character boundary of each of them. -/
theorem C15_lcp_common (cs : List Text) (p : Text) (h : longestCommonPrefix cs = some (some p)) :
    ∀ c ∈ cs, p <+: c := by
  match cs, h with
  | [], h => simp [longestCommonPrefix] at h
  | [c], h =>
    simp [longestCommonPrefix] at h
    subst h; intro c' hc'; simp at hc'; subst hc'; exact List.prefix_refl _
  | c0 :: c1 :: r, h =>
    obtain ⟨p', r', hc0, hn, hcom, _⟩ := lcp_core c0 (c1 :: r) (by simp)
    simp only [longestCommonPrefix, hn] at h
    split at h
    · simp at h
    · rw [hc0, splitAtByte_append] at h
      simp at h
      subst h
      exact hcom

theorem C15_lcp_boundary (cs : List Text) (p : Text) (h : longestCommonPrefix cs = some (some p)) :
    ∀ c ∈ cs, IsBoundary c (blen p) := by
  intro c hc
  obtain ⟨x, hx⟩ := C15_lcp_common cs p h c hc
  exact ⟨p, x, hx.symm, rfl⟩

/-- It is the longest one: every text that is a prefix of all candidates is a prefix of the
    reported text (of the empty text when nothing is reported). -/
theorem C15_lcp_maximal (cs : List Text) (hne : cs ≠ []) (r : Option Text)
    (h : longestCommonPrefix cs = some r) (q : Text) (hq : ∀ c ∈ cs, q <+: c) :
    q <+: r.getD [] := by
  match cs, hne, h with
  | [c], _, h =>
    simp [longestCommonPrefix] at h
    subst h; exact hq c (by simp)
  | c0 :: c1 :: rest, _, h =>
    obtain ⟨p', r', hc0, hn, _, hmax⟩ := lcp_core c0 (c1 :: rest) (by simp)
    have hqp := hmax q hq
    simp only [longestCommonPrefix, hn] at h
    split at h
    · rename_i h0
      have : p' = [] := blen_eq_zero.mp h0
      subst this
      simp at h; subst h
      simpa using hqp
    · rw [hc0, splitAtByte_append] at h
      simp at h
      subst h
      simpa using hqp

/-- non-vacuity / the back-off at work: `é` = C3 A9 and `è` = C3 A8 share their first byte; the
    byte loop stops at 2 inside the character and the prefix is cut back to `f` -/
example : longestCommonPrefix ["fée".toList, "fèe".toList] = some (some "f".toList) := by decide
example : lcpLoop (["fée".toList, "fèe".toList].map bytes) 5 0 = 2 := by decide
example : longestCommonPrefix ["é".toList, "è".toList] = some none := by decide
example : longestCommonPrefix ["".toList] = some (some []) := by decide

/-! ### full agreement of the completer with the declarative reader (D26 repaired) -/

/-- On every text before the cursor - bare, inside an open quote, cut after a backslash, plain or
    not - the completer's scan starts the word exactly where the declarative reader
    (`Spec.Completion.lex`) starts the partial path. -/
theorem C15_word_start_is_readers (l : Text) :
    bareWordStart defaultBreak l = (Spec.Completion.lex defaultBreak l).start := by
  unfold bareWordStart
  rw [bareGo_lex]

/-- … and in the mode the reader is in (bare / after a bare backslash / inside `"` / after a
    backslash inside `"` / inside `'`), which by `C15_scanners_agree` is also the mode of
    `find_unclosed_quote`: one reading of the line for all three. -/
theorem C15_word_mode_is_readers (l : Text) :
    (bareGo defaultBreak l 0 .normal 0).1 = modeOf (Spec.Completion.lex defaultBreak l).mode := by
  rw [bareGo_lex]

/-- the word the completer's scan reports for the text before the cursor: (start, `line[start..pos]`) -/
def C15_completerWord (B : Char → Bool) (l : Text) : Option (Nat × Text) :=
  (splitAtByte l (bareWordStart B l)).map (fun p => (bareWordStart B l, p.2))

/-- On every line that the declarative reader reads as a bare, plain word before the cursor, the
    completer's scan reports that word. -/
theorem C15_completer_word_agrees (l : Text) (w : Nat × Text)
    (h : Spec.Completion.expectedWord defaultBreak l = some w) :
    C15_completerWord defaultBreak l = some w := by
  unfold C15_completerWord
  rw [C15_word_start_is_readers]
  unfold Spec.Completion.expectedWord at h
  simp only at h
  split at h
  · exact h
  · cases h

/-- End to end for the parse step of `complete_path`: on such a line no quote is reported open, the
    start is the reader's, the path is the unescaped word, the context is the bare one. -/
theorem C15_completer_parse_agrees (D : Char → Bool) (l : Text) (w : Nat × Text)
    (h : Spec.Completion.expectedWord defaultBreak l = some w) :
    parsePath defaultBreak D l (blen l)
      = some (w.1, unescape (some '\\') w.2, some '\\', defaultBreak, Quote.none) := by
  have hw := C15_completer_word_agrees l w h
  have hq : findUnclosedQuote l = none := by
    have hm := (C15_scanners_agree defaultBreak l).symm.trans (C15_word_mode_is_readers l)
    unfold Spec.Completion.expectedWord at h
    simp only at h
    split at h
    · rename_i hc
      have hctx := hc.1
      unfold findUnclosedQuote
      simp only [hm]
      revert hctx
      unfold Spec.Completion.Lexed.ctx
      cases (Spec.Completion.lex defaultBreak l).mode <;> simp [modeOf]
    · cases h
  unfold parsePath
  rw [splitAtByte_full]
  simp only [hq]
  unfold C15_completerWord at hw
  cases hs : splitAtByte l (bareWordStart defaultBreak l) with
  | none => simp [hs] at hw
  | some p =>
    simp only [hs, Option.map_some, Option.some.injEq] at hw
    subst hw
    rfl

/-- non-vacuity: the reader does expect a word on the line that used to fail, and on a line with
    escaped blanks after a closed double quote -/
example : Spec.Completion.expectedWord defaultBreak "'\\'a".toList = some (3, "a".toList) := by decide
example : Spec.Completion.expectedWord defaultBreak "\"x y\" a\\ b".toList = some (6, "a\\ b".toList) := by
  decide

/-! ### the public helper `extract_word` keeps its documented reverse scan -/

/-- The same statement about the public helper `extract_word`: on every line that the declarative
    reader reads as a bare, plain word before the cursor, `extract_word` reports that word. -/
def C15_word_agrees_statement : Prop :=
  ∀ (l : Text) (w : Nat × Text), Spec.Completion.expectedWord defaultBreak l = some w →
    extractWord l (blen l) (some '\\') defaultBreak = some w

/-- It does not hold, by design of the helper: its documented contract is a reverse scan over break
    and escape characters that does not interpret quotes (third-party completers call it on
    ordinary text).  Counter-example: the line `'\'a`; the reader and the completer see a closed
    quote followed by the word `a` at 3, the helper takes the closing quote for an escaped break
    character.  The completer no longer uses the helper (D26); the correspondence check judges the
    helper against the quote-blind reader `Spec.Completion.expectedWordHelper`. -/
theorem C15_word_agrees_counterexample : ¬ C15_word_agrees_statement := by
  intro h
  have h1 := h "'\\'a".toList (3, "a".toList) (by decide)
  revert h1
  decide

/-! ### round 17: what a candidate is, and the round trip of the replacement the completer itself
    builds (no hypothesis on the shape of the replacement any more) -/

/-- Soundness of the offer, on the model of `filename_complete`: every candidate `(d, r)` offered
    for `path` comes from an entry of the listing that lives in the addressed directory
    (`dirKey path` = the normalised directory part of `path`) and whose name `d` starts with the
    typed file-name part; and the replacement `r` is the escape, in the context's rules, of the
    WHOLE path: the directory part exactly as typed, then the name, then the separator when the
    entry is a directory.  (An escape of the name alone, leaving the directory part raw, would
    contradict this.)  Every path, listing, escape character, break set, context. -/
theorem C15_candidate_is_escaped_whole_path (fs : Listing) (path : Text) (esc : Option Char)
    (brk : Char → Bool) (q : Quote) (ms : List (Text × Text))
    (h : filenameComplete fs path esc brk q = some ms) (d r : Text) (hm : (d, r) ∈ ms) :
    ∃ e ∈ fs, e.name = d ∧ (splitPath path).2 <+: d ∧ e.dir = dirKey path ∧
      r = escape esc brk q ((splitPath path).1 ++ d ++ (if e.isDir then ['/'] else [])) :=
  filenameComplete_mem fs path esc brk q ms h d r hm

/-- Completeness of the offer: when the addressed directory is the current one or is present in
    the listing as a directory, EVERY entry of it whose name starts with the typed file-name part
    is offered - display = its name, replacement = escaped (directory part ++ name ++ separator
    for a directory).  With the previous theorem: exactly the matches are offered. -/
theorem C15_every_match_offered (fs : Listing) (path : Text) (esc : Option Char)
    (brk : Char → Bool) (q : Quote) (ms : List (Text × Text))
    (h : filenameComplete fs path esc brk q = some ms)
    (hex : (dirKey path).isEmpty = true ∨ ∃ e ∈ fs, e.isDir = true ∧ e.full = dirKey path)
    (e : Entry) (he : e ∈ fs) (hdir : e.dir = dirKey path) (hp : (splitPath path).2 <+: e.name) :
    (e.name, escape esc brk q ((splitPath path).1 ++ e.name ++ (if e.isDir then ['/'] else []))) ∈ ms :=
  filenameComplete_complete fs path esc brk q ms h hex e he hdir hp

/-- non-vacuity: the sub-directory `x y` of the listing is addressed by the typed `x y/z` -/
example : dirKey "x y/z".toList = "x y".toList ∧ (splitPath "x y/z".toList) = ("x y/".toList, "z".toList) := by
  decide

/-- Bare context, read-back of the completer's own replacement.  For EVERY candidate `(d, r)`
    offered for `path` (file or directory, directory part and name with any blanks, quotes,
    backslashes, multi-byte characters), after a bare prefix `pre` the parse step of
    `complete_path` at the end of `pre ++ r` reports the start `|pre|`, the bare context and the
    path `directory part ++ d` (followed by the separator for a directory candidate): the
    inserted text names exactly the file that was offered. -/
theorem C15_replacement_reads_back_bare (B D : Char → Bool) (h1 : B '"' = true) (h2 : B '\\' = true)
    (h3 : B '\'' = true) (fs : Listing) (pre path : Text) (hu : C15_bare_prefix B pre = true)
    (ms : List (Text × Text)) (h : filenameComplete fs path (some '\\') B .none = some ms)
    (d r : Text) (hm : (d, r) ∈ ms) :
    ∃ sep, (sep = [] ∨ sep = ['/']) ∧
      parsePath B D (pre ++ r) (blen (pre ++ r))
        = some (blen pre, (splitPath path).1 ++ d ++ sep, some '\\', B, Quote.none) := by
  obtain ⟨e, _, _, _, _, hr⟩ := filenameComplete_mem fs path _ B .none ms h d r hm
  subst hr
  refine ⟨if e.isDir then ['/'] else [], ?_, C15_reparse_bare B D h1 h2 h3 pre _ hu⟩
  cases e.isDir <;> simp

/-- Double-quote context, same statement (line = `pre`, the opening quote, the replacement). -/
theorem C15_replacement_reads_back_double (B D : Char → Bool) (h1 : D '"' = true) (h2 : D '\\' = true)
    (fs : Listing) (pre path : Text) (hc : C15_closed pre = true)
    (ms : List (Text × Text)) (h : filenameComplete fs path (some '\\') D .double = some ms)
    (d r : Text) (hm : (d, r) ∈ ms) :
    ∃ sep, (sep = [] ∨ sep = ['/']) ∧
      parsePath B D (pre ++ ['"'] ++ r) (blen (pre ++ ['"'] ++ r))
        = some (blen pre + 1, (splitPath path).1 ++ d ++ sep, some '\\', D, Quote.double) := by
  obtain ⟨e, _, _, _, _, hr⟩ := filenameComplete_mem fs path _ D .double ms h d r hm
  subst hr
  refine ⟨if e.isDir then ['/'] else [], ?_, C15_reparse_double B D h1 h2 pre _ hc⟩
  cases e.isDir <;> simp

/-- Single-quote context, for replacements without a single quote (no escape exists there): the
    replacement is the raw path and is read back as such. -/
theorem C15_replacement_reads_back_single (B D : Char → Bool)
    (fs : Listing) (pre path : Text) (hc : C15_closed pre = true)
    (ms : List (Text × Text)) (h : filenameComplete fs path none B .single = some ms)
    (d r : Text) (hm : (d, r) ∈ ms) (hq : '\'' ∉ r) :
    ∃ sep, (sep = [] ∨ sep = ['/']) ∧ r = (splitPath path).1 ++ d ++ sep ∧
      parsePath B D (pre ++ ['\''] ++ r) (blen (pre ++ ['\''] ++ r))
        = some (blen pre + 1, r, none, B, Quote.single) := by
  obtain ⟨e, _, _, _, _, hr⟩ := filenameComplete_mem fs path _ B .single ms h d r hm
  refine ⟨if e.isDir then ['/'] else [], ?_, ?_, C15_reparse_single B D pre r hq hc⟩
  · cases e.isDir <;> simp
  · rw [hr]; simp [escape]

/-- Bare context, end to end, WITHOUT the hypothesis of `C15_offered_again_bare` on the shape of
    the replacement.  For every candidate `(d, r)` the completer offers for `path` (names never
    contain the separator; the separator is not a break character): `r` is `r0` for a file and
    `r0 ++ "/"` for a directory, where `r0` is the escaped (directory part ++ name); and completing
    at the end of `pre ++ r0` starts at the same place and offers `d` again with the same `r`. -/
theorem C15_offered_again_bare_any (B D : Char → Bool) (h1 : B '"' = true) (h2 : B '\\' = true)
    (h3 : B '\'' = true) (hsep : B '/' = false) (fs : Listing) (pre path : Text)
    (hu : C15_bare_prefix B pre = true)
    (ms : List (Text × Text)) (h : filenameComplete fs path (some '\\') B .none = some ms)
    (d r : Text) (hm : (d, r) ∈ ms) (hd : '/' ∉ d) :
    (r = escape (some '\\') B .none ((splitPath path).1 ++ d)
        ∨ r = escape (some '\\') B .none ((splitPath path).1 ++ d) ++ ['/']) ∧
      ∃ cs, completePath B D fs (pre ++ escape (some '\\') B .none ((splitPath path).1 ++ d))
              (blen (pre ++ escape (some '\\') B .none ((splitPath path).1 ++ d))) = .ok (blen pre, cs)
        ∧ (d, r) ∈ cs := by
  refine ⟨?_, C15_offered_again B D fs path _ B .none ms h d r hm hd _ _
    (C15_reparse_bare B D h1 h2 h3 pre _ hu)⟩
  obtain ⟨e, _, _, _, _, hr⟩ := filenameComplete_mem fs path _ B .none ms h d r hm
  subst hr
  cases e.isDir
  · left; simp
  · right; simp only [if_true]; exact escape_append_sep _ B _ hsep _

/-- Double-quote context, end to end, same statement. -/
theorem C15_offered_again_double_any (B D : Char → Bool) (h1 : D '"' = true) (h2 : D '\\' = true)
    (hsep : D '/' = false) (fs : Listing) (pre path : Text) (hc : C15_closed pre = true)
    (ms : List (Text × Text)) (h : filenameComplete fs path (some '\\') D .double = some ms)
    (d r : Text) (hm : (d, r) ∈ ms) (hd : '/' ∉ d) :
    (r = escape (some '\\') D .double ((splitPath path).1 ++ d)
        ∨ r = escape (some '\\') D .double ((splitPath path).1 ++ d) ++ ['/']) ∧
      ∃ cs, completePath B D fs (pre ++ ['"'] ++ escape (some '\\') D .double ((splitPath path).1 ++ d))
              (blen (pre ++ ['"'] ++ escape (some '\\') D .double ((splitPath path).1 ++ d)))
            = .ok (blen pre + 1, cs)
        ∧ (d, r) ∈ cs := by
  refine ⟨?_, C15_offered_again B D fs path _ D .double ms h d r hm hd _ _
    (C15_reparse_double B D h1 h2 pre _ hc)⟩
  obtain ⟨e, _, _, _, _, hr⟩ := filenameComplete_mem fs path _ D .double ms h d r hm
  subst hr
  cases e.isDir
  · left; simp
  · right; simp only [if_true]; exact escape_append_sep _ D _ hsep _

/-- Single-quote context, end to end, same statement (directory part and name without `'`). -/
theorem C15_offered_again_single_any (B D : Char → Bool) (fs : Listing) (pre path : Text)
    (hc : C15_closed pre = true)
    (ms : List (Text × Text)) (h : filenameComplete fs path none B .single = some ms)
    (d r : Text) (hm : (d, r) ∈ ms) (hd : '/' ∉ d) (hq : '\'' ∉ (splitPath path).1 ++ d) :
    (r = (splitPath path).1 ++ d ∨ r = (splitPath path).1 ++ d ++ ['/']) ∧
      ∃ cs, completePath B D fs (pre ++ ['\''] ++ ((splitPath path).1 ++ d))
              (blen (pre ++ ['\''] ++ ((splitPath path).1 ++ d))) = .ok (blen pre + 1, cs)
        ∧ (d, r) ∈ cs := by
  refine ⟨?_, C15_offered_again B D fs path _ B .single ms h d r hm hd _ _
    (C15_reparse_single B D pre _ hq hc)⟩
  obtain ⟨e, _, _, _, _, hr⟩ := filenameComplete_mem fs path _ B .single ms h d r hm
  subst hr
  cases e.isDir
  · left; simp [escape]
  · right; simp [escape]

/-- non-vacuity of the hypotheses of the `_any` theorems on the unix parameter sets, and a
    candidate whose DIRECTORY part needs escaping: typed `x\ y/z` (path `x y/z`) in the directory
    `x y` containing `z w`: the replacement escapes the blank of the directory part too -/
example : defaultBreak '/' = false ∧ dqSpecial '/' = false := by decide
example :
    filenameComplete [⟨[], "x y".toList, true⟩, ⟨"x y".toList, "z w".toList, false⟩]
      "x y/z".toList (some '\\') defaultBreak .none
    = some [("z w".toList, "x\\ y/z\\ w".toList)] := by decide
example : (parsePath defaultBreak dqSpecial "ls x\\ y/z\\ w".toList 12).map (fun r => (r.1, r.2.1, r.2.2.2.2))
      = some (3, "x y/z w".toList, Quote.none) := by decide

/-! ### a directory candidate: completing again from its replacement descends into it -/

/-- For a directory candidate (entry `e` of the addressed directory, a real name: not empty, no
    separator, not `.`, `..`, `~`): `filename_complete` on (directory part as typed ++ name ++
    separator) - the path its replacement reads back to - offers exactly the entries of that
    directory (those whose `dir` is the full path of `e`), each with a replacement that extends the
    typed path.  Every listing, escape character, break set, context. -/
theorem C15_directory_candidate_descends (fs : Listing) (path : Text) (esc : Option Char)
    (brk : Char → Bool) (q : Quote) (ms : List (Text × Text))
    (h : filenameComplete fs path esc brk q = some ms)
    (e : Entry) (he : e ∈ fs) (hdir : e.dir = dirKey path) (hisd : e.isDir = true)
    (hne : e.name ≠ []) (hd : '/' ∉ e.name)
    (hdot : e.name ≠ ['.'] ∧ e.name ≠ ['.', '.'] ∧ e.name ≠ ['~']) :
    filenameComplete fs ((splitPath path).1 ++ e.name ++ ['/']) esc brk q =
      some ((fs.filter (fun e' => e'.dir == e.full)).map (fun e' =>
        (e'.name, escape esc brk q ((splitPath path).1 ++ e.name ++ ['/'] ++ e'.name
            ++ (if e'.isDir then ['/'] else []))))) :=
  filenameComplete_into_dir fs path esc brk q ms h e he hdir hisd hne hd hdot

/-- Bare context, end to end at the level of `complete_path`: after a bare prefix `pre`, with the
    replacement `r` of such a directory candidate inserted (`r` = escaped directory part ++ name ++
    separator, as `C15_candidate_is_escaped_whole_path` says the completer builds it), completing
    at the end of `pre ++ r` starts at `|pre|` and offers exactly the content of that directory,
    sorted by name. -/
theorem C15_directory_replacement_descends_bare (B D : Char → Bool) (h1 : B '"' = true)
    (h2 : B '\\' = true) (h3 : B '\'' = true) (fs : Listing) (pre path : Text)
    (hu : C15_bare_prefix B pre = true) (ms : List (Text × Text))
    (h : filenameComplete fs path (some '\\') B .none = some ms)
    (e : Entry) (he : e ∈ fs) (hdir : e.dir = dirKey path) (hisd : e.isDir = true)
    (hne : e.name ≠ []) (hd : '/' ∉ e.name)
    (hdot : e.name ≠ ['.'] ∧ e.name ≠ ['.', '.'] ∧ e.name ≠ ['~'])
    (r : Text) (hr : r = escape (some '\\') B .none ((splitPath path).1 ++ e.name ++ ['/'])) :
    completePath B D fs (pre ++ r) (blen (pre ++ r)) =
      .ok (blen pre, ((fs.filter (fun e' => e'.dir == e.full)).map (fun e' =>
        (e'.name, escape (some '\\') B .none ((splitPath path).1 ++ e.name ++ ['/'] ++ e'.name
            ++ (if e'.isDir then ['/'] else []))))).mergeSort (fun a b => textLe a.1 b.1)) := by
  subst hr
  unfold completePath
  rw [C15_reparse_bare B D h1 h2 h3 pre _ hu]
  simp only [filenameComplete_into_dir fs path _ B .none ms h e he hdir hisd hne hd hdot]

/-- Double-quote context, same statement (line = `pre`, the opening quote, the replacement). -/
theorem C15_directory_replacement_descends_double (B D : Char → Bool) (h1 : D '"' = true)
    (h2 : D '\\' = true) (fs : Listing) (pre path : Text)
    (hc : C15_closed pre = true) (ms : List (Text × Text))
    (h : filenameComplete fs path (some '\\') D .double = some ms)
    (e : Entry) (he : e ∈ fs) (hdir : e.dir = dirKey path) (hisd : e.isDir = true)
    (hne : e.name ≠ []) (hd : '/' ∉ e.name)
    (hdot : e.name ≠ ['.'] ∧ e.name ≠ ['.', '.'] ∧ e.name ≠ ['~'])
    (r : Text) (hr : r = escape (some '\\') D .double ((splitPath path).1 ++ e.name ++ ['/'])) :
    completePath B D fs (pre ++ ['"'] ++ r) (blen (pre ++ ['"'] ++ r)) =
      .ok (blen pre + 1, ((fs.filter (fun e' => e'.dir == e.full)).map (fun e' =>
        (e'.name, escape (some '\\') D .double ((splitPath path).1 ++ e.name ++ ['/'] ++ e'.name
            ++ (if e'.isDir then ['/'] else []))))).mergeSort (fun a b => textLe a.1 b.1)) := by
  subst hr
  unfold completePath
  rw [C15_reparse_double B D h1 h2 pre _ hc]
  simp only [filenameComplete_into_dir fs path _ D .double ms h e he hdir hisd hne hd hdot]

/-- non-vacuity: typed `x`, the directory `x y` is offered with the replacement `x\ y/`; completing
    at the end of `ls x\ y/` lists its content, the replacement extending the typed text -/
example : (parsePath defaultBreak dqSpecial "ls x\\ y/".toList 8).map (fun r => (r.1, r.2.1, r.2.2.2.2))
      = some (3, "x y/".toList, Quote.none) := by decide
example :
    filenameComplete
      [⟨[], "x y".toList, true⟩, ⟨"x y".toList, "z w".toList, false⟩, ⟨[], "q".toList, false⟩]
      "x y/".toList (some '\\') defaultBreak .none
    = some [("z w".toList, "x\\ y/z\\ w".toList)] := by decide
