/-
  Property C18 — reading from a pipe or file returns the input lines exactly, one per call — and the
  non-terminal clause of C13 (theorems `C18_validator…`).
  Model: Rl/Direct.lean (transliteration of `apply_backspace_direct`, `readline_direct`,
  `validate_brackets`, after the repairs of D12 and D25).  Spec: Rl/Spec/Direct.lean (from the
  property text).  Helper lemmas: Rl/Lemmas/Direct.lean.  Every theorem holds for every lawful
  grapheme segmenter `S` and every validator function `V`.
-/
import Rl.Direct
import Rl.Spec.Direct
import Rl.Lemmas.Direct
open Rl Rl.Direct Rl.Spec.Direct

/-! ## backspaces -/

/-- `apply_backspace_direct` never panics and returns the stack evaluation of the cluster sequence:
    the byte arithmetic on the output string (`truncate(len - size)`) removes exactly the cluster
    that the popped size belongs to. -/
theorem C18_backspace (S : Segmenter) (t : Text) :
    applyBackspace S t = some (stackEval (S.seg t)).flatten :=
  applyBackspace_eq S t

/-- meaning of the stack evaluation: a cluster that is not a backspace is appended … -/
theorem C18_backspace_push (gs : List Text) (g : Text) (hg : g ≠ [bs]) :
    stackEval (gs ++ [g]) = stackEval gs ++ [g] :=
  stackEval_push gs g hg

/-- … and each backspace removes exactly one cluster, the one before it (none if there is none). -/
theorem C18_backspace_pop (gs : List Text) :
    stackEval (gs ++ [[bs]]) = (stackEval gs).dropLast :=
  stackEval_pop gs

/-- a text without backspace clusters is returned unchanged -/
theorem C18_backspace_id (S : Segmenter) (t : Text) (h : ∀ g ∈ S.seg t, g ≠ [bs]) :
    applyBackspace S t = some t := by
  rw [C18_backspace, stackEval_no_bs _ h, S.flatten_eq]

/-- The code before the repair of D12 (sizes stored `as u8`): the statement only holds when every
    cluster is shorter than 256 bytes. -/
theorem C18_backspace_u8_partial (S : Segmenter) (t : Text) (h : ∀ g ∈ S.seg t, blen g < 256) :
    applyBackspaceU8 S t = some (stackEval (S.seg t)).flatten := by
  have := applyGo_eq (· % 256) (S.seg t) [] (fun g hg => Nat.mod_eq_of_lt (h g hg))
  simpa [applyBackspaceU8, applyBackspaceW, stackEval] using this

/-- a segmenter that glues U+0301 to what precedes it (enough for the witnesses below) -/
def C18_markSeg : Segmenter :=
  Segmenter.ofGroup (fun (_ : Unit) c => c == Char.ofNat 769) (fun _ _ => ()) (fun _ => ())

/-- D12, the input of `known suspect`: `ab` + `e` + 130 × U+0301 (a cluster of 261 bytes) + BS + `Z` -/
def C18_d12_input : Text := 'a' :: 'b' :: 'e' :: (List.replicate 130 (Char.ofNat 769) ++ [bs, 'Z'])

set_option maxRecDepth 100000 in
/-- D12: with `u8` sizes the read panics (`String::truncate` off a character boundary) -/
theorem C18_u8_counterexample : applyBackspaceU8 C18_markSeg C18_d12_input = none := by
  decide

set_option maxRecDepth 100000 in
/-- D12, second face: a cluster of exactly 256 bytes is silently not removed -/
theorem C18_u8_silent :
    applyBackspaceU8 C18_markSeg ('a' :: 'é' :: (List.replicate 127 (Char.ofNat 769) ++ [bs])) =
      some ('a' :: 'é' :: List.replicate 127 (Char.ofNat 769)) ∧
    removeBackspaces C18_markSeg ('a' :: 'é' :: (List.replicate 127 (Char.ofNat 769) ++ [bs])) = ['a'] := by
  decide

set_option maxRecDepth 100000 in
/-- the repaired code on the D12 input -/
example : applyBackspace C18_markSeg C18_d12_input = some ['a', 'b', 'Z'] := by decide

/-! ## the lines of a stream -/

/-- `read_line` cuts the stream into the spec's lines: stripping each raw line gives
    (content, terminator) exactly as the declarative `lines` says. -/
theorem C18_read_lines (stream : Text) : (readLines stream).map lineOf = lines stream := by
  rw [readLines_eq, map_lineOf_rawLines]

/-- meaning of `lines`: the contents followed by their terminators are the stream … -/
theorem C18_lines_join (stream : Text) : unlines (lines stream) = stream :=
  unlines_lines stream

/-- … and a final piece without LF is a line of its own, without terminator. -/
theorem C18_lines_unterminated (pre last : Text) (hp : pre = [] ∨ pre.getLast? = some '\n')
    (h1 : last ≠ []) (h2 : '\n' ∉ last) :
    lines (pre ++ last) = lines pre ++ [(last, .none)] :=
  lines_append_unterminated pre last hp h1 h2

/-- no line content contains LF -/
theorem C18_lines_no_lf (stream : Text) : ∀ l ∈ lines stream, '\n' ∉ l.1 :=
  lines_no_lf stream

/-- every line but possibly the last carries a terminator; an unterminated last line is not empty -/
theorem C18_lines_shape (stream : Text) :
    ∃ a tail, lines stream = a ++ tail ∧ (∀ x ∈ a, x.2 ≠ .none) ∧
      (tail = [] ∨ ∃ last, last ≠ [] ∧ tail = [(last, .none)]) :=
  lines_shape stream

/-! ## without a validator -/

/-- Successive reads return the successive lines of the input without their LF / CRLF terminator,
    backspaces applied, then end of file. -/
theorem C18_kth_line (S : Segmenter) (stream : Text) :
    session S none stream =
      (lines stream).map (fun l => .line (removeBackspaces S l.1)) ++ [.eof] := by
  unfold session
  rw [sessionW_none S _ (by rw [readLines_eq]; exact rawLines_ne_nil stream) _ (Nat.lt_succ_self _),
    ← C18_read_lines, List.map_map]
  rfl

/-- the k-th call -/
theorem C18_kth_line_get (S : Segmenter) (stream : Text) (k : Nat) (hk : k < (lines stream).length) :
    (session S none stream)[k]? = some (.line (removeBackspaces S ((lines stream)[k]).1)) := by
  rw [C18_kth_line, List.getElem?_append_left (by simpa using hk)]
  simp [hk]

/-- the call after the last line reports end of file, and nothing follows -/
theorem C18_eof_after (S : Segmenter) (stream : Text) :
    (session S none stream)[(lines stream).length]? = some .eof ∧
    (session S none stream).length = (lines stream).length + 1 := by
  rw [C18_kth_line]
  constructor
  · rw [List.getElem?_append_right (by simp)]; simp
  · simp

/-- A final unterminated line is returned too (as the last line, before end of file). -/
theorem C18_last_line (S : Segmenter) (pre last : Text) (hp : pre = [] ∨ pre.getLast? = some '\n')
    (h1 : last ≠ []) (h2 : '\n' ∉ last) :
    session S none (pre ++ last) =
      (lines pre).map (fun l => .line (removeBackspaces S l.1)) ++ [.line (removeBackspaces S last), .eof] := by
  rw [C18_kth_line, C18_lines_unterminated pre last hp h1 h2]
  simp

/-! ## with a validator (non-terminal clause of C13) -/

/-- A read that returns a line returns a text the validator judged Valid, and that text is the
    accumulation of exactly the lines consumed: every earlier verdict was Incomplete (the line's
    terminator was kept) or Invalid (the text was left unchanged), see `Accum`. -/
theorem C18_validator (S : Segmenter) (V : Text → Verdict) (ls : List Text) (hne : ∀ l ∈ ls, l ≠ [])
    (l : Text) (rest : List Text) (h : readlineDirect S (some V) ls = (.line l, rest)) :
    V l = .valid ∧ ∃ used, ls = used ++ rest ∧ Accum S V [] (used.map lineOf) l := by
  obtain ⟨h1, h2, used, h3⟩ := readlineDirectW_some S V ls hne []
  unfold readlineDirect at h
  rw [h] at h1 h2 h3
  simp only at h1 h2 h3
  have hv : readV S V [] (ls.map lineOf) = (.line l, rest.map lineOf) := by
    rw [Prod.ext_iff]; exact ⟨h1.symm, h2.symm⟩
  obtain ⟨hval, used', hu, hacc⟩ := readV_line S V [] _ l _ hv
  refine ⟨hval, used, h3, ?_⟩
  have : used' = used.map lineOf := by
    have h4 : ls.map lineOf = used.map lineOf ++ rest.map lineOf := by rw [h3]; simp
    rw [h4] at hu
    exact (List.append_cancel_right hu).symm
  rw [← this]; exact hacc

/-- the raw lines of a stream are never empty, so `C18_validator` applies to every call of a session -/
theorem C18_validator_lines_ne (stream : Text) : ∀ l ∈ readLines stream, l ≠ [] := by
  rw [readLines_eq]; exact rawLines_ne_nil stream

/-- A validator error is returned as an error (never as a line): an `err` result comes from an
    error verdict, and a `line` result from a Valid one. -/
theorem C18_validator_error (S : Segmenter) (V : Text → Verdict) (ls : List Text) (hne : ∀ l ∈ ls, l ≠ [])
    (rest : List Text) (h : readlineDirect S (some V) ls = (.err, rest)) : ∃ x, V x = .error := by
  obtain ⟨h1, h2, -⟩ := readlineDirectW_some S V ls hne []
  unfold readlineDirect at h
  rw [h] at h1 h2
  exact readV_err S V [] (ls.map lineOf) (rest.map lineOf) (by rw [Prod.ext_iff]; exact ⟨h1.symm, h2.symm⟩)

/-- The whole session, with or without validator, is the one the declarative spec prescribes
    (this is the oracle the check evaluates on the implementation's output). -/
theorem C18_session_eq_spec (S : Segmenter) (V : Option (Text → Verdict)) (stream : Text) :
    session S V stream = expected S V stream := by
  cases V with
  | none => rw [C18_kth_line]; simp [expected, results]
  | some V =>
    unfold session expected
    rw [sessionW_some S V _ _ (C18_validator_lines_ne stream), C18_read_lines]
    simp [← C18_read_lines]

/-- the shipped validator is the bracket matcher of its documentation -/
theorem C18_validator_brackets (t : Text) : validateBrackets t = brackets [] t := by
  exact bracketsGo_eq [] t

/-! ## no panic, and the session ends -/

/-- no read on the non-terminal path panics -/
theorem C18_no_panic_read (S : Segmenter) (V : Option (Text → Verdict)) (ls : List Text)
    (hne : ∀ l ∈ ls, l ≠ []) : (readlineDirect S V ls).1 ≠ .panic :=
  readlineDirectW_ne_panic S V ls hne []

/-- no call of a session panics, and the session ends with end of file -/
theorem C18_no_panic (S : Segmenter) (V : Option (Text → Verdict)) (stream : Text) :
    DResult.panic ∉ session S V stream ∧ (session S V stream).getLast? = some .eof := by
  rw [C18_session_eq_spec]
  cases V with
  | none => simp [expected, results]
  | some V =>
    constructor
    · exact results_some_no_panic S V _ _
    · exact results_some_last S V _ _ (Nat.lt_succ_self _)

/-! ## the concrete segmenter the driver runs is lawful -/

/-- `uaxSeg` (UAX #29 rules over the class column reported by the harness) is a lawful segmenter:
    its clusters are non-empty and concatenate to the text. -/
theorem C18_segmenter_lawful (cls : Char → String) (t : Text) :
    ((uaxSeg cls).seg t).flatten = t ∧ ∀ g ∈ (uaxSeg cls).seg t, g ≠ [] :=
  ⟨(uaxSeg cls).flatten_eq t, (uaxSeg cls).ne_nil t⟩

/-! ## non-vacuity -/

example : session charSeg none "ab\x08c\r\nd".toList = [.line "ac".toList, .line "d".toList, .eof] := by decide
example : session charSeg (some validateBrackets) "(a\n)\nb".toList =
    [.line "(a\n)".toList, .line "b".toList, .eof] := by decide
example : lines "a\r\n\nb".toList = [("a".toList, .crlf), ([], .lf), ("b".toList, .none)] := by decide
