/-
  Property C18 — reading from a pipe or file returns the input lines exactly, one per call — and the
  non-terminal clause of C13 (theorems `C18_validator…`).
  Model: Rl/Direct.lean (transliteration of `apply_backspace_direct`, `readline_direct`,
  `validate_brackets`, after the repairs of D12 and D25).  Spec: Rl/Spec/Direct.lean (from the
  property text).  Helper lemmas: Rl/Lemmas/Direct.lean.  Every theorem holds for every lawful
  grapheme segmenter `S` and every validator function `V`.
-/
import Rl.Direct
import Rl.Spec.Direct
import Rl.Lemmas.Direct
import Rl.Lemmas.DirectGap
open Rl Rl.Direct Rl.Spec.Direct

/-! ## backspaces -/

/-- `apply_backspace_direct` never panics and returns the stack evaluation of the cluster sequence:
    the byte arithmetic on the output string (`truncate(len - size)`) removes exactly the cluster
    that the popped size belongs to. -/
theorem C18_backspace (S : Segmenter) (t : Text) :
    applyBackspace S t = some (stackEval (S.seg t)).flatten :=
  applyBackspace_eq S t

/-- meaning of the stack evaluation: a cluster that is not a backspace is appended … -/
theorem C18_backspace_push (gs : List Text) (g : Text) (hg : g ≠ [bs]) :
    stackEval (gs ++ [g]) = stackEval gs ++ [g] :=
  stackEval_push gs g hg

/-- … and each backspace removes exactly one cluster, the one before it (none if there is none). -/
theorem C18_backspace_pop (gs : List Text) :
    stackEval (gs ++ [[bs]]) = (stackEval gs).dropLast :=
  stackEval_pop gs

/-- a text without backspace clusters is returned unchanged -/
theorem C18_backspace_id (S : Segmenter) (t : Text) (h : ∀ g ∈ S.seg t, g ≠ [bs]) :
    applyBackspace S t = some t := by
  rw [C18_backspace, stackEval_no_bs _ h, S.flatten_eq]

/-- The code before the repair of D12 (sizes stored `as u8`): the statement only holds when every
    cluster is shorter than 256 bytes. -/
theorem C18_backspace_u8_partial (S : Segmenter) (t : Text) (h : ∀ g ∈ S.seg t, blen g < 256) :
    applyBackspaceU8 S t = some (stackEval (S.seg t)).flatten := by
  have := applyGo_eq (· % 256) (S.seg t) [] (fun g hg => Nat.mod_eq_of_lt (h g hg))
  simpa [applyBackspaceU8, applyBackspaceW, stackEval] using this

/-- a segmenter that glues U+0301 to what precedes it (enough for the witnesses below) -/
def C18_markSeg : Segmenter :=
  Segmenter.ofGroup (fun (_ : Unit) c => c == Char.ofNat 769) (fun _ _ => ()) (fun _ => ())

/-- D12, the input of `known suspect`: `ab` + `e` + 130 × U+0301 (a cluster of 261 bytes) + BS + `Z` -/
def C18_d12_input : Text := 'a' :: 'b' :: 'e' :: (List.replicate 130 (Char.ofNat 769) ++ [bs, 'Z'])

set_option maxRecDepth 100000 in
/-- D12: with `u8` sizes the read panics (`String::truncate` off a character boundary) -/
theorem C18_u8_counterexample : applyBackspaceU8 C18_markSeg C18_d12_input = none := by
  decide

set_option maxRecDepth 100000 in
/-- D12, second face: a cluster of exactly 256 bytes is silently not removed -/
theorem C18_u8_silent :
    applyBackspaceU8 C18_markSeg ('a' :: 'é' :: (List.replicate 127 (Char.ofNat 769) ++ [bs])) =
      some ('a' :: 'é' :: List.replicate 127 (Char.ofNat 769)) ∧
    removeBackspaces C18_markSeg ('a' :: 'é' :: (List.replicate 127 (Char.ofNat 769) ++ [bs])) = ['a'] := by
  decide

set_option maxRecDepth 100000 in
/-- the repaired code on the D12 input -/
example : applyBackspace C18_markSeg C18_d12_input = some ['a', 'b', 'Z'] := by decide

/-! ## the lines of a stream -/

/-- `read_line` cuts the stream into the spec's lines: stripping each raw line gives
    (content, terminator) exactly as the declarative `lines` says. -/
theorem C18_read_lines (stream : Text) : (readLines stream).map lineOf = lines stream := by
  rw [readLines_eq, map_lineOf_rawLines]

/-- meaning of `lines`: the contents followed by their terminators are the stream … -/
theorem C18_lines_join (stream : Text) : unlines (lines stream) = stream :=
  unlines_lines stream

/-- … and a final piece without LF is a line of its own, without terminator. -/
theorem C18_lines_unterminated (pre last : Text) (hp : pre = [] ∨ pre.getLast? = some '\n')
    (h1 : last ≠ []) (h2 : '\n' ∉ last) :
    lines (pre ++ last) = lines pre ++ [(last, .none)] :=
  lines_append_unterminated pre last hp h1 h2

/-- no line content contains LF -/
theorem C18_lines_no_lf (stream : Text) : ∀ l ∈ lines stream, '\n' ∉ l.1 :=
  lines_no_lf stream

/-- every line but possibly the last carries a terminator; an unterminated last line is not empty -/
theorem C18_lines_shape (stream : Text) :
    ∃ a tail, lines stream = a ++ tail ∧ (∀ x ∈ a, x.2 ≠ .none) ∧
      (tail = [] ∨ ∃ last, last ≠ [] ∧ tail = [(last, .none)]) :=
  lines_shape stream

/-! ## without a validator -/

/-- Successive reads return the successive lines of the input without their LF / CRLF terminator,
    backspaces applied, then end of file. -/
theorem C18_kth_line (S : Segmenter) (stream : Text) :
    session S none stream =
      (lines stream).map (fun l => .line (removeBackspaces S l.1)) ++ [.eof] := by
  unfold session
  rw [sessionW_none S _ (by rw [readLines_eq]; exact rawLines_ne_nil stream) _ (Nat.lt_succ_self _),
    ← C18_read_lines, List.map_map]
  rfl

/-- the k-th call -/
theorem C18_kth_line_get (S : Segmenter) (stream : Text) (k : Nat) (hk : k < (lines stream).length) :
    (session S none stream)[k]? = some (.line (removeBackspaces S ((lines stream)[k]).1)) := by
  rw [C18_kth_line, List.getElem?_append_left (by simpa using hk)]
  simp [hk]

/-- the call after the last line reports end of file, and nothing follows -/
theorem C18_eof_after (S : Segmenter) (stream : Text) :
    (session S none stream)[(lines stream).length]? = some .eof ∧
    (session S none stream).length = (lines stream).length + 1 := by
  rw [C18_kth_line]
  constructor
  · rw [List.getElem?_append_right (by simp)]; simp
  · simp

/-- A final unterminated line is returned too (as the last line, before end of file). -/
theorem C18_last_line (S : Segmenter) (pre last : Text) (hp : pre = [] ∨ pre.getLast? = some '\n')
    (h1 : last ≠ []) (h2 : '\n' ∉ last) :
    session S none (pre ++ last) =
      (lines pre).map (fun l => .line (removeBackspaces S l.1)) ++ [.line (removeBackspaces S last), .eof] := by
  rw [C18_kth_line, C18_lines_unterminated pre last hp h1 h2]
  simp

/-! ## with a validator (non-terminal clause of C13) -/

/-- A read that returns a line returns a text the validator judged Valid, and that text is the
    accumulation of exactly the lines consumed: every earlier verdict was Incomplete (the line's
    terminator was kept) or Invalid (the text was left unchanged), see `Accum`. -/
theorem C18_validator (S : Segmenter) (V : Text → Verdict) (ls : List Text) (hne : ∀ l ∈ ls, l ≠ [])
    (l : Text) (rest : List Text) (h : readlineDirect S (some V) ls = (.line l, rest)) :
    V l = .valid ∧ ∃ used, ls = used ++ rest ∧ Accum S V [] (used.map lineOf) l := by
  obtain ⟨h1, h2, used, h3⟩ := readlineDirectW_some S V ls hne []
  unfold readlineDirect at h
  rw [h] at h1 h2 h3
  simp only at h1 h2 h3
  have hv : readV S V [] (ls.map lineOf) = (.line l, rest.map lineOf) := by
    rw [Prod.ext_iff]; exact ⟨h1.symm, h2.symm⟩
  obtain ⟨hval, used', hu, hacc⟩ := readV_line S V [] _ l _ hv
  refine ⟨hval, used, h3, ?_⟩
  have : used' = used.map lineOf := by
    have h4 : ls.map lineOf = used.map lineOf ++ rest.map lineOf := by rw [h3]; simp
    rw [h4] at hu
    exact (List.append_cancel_right hu).symm
  rw [← this]; exact hacc

/-- the raw lines of a stream are never empty, so `C18_validator` applies to every call of a session -/
theorem C18_validator_lines_ne (stream : Text) : ∀ l ∈ readLines stream, l ≠ [] := by
  rw [readLines_eq]; exact rawLines_ne_nil stream

/-- A validator error is returned as an error (never as a line): an `err` result comes from an
    error verdict, and a `line` result from a Valid one. -/
theorem C18_validator_error (S : Segmenter) (V : Text → Verdict) (ls : List Text) (hne : ∀ l ∈ ls, l ≠ [])
    (rest : List Text) (h : readlineDirect S (some V) ls = (.err, rest)) : ∃ x, V x = .error := by
  obtain ⟨h1, h2, -⟩ := readlineDirectW_some S V ls hne []
  unfold readlineDirect at h
  rw [h] at h1 h2
  exact readV_err S V [] (ls.map lineOf) (rest.map lineOf) (by rw [Prod.ext_iff]; exact ⟨h1.symm, h2.symm⟩)

/-- The whole session, with or without validator, is the one the declarative spec prescribes
    (this is the oracle the check evaluates on the implementation's output). -/
theorem C18_session_eq_spec (S : Segmenter) (V : Option (Text → Verdict)) (stream : Text) :
    session S V stream = expected S V stream := by
  cases V with
  | none => rw [C18_kth_line]; simp [expected, results]
  | some V =>
    unfold session expected
    rw [sessionW_some S V _ _ (C18_validator_lines_ne stream), C18_read_lines]
    simp [← C18_read_lines]

/-- the shipped validator is the bracket matcher of its documentation -/
theorem C18_validator_brackets (t : Text) : validateBrackets t = brackets [] t := by
  exact bracketsGo_eq [] t

/-! ## no panic, and the session ends -/

/-- no read on the non-terminal path panics -/
theorem C18_no_panic_read (S : Segmenter) (V : Option (Text → Verdict)) (ls : List Text)
    (hne : ∀ l ∈ ls, l ≠ []) : (readlineDirect S V ls).1 ≠ .panic :=
  readlineDirectW_ne_panic S V ls hne []

/-- no call of a session panics, and the session ends with end of file -/
theorem C18_no_panic (S : Segmenter) (V : Option (Text → Verdict)) (stream : Text) :
    DResult.panic ∉ session S V stream ∧ (session S V stream).getLast? = some .eof := by
  rw [C18_session_eq_spec]
  cases V with
  | none => simp [expected, results]
  | some V =>
    constructor
    · exact results_some_no_panic S V _ _
    · exact results_some_last S V _ _ (Nat.lt_succ_self _)

/-! ## the concrete segmenter the driver runs is lawful -/

/-- `uaxSeg` (UAX #29 rules over the class column reported by the harness) is a lawful segmenter:
    its clusters are non-empty and concatenate to the text. -/
theorem C18_segmenter_lawful (cls : Char → String) (t : Text) :
    ((uaxSeg cls).seg t).flatten = t ∧ ∀ g ∈ (uaxSeg cls).seg t, g ≠ [] :=
  ⟨(uaxSeg cls).flatten_eq t, (uaxSeg cls).ne_nil t⟩

/-! ## non-vacuity -/

example : session charSeg none "ab\x08c\r\nd".toList = [.line "ac".toList, .line "d".toList, .eof] := by decide
example : session charSeg (some validateBrackets) "(a\n)\nb".toList =
    [.line "(a\n)".toList, .line "b".toList, .eof] := by decide
example : lines "a\r\n\nb".toList = [("a".toList, .crlf), ([], .lf), ("b".toList, .none)] := by decide

/-! ## gap filling: arbitrary interleavings of text and backspaces -/

/-- `apply_backspace_direct` is a left fold over the clusters of the input, for every input and every
    lawful segmenter: starting from nothing kept, a cluster that is exactly U+0008 drops the last
    cluster kept (and drops nothing when nothing is kept), every other cluster is appended
    (`bsStep`); the result is the concatenation of what is kept.  This covers every interleaving of
    text and backspaces. -/
theorem C18_backspace_fold (S : Segmenter) (t : Text) :
    applyBackspace S t = some ((S.seg t).foldl bsStep []).flatten := by
  rw [C18_backspace, stackEval_fold]

/-- What a read keeps is made of whole clusters of the input, in their original order, and none of
    them is a backspace: a backspace never cuts a cluster in two, never reorders, never survives. -/
theorem C18_backspace_keeps_clusters (S : Segmenter) (t : Text) :
    ∃ kept : List Text, applyBackspace S t = some kept.flatten ∧ kept.Sublist (S.seg t) ∧ ∀ g ∈ kept, g ≠ [bs] :=
  ⟨stackEval (S.seg t), C18_backspace S t, stackEval_sublist _, stackEval_no_bs_mem _⟩

/-- `k` plain clusters followed by a run of `n` backspaces leave exactly the first `k - n` clusters
    (nothing when `n ≥ k`: the extra backspaces remove nothing and do not panic).
    Hypotheses: the input segments into `gs` followed by `n` backspace clusters, and no cluster of
    `gs` is a backspace. -/
theorem C18_backspace_run (S : Segmenter) (t : Text) (gs : List Text) (n : Nat)
    (h : S.seg t = gs ++ List.replicate n [bs]) (hgs : ∀ g ∈ gs, g ≠ [bs]) :
    applyBackspace S t = some (gs.take (gs.length - n)).flatten := by
  rw [C18_backspace, h, stackEval_bs_run, stackEval_no_bs gs hgs]

/-- A run of backspaces at least as long as everything before it (in clusters, backspaces included)
    erases all of it and nothing more: the read returns what the rest of the line alone would give.
    With `gs = []` this is "backspaces at the start of the line remove nothing". -/
theorem C18_backspace_overrun (S : Segmenter) (t : Text) (gs more : List Text) (n : Nat)
    (h : S.seg t = gs ++ List.replicate n [bs] ++ more) (hn : gs.length ≤ n) :
    applyBackspace S t = some (stackEval more).flatten := by
  rw [C18_backspace, h, stackEval_overrun gs more n (Nat.le_trans (stackEval_length_le gs) hn)]

/-- the same two facts on the loop of `apply_backspace_direct` itself, for an arbitrary cluster
    sequence (no segmenter involved) -/
theorem C18_backspace_loop_run (gs more : List Text) (n : Nat) (hn : gs.length ≤ n) :
    applyGo id (gs ++ List.replicate n [bs] ++ more) [] [] = applyGo id more [] [] := by
  rw [applyGo_id, applyGo_id, stackEval_overrun gs more n (Nat.le_trans (stackEval_length_le gs) hn)]

example : Rl.charSeg.seg "ab\x08\x08\x08c".toList =
    [['a'], ['b']] ++ List.replicate 3 [bs] ++ [['c']] ∧ [['a'], ['b']].length ≤ 3 := by decide
example : applyBackspace Rl.charSeg "ab\x08\x08\x08c".toList = some ['c'] := by decide
example : Rl.charSeg.seg "abc\x08\x08".toList = [['a'], ['b'], ['c']] ++ List.replicate 2 [bs] ∧
    ∀ g ∈ [['a'], ['b'], ['c']], g ≠ [bs] := by decide

/-! ## gap filling: accumulation under a validator, closed form -/

/-- "With a validator, lines are accumulated (terminators kept) until the validator accepts", as an
    equation on the model's read.  If the reader will deliver the raw lines `pre`, then `l`, then
    `rest` (raw = with their terminators, as `read_line` returns them), no backspace occurs in
    `pre` and `l`, the validator says Incomplete on the text up to and including the content of each
    line of `pre` and Valid on the text up to the content of `l`, then the read returns the input
    consumed byte for byte (`pre.flatten`: LF and CRLF terminators kept as they were) followed by
    `l` without its own terminator, and leaves exactly `rest` for the next call. -/
theorem C18_validator_accumulates (S : Segmenter) (V : Text → Verdict) (pre : List Text) (l : Text)
    (rest : List Text) (hne : ∀ x ∈ pre, x ≠ []) (hl : l ≠ []) (hbs : bs ∉ pre.flatten ++ l)
    (hinc : ∀ p x q, pre = p ++ x :: q → V (p.flatten ++ (lineOf x).1) = .incomplete)
    (hval : V (pre.flatten ++ (lineOf l).1) = .valid) :
    readlineDirect S (some V) (pre ++ l :: rest) = (.line (pre.flatten ++ (lineOf l).1), rest) := by
  have := readlineDirectW_accum S V pre l rest [] hne hl (by simpa using hbs)
    (by simpa using hinc) (by simpa using hval)
  simpa [readlineDirect] using this

/-- a raw line is its content followed by its terminator (so `pre.flatten` above is the contents
    joined by the terminators that were in the input) -/
theorem C18_raw_line (l : Text) : (lineOf l).1 ++ (lineOf l).2.text = l := lineOf_text l

example : readlineDirect charSeg (some validateBrackets) ["(a\r\n".toList, "b\n".toList, ")\n".toList, "c".toList] =
    (.line "(a\r\nb\n)".toList, ["c".toList]) := by decide

/-- An input the validator never accepts (and never fails on) is lost: the only thing the
    application sees is end of file, whatever was accumulated is dropped. -/
theorem C18_validator_never_accepts (S : Segmenter) (V : Text → Verdict)
    (hV : ∀ x, V x ≠ .valid ∧ V x ≠ .error) (stream : Text) :
    session S (some V) stream = [.eof] := by
  unfold session
  rcases readlineDirectW_never_valid S V hV (readLines stream) [] with h | ⟨r, _, p, hp⟩
  · simp [sessionW, h]
  · exact absurd rfl (C18_validator_lines_ne stream [] (by rw [hp]; simp))

example : session charSeg (some validateBrackets) "(a\nb\n".toList = [.eof] := by decide

/-- With a validator a backspace at the start of a continuation line is applied to the accumulated
    text, so it removes the line break that was kept (model = spec; recorded as an observation). -/
example : session charSeg (some validateBrackets) "(\n\x08)\n".toList = [.line "()".toList, .eof] := by decide

/-! ## gap filling: end of file is final -/

/-- `n` successive calls of `readline` on the non-terminal path, NOT stopping at end of file
    (`session` stops at the first one): results in order -/
def C18_reads (S : Segmenter) (V : Option (Text → Verdict)) : Nat → List Text → List DResult
  | 0, _ => []
  | n + 1, ls => (readlineDirect S V ls).1 :: C18_reads S V n (readlineDirect S V ls).2

theorem C18_reads_nil (S : Segmenter) (V : Option (Text → Verdict)) (n : Nat) :
    C18_reads S V n [] = List.replicate n .eof := by
  induction n with
  | zero => rfl
  | succ n ih => simp [C18_reads, readlineDirect, readlineDirectW, ih, List.replicate_succ]

/-- An application that keeps calling `readline` after the input is exhausted: the first calls
    return the lines (one each, terminator stripped, backspaces applied), the final unterminated
    line included exactly once, and every later call — however many — reports end of file. -/
theorem C18_eof_forever (S : Segmenter) (stream : Text) (m : Nat) :
    C18_reads S none ((lines stream).length + m) (readLines stream) =
      (lines stream).map (fun l => .line (removeBackspaces S l.1)) ++ List.replicate m .eof := by
  have key : ∀ ls : List Text, (∀ l ∈ ls, l ≠ []) →
      C18_reads S none (ls.length + m) ls =
        ls.map (fun l => .line (removeBackspaces S (lineOf l).1)) ++ List.replicate m .eof := by
    intro ls hne
    induction ls with
    | nil => simpa using C18_reads_nil S none m
    | cons l ls ih =>
      have hl : l ≠ [] := hne l (by simp)
      have e : (l :: ls).length + m = (ls.length + m) + 1 := by simp; omega
      rw [e]
      simp only [C18_reads, readlineDirect, readlineDirectW_none S [] l ls hl, List.nil_append,
        List.map_cons, List.cons_append]
      rw [← ih (fun x hx => hne x (by simp [hx]))]
  have := key (readLines stream) (C18_validator_lines_ne stream)
  rw [← C18_read_lines, List.length_map, List.map_map]
  exact this

/-- With or without a validator: once a read has reported end of file, every later read reports
    end of file too. -/
theorem C18_eof_final (S : Segmenter) (V : Option (Text → Verdict)) (ls : List Text)
    (hne : ∀ l ∈ ls, l ≠ []) (h : (readlineDirect S V ls).1 = .eof) (n : Nat) :
    C18_reads S V n (readlineDirect S V ls).2 = List.replicate n .eof := by
  rw [show (readlineDirect S V ls).2 = [] from readlineDirectW_eof_rest S V ls hne [] h]
  exact C18_reads_nil S V n

example : C18_reads charSeg none 5 (readLines "a\r\nb".toList) =
    [.line ['a'], .line ['b'], .eof, .eof, .eof] := by decide

/-! ## gap filling: backspace CHARACTERS under the UAX #29 segmenter

The theorems above speak of clusters that are exactly U+0008, for every lawful segmenter (a lawful
segmenter may glue U+0008 to a neighbour, and then the code does not treat it as a backspace).
For the segmenter the driver runs (`uaxSeg`, extended grapheme clusters) with U+0008 classified
Control — its Grapheme_Cluster_Break value — every backspace character is a cluster of its own
(GB4/GB5), so the statements become statements about characters. -/

/-- a backspace character is always a cluster by itself, and the text before it and the text after
    it are segmented as if they stood alone -/
theorem C18_uax_backspace_alone (cls : Char → String) (hc : gcbBase (cls bs) = "Control") (a b : Text) :
    (uaxSeg cls).seg (a ++ bs :: b) = (uaxSeg cls).seg a ++ [bs] :: (uaxSeg cls).seg b :=
  uaxSeg_split cls bs hc a b

/-- A text without backspace followed by `n` backspace characters: the read returns the text
    without its last `n` extended grapheme clusters — whole clusters, whatever their byte length —
    and returns the empty text (no panic) when `n` exceeds the number of clusters. -/
theorem C18_uax_backspace_run (cls : Char → String) (hc : gcbBase (cls bs) = "Control") (a : Text)
    (ha : bs ∉ a) (n : Nat) :
    applyBackspace (uaxSeg cls) (a ++ List.replicate n bs) =
      some (((uaxSeg cls).seg a).take (((uaxSeg cls).seg a).length - n)).flatten := by
  cases n with
  | zero =>
    simp only [List.replicate_zero, List.append_nil, Nat.sub_zero, List.take_length]
    rw [C18_backspace_id _ _ (seg_ne_bs _ a ha), (uaxSeg cls).flatten_eq]
  | succ n =>
    have h := uaxSeg_split_run cls bs hc a [] n
    have hnil : (uaxSeg cls).seg [] = [] := rfl
    simp only [List.append_nil, hnil] at h
    exact C18_backspace_run _ _ _ _ h (seg_ne_bs _ a ha)

/-- A run of backspace characters at least as long as the text before it (counted in clusters)
    erases exactly that text: the read returns what the rest of the line alone gives.  With
    `a = []`: backspaces at the start of a line remove nothing. -/
theorem C18_uax_backspace_overrun (cls : Char → String) (hc : gcbBase (cls bs) = "Control") (a b : Text)
    (n : Nat) (hn : ((uaxSeg cls).seg a).length ≤ n + 1) :
    applyBackspace (uaxSeg cls) (a ++ List.replicate (n + 1) bs ++ b) = applyBackspace (uaxSeg cls) b := by
  rw [C18_backspace_overrun _ _ _ _ _ (uaxSeg_split_run cls bs hc a b n) hn, C18_backspace]

-- Non-vacuity of `gcbBase (cls bs) = "Control"`: the driver's `cls` is the `gcb` column of the
-- `charinfo` lines, `Control` for U+0008; `String.splitOn` inside `gcbBase` does not reduce in the
-- kernel, so there is no `example … := by decide` (same form of hypothesis as `C04_uaxSeg_nlAlone`).

/-- Each backspace character removes exactly the cluster kept last before it, for an arbitrary text
    `t` in front (which may itself contain backspaces): if the read of `t` keeps the clusters
    `kept`, the read of `t` followed by one backspace keeps `kept` without its last element. -/
theorem C18_uax_backspace_step (cls : Char → String) (hc : gcbBase (cls bs) = "Control") (t : Text) :
    applyBackspace (uaxSeg cls) t = some (stackEval ((uaxSeg cls).seg t)).flatten ∧
    applyBackspace (uaxSeg cls) (t ++ [bs]) = some (stackEval ((uaxSeg cls).seg t)).dropLast.flatten := by
  refine ⟨C18_backspace _ t, ?_⟩
  have h := uaxSeg_split cls bs hc t []
  have hnil : (uaxSeg cls).seg [] = [] := rfl
  rw [hnil] at h
  rw [C18_backspace, h, C18_backspace_pop]

/-- `C18_validator_accumulates` for the first read of a session over a stream -/
theorem C18_validator_accumulates_session (S : Segmenter) (V : Text → Verdict) (stream : Text)
    (pre : List Text) (l : Text) (rest : List Text) (hs : readLines stream = pre ++ l :: rest)
    (hbs : bs ∉ pre.flatten ++ l)
    (hinc : ∀ p x q, pre = p ++ x :: q → V (p.flatten ++ (lineOf x).1) = .incomplete)
    (hval : V (pre.flatten ++ (lineOf l).1) = .valid) :
    (session S (some V) stream).head? = some (.line (pre.flatten ++ (lineOf l).1)) := by
  have hne := C18_validator_lines_ne stream
  rw [hs] at hne
  have h := C18_validator_accumulates S V pre l rest (fun x hx => hne x (by simp [hx]))
    (hne l (by simp)) hbs hinc hval
  unfold session
  rw [hs]
  unfold readlineDirect at h
  simp [sessionW, h]
