/-
  Property C06 — killed text is never lost: yank restores it, kills accumulate, yank-pop rotates.
  Model: `Rl/KillRing.lean` (transliteration of `src/kill_ring.rs`), wired into the editor model in
  `Rl/Editor.lean` (`lbKill`, `ringYank`, `ringYankPop`, `Cmd.shouldResetKillRing`); oracle
  `Spec.oracleC06` on the implementation's callbacks.  The theorems below are about the ring for ALL
  reachable rings (any sequence of ring operations, any capacity), helper lemmas in
  `Rl/Lemmas/KillRing.lean`.
-/
import Rl.Editor
import Rl.Lemmas.KillRing
import Rl.Lemmas.KillRingSim
import Rl.Lemmas.EditorKillAcc
import Rl.Lemmas.EditorKillFlag
open Rl Rl.KillRing

/-! ### reachable rings -/

/-- **Ring bounds, no panic.** Whatever sequence of ring operations (kill in either direction, yank,
    yank-pop, reset, listener deletions, start/stop killing) is applied to a fresh ring of any
    capacity, no operation reaches one of the model's panics (`slots[index]` out of range) and the
    resulting ring satisfies the invariant: at most `cap` slots; the index addresses a slot when the
    ring is non-empty (and is 0 while it is empty); `lastAction = kill` only with a non-empty ring
    when `cap > 0`. -/
theorem C06_ring_bounds (size : Nat) (ops : List KOp) :
    ∃ k, runOps (KillRing.new size) ops = .ok k ∧
      k.cap = size ∧ k.slots.length ≤ size ∧
      (k.slots ≠ [] → k.index < k.slots.length) ∧ (k.slots = [] → k.index = 0) ∧
      (k.lastAction = .kill → 0 < size → k.slots ≠ []) := by
  obtain ⟨k, he, hw, hc⟩ := runOps_wf (wf_new size) ops
  have hc : k.cap = size := by simpa [KillRing.new] using hc
  exact ⟨k, he, hc, hc ▸ hw.len_le, hw.idx_lt, hw.idx_zero, hc ▸ hw.kill_ne⟩

/-- Under the invariant `kill`, `yank`, `yankPop` never return the model's panic (one-step form, for
    any ring satisfying the invariant, reachable or not). -/
theorem C06_no_panic (k : KillRing) (h : WF k) (text : Text) (dir : KMode) :
    (∃ k', k.kill text dir = .ok k' ∧ WF k') ∧ (∃ k' r, k.yank = .ok (k', r) ∧ WF k') ∧
    (∃ k' r, k.yankPop = .ok (k', r) ∧ WF k') := by
  obtain ⟨k1, h1, w1, _⟩ := wf_kill h text dir
  obtain ⟨k2, r2, h2, w2, _⟩ := wf_yank h
  obtain ⟨k3, r3, h3, w3, _⟩ := wf_yankPop h
  exact ⟨⟨k1, h1, w1⟩, ⟨k2, r2, h2, w2⟩, ⟨k3, r3, h3, w3⟩⟩

/-! ### kill, then yank -/

/-- **Kill then yank.** On a ring satisfying the invariant (capacity > 0) whose last action is not a
    kill, a kill of `text` (either direction) followed by yank returns exactly `text`, and records
    `blen text` as the size a following yank-pop has to replace. -/
theorem C06_kill_yank (k : KillRing) (h : WF k) (hk : k.lastAction ≠ .kill) (hc : 0 < k.cap)
    (text : Text) (dir : KMode) :
    ∃ k1 k2, k.kill text dir = .ok k1 ∧ k1.yank = .ok (k2, some text) ∧
      k2.lastAction = .yank (blen text) ∧ k2.slots = k1.slots ∧ k2.index = k1.index := by
  obtain ⟨k1, he, _, _, hs, _, _, _, _, hidx⟩ := kill_fresh h hk hc text dir
  obtain ⟨k1', he', hw, _, _⟩ := wf_kill h text dir
  have : k1' = k1 := by rw [he] at he'; cases he'; rfl
  subst this
  rcases yank_ok hw with ⟨h0, _⟩ | ⟨s, hs', hy⟩
  · rw [h0] at hidx; simp at hidx
  · rw [kill_fresh_yank hk hc he, hs] at hs'; cases hs'
    exact ⟨k1', _, he, hy, rfl, rfl, rfl⟩

/-- **Copy, then kill, then yank** (D40, repaired).  `Cmd::ViYankTo` stores the copied text with `kill`
    and then resets the last action; whatever the ring was, a kill command that follows therefore
    opens its own slot and the yank after it returns exactly the killed text, not copied + killed. -/
theorem C06_copy_kill_yank (k : KillRing) (h : WF k) (hc : 0 < k.cap) (copied text : Text) (dir : KMode) :
    ∃ k0 k1 k2, k.kill copied .append = .ok k0 ∧ k0.reset.kill text dir = .ok k1 ∧
      k1.yank = .ok (k2, some text) := by
  obtain ⟨k0, he0, hw0, hc0, _⟩ := wf_kill h copied .append
  have hw : WF k0.reset := wf_reset hw0
  have hla : k0.reset.lastAction ≠ .kill := by simp [reset]
  have hcap : 0 < k0.reset.cap := by simpa [reset, hc0] using hc
  obtain ⟨k1, k2, h1, h2, _⟩ := C06_kill_yank k0.reset hw hla hcap text dir
  exact ⟨k0, k1, k2, he0, h1, h2⟩

/-- The same for every reachable ring: after any operations, a command that resets the last action
    (`Cmd.shouldResetKillRing`), a kill and a yank give back the killed text. -/
theorem C06_kill_yank_reachable (size : Nat) (hs : 0 < size) (ops : List KOp) (text : Text) (dir : KMode) :
    ∃ k k1 k2, runOps (KillRing.new size) ops = .ok k ∧ k.reset.kill text dir = .ok k1 ∧
      k1.yank = .ok (k2, some text) := by
  obtain ⟨k, he, hw, hc⟩ := runOps_wf (wf_new size) ops
  have hc : k.cap = size := by simpa [KillRing.new] using hc
  obtain ⟨k1, k2, h1, h2, _⟩ := C06_kill_yank k.reset (wf_reset hw) (by simp [reset]) (by simpa [reset, hc] using hs) text dir
  exact ⟨k, k1, k2, he, h1, h2⟩

/-! ### accumulation -/

/-- **Accumulation.** Start from a ring satisfying the invariant (capacity > 0) whose last action is
    not a kill, with the line `T0 = L0 ++ R0` (cursor between the two). After any non-empty run of
    directional kills — forward and backward mixed in any order — with nothing in between, let the
    line be `T1 = L1 ++ R1` with the cursor `p = blen L1`. Then ONE yank returns a text `slot` with
    `T0 = T1[..p] ++ slot ++ T1[p..]`: everything removed, in its original left-to-right order. -/
theorem C06_accumulate (k0 : KillRing) (hw : WF k0) (hk : k0.lastAction ≠ .kill) (hc : 0 < k0.cap)
    (L0 R0 : Text) (ds : List DKill) (hne : ds ≠ []) (L1 R1 : Text) (k1 : KillRing)
    (hrun : dkRun (L0, R0, k0) ds = some (L1, R1, k1)) :
    ∃ slot k2 a b, k1.yank = .ok (k2, some slot) ∧
      splitAtByte (L1 ++ R1) (blen L1) = some (a, b) ∧ L0 ++ R0 = a ++ slot ++ b := by
  cases ds with
  | nil => exact absurd rfl hne
  | cons d ds =>
    simp only [dkRun] at hrun
    split at hrun
    · rename_i s1 h1
      have hinv := accInv_run (accInv_first hw hk hc h1) hrun
      obtain ⟨hw1, _, _, slot, hs, hT⟩ := hinv
      simp only at hw1 hs hT
      rename_i hk1 hc1
      rcases yank_ok hw1 with ⟨h0, _⟩ | ⟨s, hs', hy⟩
      · rw [h0] at hs; simp at hs
      · rw [hw1.kill_yidx hk1 hc1, hs] at hs'; cases hs'
        exact ⟨slot, _, L1, R1, hy, splitAtByte_append L1 R1, hT⟩
    · cases hrun

/-- The ring listener is told the direction by the line buffer: with `killing = true`, a `Forward`
    deletion appends and a `Backward` deletion prepends. -/
theorem C06_onDelete_killing (k : KillRing) (hk : k.killing = true) (text : Text) :
    k.onDelete text .forward = k.kill text .append ∧ k.onDelete text .backward = k.kill text .prepend := by
  simp [onDelete, hk]

/-! ### single-character deletions -/

/-- **Character deletions stay out of the ring.** A deletion reported while `killing = false` (what
    `Kill(ForwardChar n)` / `Kill(BackwardChar n)`, Delete, Backspace produce: `LineBuffer::kill`
    sends no `start_killing` for them) leaves the ring unchanged — slots, index and last action; and
    these two commands are among those that reset the last action, so a kill that follows opens a
    fresh slot holding exactly its own text instead of extending the previous one. -/
theorem C06_char_delete (k : KillRing) (hf : k.killing = false) (text : Text) (dir : Direction) (n : Nat) :
    k.onDelete text dir = .ok k ∧
    Cmd.shouldResetKillRing (.kill (.forwardChar n)) = true ∧
    Cmd.shouldResetKillRing (.kill (.backwardChar n)) = true ∧
    (WF k → 0 < k.cap → ∀ (t : Text) (d : KMode), ∃ k', k.reset.kill t d = .ok k' ∧
        k'.slots[k'.index]? = some t ∧
        (k'.slots = k.slots ++ [t] ∨ k'.slots = k.slots.set k'.index t)) := by
  refine ⟨by simp [onDelete, hf], rfl, rfl, ?_⟩
  intro hw hc t d
  obtain ⟨k', he, _, hi, hs, _, _, hsl, _, _⟩ := kill_fresh (wf_reset hw) (by simp [reset]) (by simpa [reset] using hc) t d
  refine ⟨k', he, hs, ?_⟩
  rw [hi]; simpa [reset] using hsl

/-- On the editor's fan-out (`lbKill`, the `Proxy` of `edit_kill`): the notifications produced by
    `LineBuffer::kill` for the two character movements contain no `start_killing`, so a ring that is
    not killing comes out of the whole command unchanged — nothing enters or extends a slot. -/
theorem C06_char_kill_ring_unchanged (S : Segmenter) (U : UData) (n : Nat) (lb lb' : LB) (r : Bool) (ns : List Notif)
    (h : LB.kill S U (.forwardChar n) lb = .ok (r, lb', ns) ∨ LB.kill S U (.backwardChar n) lb = .ok (r, lb', ns))
    (k : KillRing) (hf : k.killing = false) : lbKill.go ns k = .ok k := by
  have hd : ∀ x ∈ ns, ∃ i s d, x = .del i s d := by
    rcases h with h | h
    · exact LB.kill_forwardChar_notifs S U n lb lb' r ns h
    · exact LB.kill_backwardChar_notifs S U n lb lb' r ns h
  clear h
  induction ns with
  | nil => rfl
  | cons x ns ih =>
    obtain ⟨i, s, d, rfl⟩ := hd _ (List.mem_cons_self ..)
    have : ringNotif k (.del i s d) = .ok k := by simp [ringNotif, onDelete, hf]
    simp only [lbKill.go, this]
    exact ih (fun y hy => hd y (List.mem_cons_of_mem _ hy))

/-! ### yank-pop -/

/-- **Yank-pop.** Directly after a yank that returned `s0` (on a ring satisfying the invariant):
    the first yank-pop asks to replace exactly `blen s0` bytes — the size just yanked — by the slot
    one position back (cyclically); `j` yank-pops in a row answer `popSpec`: each replaces the byte
    length of the text inserted just before by the slot one further back, cyclically through the
    stored slots and nothing else; the slots themselves are unchanged, the yank position has moved
    back by `j` modulo the number of slots (so `slots.length` pops are a full cycle). -/
theorem C06_yank_pop (k : KillRing) (h : WF k) (k1 : KillRing) (s0 : Text)
    (hy : k.yank = .ok (k1, some s0)) (j : Nat) :
    ∃ k2, popN j k1 = .ok (k2, popSpec k.slots k.yankIndex (blen s0) j) ∧
      k2.slots = k.slots ∧ k2.yankIndex = cycN k.slots.length k.yankIndex j ∧
      (k2.yankIndex + j) % k.slots.length = k.yankIndex ∧
      (∀ r ∈ popSpec k.slots k.yankIndex (blen s0) j, ∃ sz t, r = some (sz, t) ∧ t ∈ k.slots) := by
  rcases yank_ok h with ⟨_, he⟩ | ⟨s, hs, he⟩
  · rw [he] at hy; cases hy
  · rw [he] at hy; cases hy
    have hne : k.slots ≠ [] := by intro h0; rw [h0] at hs; simp at hs
    have hw1 : WF { k with lastAction := .yank (blen s0) } :=
      ⟨h.len_le, h.idx_lt, h.idx_zero, by simp, h.yidx_lt, by simp⟩
    obtain ⟨k2, hp, hsl, hidx, _, _, _⟩ := popN_spec j _ hw1 (blen s0) rfl hne
    have hl := h.yidx_lt hne
    refine ⟨k2, hp, hsl, hidx, ?_, ?_⟩
    · simp only at hidx
      rw [hidx]; exact cycN_add_mod hl j
    · generalize blen s0 = size
      have hi := hl
      generalize k.yankIndex = i at hi
      clear hp hidx hs he hw1 hl
      induction j generalizing i size with
      | zero => intro r hr; simp [popSpec] at hr
      | succ j ih =>
        intro r hr
        simp only [popSpec, List.mem_cons] at hr
        have hc := cyc_lt hi
        rcases hr with rfl | hr
        · refine ⟨size, _, rfl, ?_⟩
          rw [List.getD_eq_getElem?_getD, List.getElem?_eq_getElem hc]
          simp
        · exact ih _ _ hc r hr

/-- `slots.length` yank-pops come back to the slot that was yanked. -/
theorem C06_yank_pop_full_cycle (len i : Nat) (h : i < len) : cycN len i len = i := by
  have := cycN_add_mod h len
  have hl := cycN_lt h len
  rw [Nat.add_mod_right, Nat.mod_eq_of_lt hl] at this
  exact this

/-- Yank-pop is inert unless the last action was a yank. -/
theorem C06_yank_pop_only_after_yank (k : KillRing) (h : ∀ sz, k.lastAction ≠ .yank sz) :
    k.yankPop = .ok (k, none) := by
  unfold yankPop
  split
  · rename_i sz hy; exact absurd hy (h sz)
  · rfl

/-! ### D33 (repaired) as a theorem about the model -/

def tA : Text := ['A']
def tB : Text := ['B']
def tC : Text := ['C']
def tD : Text := ['D']

/-- kill A, (other), kill B, (other), kill C, yank, yank-pop, kill D, yank, yank-pop: what the last
    yank-pop inserts -/
def d33 (cap : Nat) : Option Text :=
  match (KillRing.new cap).kill tA .append with
  | .error _ => none
  | .ok k =>
  match k.reset.kill tB .append with
  | .error _ => none
  | .ok k =>
  match k.reset.kill tC .append with
  | .error _ => none
  | .ok k =>
  match k.yank with
  | .error _ => none
  | .ok (k, _) =>
  match k.yankPop with
  | .error _ => none
  | .ok (k, _) =>
  match k.kill tD .append with
  | .error _ => none
  | .ok k =>
  match k.yank with
  | .error _ => none
  | .ok (k, _) =>
  match k.yankPop with
  | .error _ => none
  | .ok (_, r) => r.map (·.2)

/-- **D33 (repaired).** The previous kill before D is C and the yank-pop shows it (before the repair it
    showed B: the kill after the yank-pop was stored at the rotated position and replaced C). -/
theorem C06_D33_repaired : d33 60 = some tC := by decide

/-! ### the full yank-pop clause: the model answers like the reference ring of the property text
    (`SRing`, `Rl/Lemmas/KillRingSim.lean`) -/

/-- Full statement of "yank-pop cycles through the MOST RECENT kills": the model answers every yank
    and yank-pop like the reference ring (`SRing`: the kills most recent first, at most the ring size;
    a new kill is always the most recent one and ends the rotation of yank-pop). -/
def C06_yank_pop_most_recent_statement : Prop :=
  ∀ (size : Nat) (ops : List KOp), ops.all (fun op => !op.isListener) = true →
    modelObs (KillRing.new size) ops = SRing.obs { kills := [], rot := 0, last := .other, cap := size } ops

/-- **Yank-pop cycles through the MOST RECENT kills and nothing else** (D33, repaired): for every ring
    size and every sequence of commands, each yank and yank-pop of the model returns exactly what the
    reference ring returns.  Proved by a simulation (`Sim`, `Rl/Lemmas/KillRingSim.lean`): the slots
    of the circular buffer read backwards from `index` are the reference ring's kills in order of
    recency, also after the ring has wrapped, and `yankIndex` is the reference ring's rotation. -/
theorem C06_yank_pop_most_recent : C06_yank_pop_most_recent_statement := by
  intro size ops hall
  exact sim_obs ops hall _ _ (Sim.new size)

/-- the D33 sequence (kill A, B, C, yank, yank-pop, kill D, yank, yank-pop) on the model: C, B, D, C -/
example : modelObs (KillRing.new 60)
    [.kill tA .append, .reset, .kill tB .append, .reset, .kill tC .append, .yank, .yankPop,
     .kill tD .append, .yank, .yankPop] = [some tC, some tB, some tD, some tC] := by decide

/-! ### a span with the cursor inside (D16, repaired) -/

/-- **A whole-line / whole-buffer kill inside a run keeps the left-to-right order** (D16, repaired).
    `LineBuffer::kill` reports such a span as `delete_around(before, after)`; on a ring whose kill
    sequence has accumulated `s`, the slot afterwards is `before ++ s ++ after`: the text that stood
    on the left of the cursor goes before, the text on the right behind what was killed so far
    (before the repair the whole span was appended: `s ++ before ++ after`). -/
theorem C06_around_keeps_order (k : KillRing) (h : WF k) (hc : 0 < k.cap) (hkill : k.killing = true)
    (hla : k.lastAction = .kill) (before after : Text) (hb : before ≠ []) (ha : after ≠ []) :
    ∃ s k', k.slots[k.index]? = some s ∧
      k.onDelete (before ++ after) (.around (blen before)) = .ok k' ∧
      k'.slots[k'.index]? = some (before ++ s ++ after) := by
  obtain ⟨s, hs, hk1⟩ := kill_cont h hla hc before .prepend
  have hne := h.kill_ne hla hc
  have hl := h.idx_lt hne
  let k1 : KillRing := { k with slots := k.slots.set k.index (mergeSlot .prepend s before) }
  have hw1 : WF k1 := by
    obtain ⟨k1', he, hw, _⟩ := wf_kill h before .prepend
    rw [hk1] at he; cases he; exact hw
  obtain ⟨s1, hs1, hk2⟩ := kill_cont (k := k1) hw1 hla hc after .append
  have hs1' : s1 = mergeSlot .prepend s before := by
    have : k1.slots[k1.index]? = some (mergeSlot .prepend s before) := by
      show (k.slots.set k.index _)[k.index]? = _
      simp [hl]
    rw [this] at hs1; exact (Option.some.inj hs1).symm
  refine ⟨s, { k1 with slots := k1.slots.set k1.index (mergeSlot .append s1 after) }, hs, ?_, ?_⟩
  · unfold onDelete
    have hb' : before.isEmpty = false := by cases before <;> simp_all
    have ha' : after.isEmpty = false := by cases after <;> simp_all
    have hnk : (!k.killing) = false := by rw [hkill]; rfl
    simp only [hnk, Bool.false_eq_true, if_false, _root_.cutBytes_append, hb', ha', hk1]
    exact hk2
  · show ((k.slots.set k.index _).set k.index _)[k.index]? = _
    simp [hl, hs1', mergeSlot]

/-! ### yank with a numeric argument (D15, repaired) -/

/-- **Counted yank, then yank-pop.** `KillRing::yank_n n` (= `yank` followed by `yankCount n`) answers the
    most recent kill and records the byte length of the `n` copies the editor inserts, and the yank-pop
    that directly follows asks to replace exactly that many bytes by the previous slot. -/
theorem C06_yank_count_pop (k : KillRing) (h : WF k) (hne : k.slots ≠ []) (n : Nat) :
    ∃ k1 text s, k.yank = .ok (k1, some text) ∧
      (k1.yankCount n).lastAction = .yank (blen (List.replicate n text).flatten) ∧
      (k1.yankCount n).yankPop =
        .ok ({ (k1.yankCount n) with yankIndex := prevIdx (k1.yankCount n), lastAction := .yank (blen s) },
             some (blen (List.replicate n text).flatten, s)) := by
  rcases yank_ok h with ⟨h0, _⟩ | ⟨text, hs, hy⟩
  · exact absurd h0 hne
  · obtain ⟨k1', r, hy', hw1, hc1, hs1⟩ := wf_yank h
    have hk1 : k1' = { k with lastAction := .yank (blen text) } := by
      rw [hy] at hy'; cases hy'; rfl
    subst hk1
    have hla : (KillRing.yankCount { k with lastAction := .yank (blen text) } n).lastAction
        = .yank (blen (List.replicate n text).flatten) := by
      simp [KillRing.yankCount, blen_replicate_flatten]
    have hwf : WF (KillRing.yankCount { k with lastAction := .yank (blen text) } n) := by
      have : KillRing.yankCount { k with lastAction := .yank (blen text) } n
          = { k with lastAction := .yank (blen text * n) } := by simp [KillRing.yankCount]
      rw [this]
      obtain ⟨a, b, c, d, e, f⟩ := hw1
      exact ⟨a, b, c, (fun hh => by cases hh), e, (fun hh => by cases hh)⟩
    have hne' : (KillRing.yankCount { k with lastAction := .yank (blen text) } n).slots ≠ [] := by
      simpa [KillRing.yankCount] using hne
    obtain ⟨s, _, hp⟩ := yankPop_ok hwf _ hla hne'
    exact ⟨_, text, s, hy, hla, hp⟩

/-! ### non-vacuity -/

/-- the hypotheses of `C06_accumulate` are satisfiable, with a mixed run -/
example : dkRun (['a', 'b'], ['c', 'd', 'e'], (KillRing.new 60).reset)
    [.fwd ['c'], .bwd ['b'], .fwd ['d'], .bwd ['a']] =
    some ([], ['e'], { slots := [['a', 'b', 'c', 'd']], index := 0, lastAction := .kill, killing := false, cap := 60 }) := by
  decide

example : ((KillRing.new 2).kill tA .append).toOption = some { slots := [tA], index := 0, lastAction := .kill, killing := false, cap := 2 } := by
  decide

/-- three pops on a two-slot ring alternate between the two slots -/
example : popSpec [tA, tB] 1 1 3 = [some (1, tA), some (1, tB), some (1, tA)] := by decide

/-- the invariant is not trivially true: a ring whose index is out of range is excluded and does panic -/
example : ({ slots := [tA], index := 0, yankIndex := 3, lastAction := .other, killing := false, cap := 5 } : KillRing).yank.toOption = none := by
  decide

/-! ### the editor level: `execute` and the main loop's reset decision (`cmdStep` = `lib.rs:732-734` + `command::execute`,
    `Rl/Lemmas/EditorKillAcc.lean`), for every editor state -/

/-- **Kills accumulate through the editor, for every run of kill commands.**  Take ANY editor state whose
    ring is within its invariant (capacity > 0) and ANY list `ms` of kill movements other than the two
    character movements (C-k, C-u, C-w, M-d, vi `d`+motion, whole line, … with any counts), executed one
    after the other by the main-loop step (reset decision, then `execute (Kill m)`) with nothing in
    between.  If the run returns in `s'` then (1) the line is what the successive `LineBuffer::kill`s
    leave and `ns` are all the notifications they sent, in order; (2) the text the ring's kill sequence
    holds (`accOf`) is the fold of the reported deletions over what it held before: each forward deletion
    goes behind, each backward deletion before, each `delete_around` (whole line / buffer with the cursor
    inside) around the accumulated text — whatever the mix; (3) no kill command in the run reset the
    sequence; and (4) if anything was killed, ONE `yank` on the resulting ring returns exactly that text
    and records its byte length for a following yank-pop. -/
theorem C06_editor_kill_run_accumulates (S : Segmenter) (U : UData) (cfg : EdCfg) (ms : List Movement)
    (hms : ∀ m ∈ ms, (Cmd.kill m).shouldResetKillRing = false)
    (s s' : Ed) (hw : WF s.ring) (hc : 0 < s.ring.cap)
    (hrun : cmdSteps S U cfg (ms.map Cmd.kill) s = .ok ((), s')) :
    ∃ ns, killsRun S U ms s.line = some (s'.line, ns) ∧
      accOf s'.ring = (ns.foldl accNotif (s.ring.killing, accOf s.ring)).2 ∧
      s'.ring.killing = (ns.foldl accNotif (s.ring.killing, accOf s.ring)).1 ∧
      WF s'.ring ∧
      (s'.ring.lastAction = .kill → ∃ k2, s'.ring.yank = .ok (k2, some (accOf s'.ring)) ∧
        k2.lastAction = .yank (blen (accOf s'.ring))) := by
  obtain ⟨ns, h1, hw', hc', ha⟩ := wp_ok (wp_cmdSteps_kills S U cfg ms s hms hw hc) hrun
  refine ⟨ns, h1, ?_, ?_, hw', fun hk => ?_⟩
  · rw [← ha]
  · rw [← ha]
  · obtain ⟨k2, hy, hl, _⟩ := yank_acc hw' (by omega) hk
    exact ⟨k2, hy, hl⟩

/-- **Kill, then yank, through `execute`.**  From any state whose ring is within its invariant (capacity > 0) and
    whose last action is not a kill (the situation after any command that resets), a kill command that
    returns and whose line-buffer operation reported the deletions `ns` leaves a ring of which one yank
    returns exactly the fold of those deletions (from the empty text) — provided something was killed. -/
theorem C06_editor_kill_then_yank (S : Segmenter) (U : UData) (cfg : EdCfg) (m : Movement)
    (s s' : Ed) (st : Status) (hw : WF s.ring) (hc : 0 < s.ring.cap) (hla : s.ring.lastAction ≠ .kill)
    (hrun : execute S U cfg (.kill m) s = .ok (st, s')) :
    ∃ r ns, LB.kill S U m s.line = .ok (r, s'.line, ns) ∧
      accOf s'.ring = (ns.foldl accNotif (s.ring.killing, [])).2 ∧
      (s'.ring.lastAction = .kill → ∃ k2, s'.ring.yank = .ok (k2, some (accOf s'.ring))) := by
  have h := wp_execute_kill' S U cfg m s
    (fun _ s' => ∃ r ns, LB.kill S U m s.line = .ok (r, s'.line, ns) ∧ lbKill.go ns s.ring = .ok s'.ring)
    (fun _ _ => True) trivial
    (fun r l ns k s' ho hgo hl hr => ⟨⟨r, ns, by rw [hl]; exact ho, by rw [hr]; exact hgo⟩, trivial⟩)
  obtain ⟨r, ns, ho, hgo⟩ := wp_ok h hrun
  obtain ⟨k', hgo', hw', hc', ha⟩ := lbKill_go_acc ns hw hc
  rw [hgo] at hgo'; cases hgo'
  have h0 : accOf s.ring = [] := by simp [accOf, hla]
  rw [h0] at ha
  refine ⟨r, ns, ho, by rw [← ha], fun hk => ?_⟩
  obtain ⟨k2, hy, _⟩ := yank_acc hw' (by omega) hk
  exact ⟨k2, hy⟩

/-- **Character deletions stay out of the ring — through `execute`, for every state.**  `Kill(ForwardChar n)`
    (C-d, Delete, vi `x`) and `Kill(BackwardChar n)` (Backspace, C-h, vi `X`) executed in any state whose
    ring is not in the middle of a kill notification (`killing = false`: true of every state between two
    commands) leave the ring EXACTLY as it was — slots, indices, last action — whether the command
    returns or exits. -/
theorem C06_editor_char_delete (S : Segmenter) (U : UData) (cfg : EdCfg) (n : Nat) (s : Ed)
    (hf : s.ring.killing = false) :
    wp (execute S U cfg (.kill (.forwardChar n))) (fun _ s' => s'.ring = s.ring) (fun _ s' => s'.ring = s.ring) s ∧
    wp (execute S U cfg (.kill (.backwardChar n))) (fun _ s' => s'.ring = s.ring) (fun _ s' => s'.ring = s.ring) s :=
  ⟨wp_execute_charKill S U cfg _ (Or.inl ⟨n, rfl⟩) s hf, wp_execute_charKill S U cfg _ (Or.inr ⟨n, rfl⟩) s hf⟩

/-- **Nothing but kills, copies and yanks touches what the ring stores — for every command sequence.**  Any list of
    commands each of which is a character deletion or a command other than `Kill` / `Replace` / `ViYankTo` /
    `Yank` / `YankPop` (motions, insertions, history, undo, case changes, transpositions, …), run through the
    main-loop step from any state with `killing = false`, leaves slots, slot index, yank position, capacity
    and the killing flag of the ring as they were, in every outcome (return or exit); only the last action may
    have been reset to Other.  So no such sequence enters or extends a kill. -/
theorem C06_editor_inert_run (S : Segmenter) (U : UData) (cfg : EdCfg) (cs : List Cmd)
    (hcs : ∀ c ∈ cs, c.ringInert = true) (s : Ed) (hf : s.ring.killing = false) :
    wp (cmdSteps S U cfg cs)
      (fun _ s' => (s'.ring = s.ring ∨ s'.ring = s.ring.reset) ∧ s'.ring.slots = s.ring.slots ∧
        s'.ring.index = s.ring.index ∧ s'.ring.yankIndex = s.ring.yankIndex)
      (fun _ s' => (s'.ring = s.ring ∨ s'.ring = s.ring.reset) ∧ s'.ring.slots = s.ring.slots ∧
        s'.ring.index = s.ring.index ∧ s'.ring.yankIndex = s.ring.yankIndex) s :=
  wp_mono (wp_cmdSteps_inert S U cfg cs s hcs hf)
    (fun _ _ h => ⟨h, h.fields.1, h.fields.2.1, h.fields.2.2.1⟩)
    (fun _ _ h => ⟨h, h.fields.1, h.fields.2.1, h.fields.2.2.1⟩)

/-- **A non-kill command ends the accumulation** (the reset decision, `keymap.rs:134-146`): after any command
    that is reset for and does not use the ring — run through the main-loop step from any state (ring within
    its invariant, capacity > 0, `killing = false`) — the next kill opens a slot of its own: the text a
    following yank returns is the fold of THAT kill's deletions only, nothing of an earlier kill sequence. -/
theorem C06_editor_nonkill_resets (S : Segmenter) (U : UData) (cfg : EdCfg) (c : Cmd)
    (hc1 : c.ringInert = true) (hc2 : c.shouldResetKillRing = true) (s s1 : Ed) (st : Status)
    (hf : s.ring.killing = false) (hrun : cmdStep S U cfg c s = .ok (st, s1)) :
    s1.ring = s.ring.reset ∧ accOf s1.ring = [] := by
  have h : wp (cmdStep S U cfg c) (fun _ s' => s'.ring = s.ring.reset) (fun _ _ => True) s := by
    unfold cmdStep
    rw [hc2]
    show wp (do EM.modify (fun s => { s with ring := s.ring.reset }); execute S U cfg c) _ _ s
    rw [wp_bind, wp_modify]
    exact wp_mono (wp_execute_inert S U cfg c hc1 { s with ring := s.ring.reset } hf)
      (fun _ _ h => h) (fun _ _ _ => trivial)
  have hr := wp_ok h hrun
  exact ⟨hr, by rw [hr]; simp [accOf, KillRing.reset]⟩

/-- **Yank through `execute` hands over the most recent kill and records what a yank-pop has to replace**
    (counted yank included).  For every editor state whose ring is within its invariant and non-empty, and
    every count `n` and anchor: `execute (Yank n anchor)` takes the slot `t` at the yank position (during
    or right after a kill sequence: exactly the accumulated text, see `C06_editor_kill_run_accumulates`),
    and whether the paste returns or exits, the ring afterwards is the old ring with last action
    `Yank (blen t * n)` — slots and indices untouched — so that the `yank_pop` that directly follows
    asks the line to replace exactly the `blen t * n` bytes of the `n` copies by the slot one position
    back, a text stored in the ring. -/
theorem C06_editor_yank_then_pop_size (S : Segmenter) (U : UData) (cfg : EdCfg) (n : Nat) (a : Anchor)
    (s : Ed) (hw : WF s.ring) (hne : s.ring.slots ≠ []) :
    ∃ t, s.ring.slots[s.ring.yankIndex]? = some t ∧
      (s.ring.lastAction = .kill → 0 < s.ring.cap → t = accOf s.ring) ∧
      wp (execute S U cfg (.yank n a))
        (fun _ s' => s'.ring = { s.ring with lastAction := .yank (blen t * n) } ∧
          ∃ k3 prev, s'.ring.yankPop = .ok (k3, some (blen t * n, prev)) ∧ prev ∈ s.ring.slots)
        (fun _ s' => s'.ring = { s.ring with lastAction := .yank (blen t * n) }) s := by
  obtain ⟨t, ht, hwp⟩ := wp_execute_yank S U cfg n a s hw hne
  refine ⟨t, ht, ?_, wp_mono hwp ?_ (fun _ _ h => h)⟩
  · intro hk hc
    obtain ⟨k2, hy, _⟩ := yank_acc hw hc hk
    rcases yank_ok hw with ⟨h0, _⟩ | ⟨t', ht', hy'⟩
    · exact absurd h0 hne
    · rw [ht] at ht'; cases ht'
      rw [hy] at hy'; cases hy'; rfl
  · intro _ s' h
    refine ⟨h, ?_⟩
    have hw' : WF ({ s.ring with lastAction := .yank (blen t * n) } : KillRing) :=
      ⟨hw.len_le, hw.idx_lt, hw.idx_zero, (fun hh => by cases hh), hw.yidx_lt, (fun hh => by cases hh)⟩
    obtain ⟨prev, hp, hpop⟩ := yankPop_ok hw' (blen t * n) rfl hne
    rw [h]
    exact ⟨_, prev, hpop, List.mem_of_getElem? hp⟩

/-! ### non-vacuity of the editor-level theorems -/

/-- the movements of the kill commands satisfy the hypothesis of `C06_editor_kill_run_accumulates` -/
example : ∀ m ∈ [Movement.endOfLine, .beginningOfLine, .backwardWord 2 .emacs, .wholeLine, .forwardWord 1 .afterEnd .emacs],
    (Cmd.kill m).shouldResetKillRing = false := by decide

/-- what the fold computes on the notifications of M-d ("cd"), M-DEL ("ab ") and C-k (" ef") on `ab |cd ef`:
    everything removed, in its original left-to-right order -/
example : ([Notif.startKill, .del 3 ['c', 'd'] .forward, .stopKill, .startKill, .del 0 ['a', 'b', ' '] .backward, .stopKill,
    .startKill, .del 0 [' ', 'e', 'f'] .forward, .stopKill].foldl accNotif (false, [])) =
    (false, ['a', 'b', ' ', 'c', 'd', ' ', 'e', 'f']) := by decide

/-- a deletion reported outside `start_killing` / `stop_killing` (a character deletion) is ignored by the fold, and a
    `delete_around` puts the accumulated text between its two parts -/
example : ([Notif.del 0 ['x'] .forward, .startKill, .del 1 ['b'] .forward, .del 0 ['a', 'c'] (.around 1), .stopKill].foldl
    accNotif (false, [])) = (false, ['a', 'b', 'c']) := by decide

/-- commands covered by `C06_editor_inert_run` / `C06_editor_nonkill_resets` -/
example : [Cmd.kill (.forwardChar 1), .kill (.backwardChar 3), .selfInsert 1 'a', .move (.backwardChar 1), .undo 1,
    .transposeChars].all (fun c => c.ringInert && c.shouldResetKillRing) = true := by decide

/-- **The ring is ready between any two commands** — the hypotheses of the editor-level theorems above are an
    invariant.  Starting from any state whose ring is within its invariant, has capacity > 0 and is not in
    the middle of a kill notification (`killing = false`; a fresh `KillRing::new(60)` is such a ring), every
    run — through the main-loop step — of kill commands with ANY movement (every `LineBuffer::kill` closes
    the `start_killing` bracket it opens, whatever it answers), character deletions and commands that do not
    use the ring ends, whether it returns or exits, in a state with the same three facts; in particular no
    such command panics in the ring and `killing` is down again after every command. -/
theorem C06_editor_ring_ready_invariant (S : Segmenter) (U : UData) (cfg : EdCfg) (cs : List Cmd)
    (hcs : ∀ c ∈ cs, c.killOrInert = true) (s : Ed)
    (hw : WF s.ring) (hc : 0 < s.ring.cap) (hf : s.ring.killing = false) :
    wp (cmdSteps S U cfg cs)
      (fun _ s' => WF s'.ring ∧ 0 < s'.ring.cap ∧ s'.ring.killing = false)
      (fun _ s' => WF s'.ring ∧ 0 < s'.ring.cap ∧ s'.ring.killing = false) s :=
  wp_cmdSteps_ready S U cfg cs s hcs ⟨hw, hc, hf⟩

/-- the hypotheses are satisfiable: a fresh ring, and a mixed command list -/
example : WF (KillRing.new 60) ∧ 0 < (KillRing.new 60).cap ∧ (KillRing.new 60).killing = false :=
  ⟨wf_new 60, by decide, rfl⟩
example : [Cmd.kill .endOfLine, .kill (.forwardChar 1), .kill .wholeLine, .selfInsert 1 'a', .kill (.backwardWord 1 .emacs),
    .move .endOfLine].all Cmd.killOrInert = true := by decide
