/-
  Property C06 — killed text is never lost: yank restores it, kills accumulate, yank-pop rotates.
  Model: `Rl/KillRing.lean` (transliteration of `src/kill_ring.rs`), wired into the editor model in
  `Rl/Editor.lean` (`lbKill`, `ringYank`, `ringYankPop`, `Cmd.shouldResetKillRing`); oracle
  `Spec.oracleC06` on the implementation's callbacks.  The theorems below are about the ring for ALL
  reachable rings (any sequence of ring operations, any capacity), helper lemmas in
  `Rl/Lemmas/KillRing.lean`.
-/
import Rl.Editor
import Rl.Lemmas.KillRing
import Rl.Lemmas.KillRingSim
open Rl Rl.KillRing

/-! ### reachable rings -/

/-- **Ring bounds, no panic.** Whatever sequence of ring operations (kill in either direction, yank,
    yank-pop, reset, listener deletions, start/stop killing) is applied to a fresh ring of any
    capacity, no operation reaches one of the model's panics (`slots[index]` out of range) and the
    resulting ring satisfies the invariant: at most `cap` slots; the index addresses a slot when the
    ring is non-empty (and is 0 while it is empty); `lastAction = kill` only with a non-empty ring
    when `cap > 0`. -/
theorem C06_ring_bounds (size : Nat) (ops : List KOp) :
    ∃ k, runOps (KillRing.new size) ops = .ok k ∧
      k.cap = size ∧ k.slots.length ≤ size ∧
      (k.slots ≠ [] → k.index < k.slots.length) ∧ (k.slots = [] → k.index = 0) ∧
      (k.lastAction = .kill → 0 < size → k.slots ≠ []) := by
  obtain ⟨k, he, hw, hc⟩ := runOps_wf (wf_new size) ops
  have hc : k.cap = size := by simpa [KillRing.new] using hc
  exact ⟨k, he, hc, hc ▸ hw.len_le, hw.idx_lt, hw.idx_zero, hc ▸ hw.kill_ne⟩

/-- Under the invariant `kill`, `yank`, `yankPop` never return the model's panic (one-step form, for
    any ring satisfying the invariant, reachable or not). -/
theorem C06_no_panic (k : KillRing) (h : WF k) (text : Text) (dir : KMode) :
    (∃ k', k.kill text dir = .ok k' ∧ WF k') ∧ (∃ k' r, k.yank = .ok (k', r) ∧ WF k') ∧
    (∃ k' r, k.yankPop = .ok (k', r) ∧ WF k') := by
  obtain ⟨k1, h1, w1, _⟩ := wf_kill h text dir
  obtain ⟨k2, r2, h2, w2, _⟩ := wf_yank h
  obtain ⟨k3, r3, h3, w3, _⟩ := wf_yankPop h
  exact ⟨⟨k1, h1, w1⟩, ⟨k2, r2, h2, w2⟩, ⟨k3, r3, h3, w3⟩⟩

/-! ### kill, then yank -/

/-- **Kill then yank.** On a ring satisfying the invariant (capacity > 0) whose last action is not a
    kill, a kill of `text` (either direction) followed by yank returns exactly `text`, and records
    `blen text` as the size a following yank-pop has to replace. -/
theorem C06_kill_yank (k : KillRing) (h : WF k) (hk : k.lastAction ≠ .kill) (hc : 0 < k.cap)
    (text : Text) (dir : KMode) :
    ∃ k1 k2, k.kill text dir = .ok k1 ∧ k1.yank = .ok (k2, some text) ∧
      k2.lastAction = .yank (blen text) ∧ k2.slots = k1.slots ∧ k2.index = k1.index := by
  obtain ⟨k1, he, _, _, hs, _, _, _, _, hidx⟩ := kill_fresh h hk hc text dir
  obtain ⟨k1', he', hw, _, _⟩ := wf_kill h text dir
  have : k1' = k1 := by rw [he] at he'; cases he'; rfl
  subst this
  rcases yank_ok hw with ⟨h0, _⟩ | ⟨s, hs', hy⟩
  · rw [h0] at hidx; simp at hidx
  · rw [kill_fresh_yank hk hc he, hs] at hs'; cases hs'
    exact ⟨k1', _, he, hy, rfl, rfl, rfl⟩

/-- **Copy, then kill, then yank** (D40, repaired).  `Cmd::ViYankTo` stores the copied text with `kill`
    and then resets the last action; whatever the ring was, a kill command that follows therefore
    opens its own slot and the yank after it returns exactly the killed text, not copied + killed. -/
theorem C06_copy_kill_yank (k : KillRing) (h : WF k) (hc : 0 < k.cap) (copied text : Text) (dir : KMode) :
    ∃ k0 k1 k2, k.kill copied .append = .ok k0 ∧ k0.reset.kill text dir = .ok k1 ∧
      k1.yank = .ok (k2, some text) := by
  obtain ⟨k0, he0, hw0, hc0, _⟩ := wf_kill h copied .append
  have hw : WF k0.reset := wf_reset hw0
  have hla : k0.reset.lastAction ≠ .kill := by simp [reset]
  have hcap : 0 < k0.reset.cap := by simpa [reset, hc0] using hc
  obtain ⟨k1, k2, h1, h2, _⟩ := C06_kill_yank k0.reset hw hla hcap text dir
  exact ⟨k0, k1, k2, he0, h1, h2⟩

/-- The same for every reachable ring: after any operations, a command that resets the last action
    (`Cmd.shouldResetKillRing`), a kill and a yank give back the killed text. -/
theorem C06_kill_yank_reachable (size : Nat) (hs : 0 < size) (ops : List KOp) (text : Text) (dir : KMode) :
    ∃ k k1 k2, runOps (KillRing.new size) ops = .ok k ∧ k.reset.kill text dir = .ok k1 ∧
      k1.yank = .ok (k2, some text) := by
  obtain ⟨k, he, hw, hc⟩ := runOps_wf (wf_new size) ops
  have hc : k.cap = size := by simpa [KillRing.new] using hc
  obtain ⟨k1, k2, h1, h2, _⟩ := C06_kill_yank k.reset (wf_reset hw) (by simp [reset]) (by simpa [reset, hc] using hs) text dir
  exact ⟨k, k1, k2, he, h1, h2⟩

/-! ### accumulation -/

/-- **Accumulation.** Start from a ring satisfying the invariant (capacity > 0) whose last action is
    not a kill, with the line `T0 = L0 ++ R0` (cursor between the two). After any non-empty run of
    directional kills — forward and backward mixed in any order — with nothing in between, let the
    line be `T1 = L1 ++ R1` with the cursor `p = blen L1`. Then ONE yank returns a text `slot` with
    `T0 = T1[..p] ++ slot ++ T1[p..]`: everything removed, in its original left-to-right order. -/
theorem C06_accumulate (k0 : KillRing) (hw : WF k0) (hk : k0.lastAction ≠ .kill) (hc : 0 < k0.cap)
    (L0 R0 : Text) (ds : List DKill) (hne : ds ≠ []) (L1 R1 : Text) (k1 : KillRing)
    (hrun : dkRun (L0, R0, k0) ds = some (L1, R1, k1)) :
    ∃ slot k2 a b, k1.yank = .ok (k2, some slot) ∧
      splitAtByte (L1 ++ R1) (blen L1) = some (a, b) ∧ L0 ++ R0 = a ++ slot ++ b := by
  cases ds with
  | nil => exact absurd rfl hne
  | cons d ds =>
    simp only [dkRun] at hrun
    split at hrun
    · rename_i s1 h1
      have hinv := accInv_run (accInv_first hw hk hc h1) hrun
      obtain ⟨hw1, _, _, slot, hs, hT⟩ := hinv
      simp only at hw1 hs hT
      rename_i hk1 hc1
      rcases yank_ok hw1 with ⟨h0, _⟩ | ⟨s, hs', hy⟩
      · rw [h0] at hs; simp at hs
      · rw [hw1.kill_yidx hk1 hc1, hs] at hs'; cases hs'
        exact ⟨slot, _, L1, R1, hy, splitAtByte_append L1 R1, hT⟩
    · cases hrun

/-- The ring listener is told the direction by the line buffer: with `killing = true`, a `Forward`
    deletion appends and a `Backward` deletion prepends. -/
theorem C06_onDelete_killing (k : KillRing) (hk : k.killing = true) (text : Text) :
    k.onDelete text .forward = k.kill text .append ∧ k.onDelete text .backward = k.kill text .prepend := by
  simp [onDelete, hk]

/-! ### single-character deletions -/

/-- **Character deletions stay out of the ring.** A deletion reported while `killing = false` (what
    `Kill(ForwardChar n)` / `Kill(BackwardChar n)`, Delete, Backspace produce: `LineBuffer::kill`
    sends no `start_killing` for them) leaves the ring unchanged — slots, index and last action; and
    these two commands are among those that reset the last action, so a kill that follows opens a
    fresh slot holding exactly its own text instead of extending the previous one. -/
theorem C06_char_delete (k : KillRing) (hf : k.killing = false) (text : Text) (dir : Direction) (n : Nat) :
    k.onDelete text dir = .ok k ∧
    Cmd.shouldResetKillRing (.kill (.forwardChar n)) = true ∧
    Cmd.shouldResetKillRing (.kill (.backwardChar n)) = true ∧
    (WF k → 0 < k.cap → ∀ (t : Text) (d : KMode), ∃ k', k.reset.kill t d = .ok k' ∧
        k'.slots[k'.index]? = some t ∧
        (k'.slots = k.slots ++ [t] ∨ k'.slots = k.slots.set k'.index t)) := by
  refine ⟨by simp [onDelete, hf], rfl, rfl, ?_⟩
  intro hw hc t d
  obtain ⟨k', he, _, hi, hs, _, _, hsl, _, _⟩ := kill_fresh (wf_reset hw) (by simp [reset]) (by simpa [reset] using hc) t d
  refine ⟨k', he, hs, ?_⟩
  rw [hi]; simpa [reset] using hsl

/-- On the editor's fan-out (`lbKill`, the `Proxy` of `edit_kill`): the notifications produced by
    `LineBuffer::kill` for the two character movements contain no `start_killing`, so a ring that is
    not killing comes out of the whole command unchanged — nothing enters or extends a slot. -/
theorem C06_char_kill_ring_unchanged (S : Segmenter) (U : UData) (n : Nat) (lb lb' : LB) (r : Bool) (ns : List Notif)
    (h : LB.kill S U (.forwardChar n) lb = .ok (r, lb', ns) ∨ LB.kill S U (.backwardChar n) lb = .ok (r, lb', ns))
    (k : KillRing) (hf : k.killing = false) : lbKill.go ns k = .ok k := by
  have hd : ∀ x ∈ ns, ∃ i s d, x = .del i s d := by
    rcases h with h | h
    · exact LB.kill_forwardChar_notifs S U n lb lb' r ns h
    · exact LB.kill_backwardChar_notifs S U n lb lb' r ns h
  clear h
  induction ns with
  | nil => rfl
  | cons x ns ih =>
    obtain ⟨i, s, d, rfl⟩ := hd _ (List.mem_cons_self ..)
    have : ringNotif k (.del i s d) = .ok k := by simp [ringNotif, onDelete, hf]
    simp only [lbKill.go, this]
    exact ih (fun y hy => hd y (List.mem_cons_of_mem _ hy))

/-! ### yank-pop -/

/-- **Yank-pop.** Directly after a yank that returned `s0` (on a ring satisfying the invariant):
    the first yank-pop asks to replace exactly `blen s0` bytes — the size just yanked — by the slot
    one position back (cyclically); `j` yank-pops in a row answer `popSpec`: each replaces the byte
    length of the text inserted just before by the slot one further back, cyclically through the
    stored slots and nothing else; the slots themselves are unchanged, the yank position has moved
    back by `j` modulo the number of slots (so `slots.length` pops are a full cycle). -/
theorem C06_yank_pop (k : KillRing) (h : WF k) (k1 : KillRing) (s0 : Text)
    (hy : k.yank = .ok (k1, some s0)) (j : Nat) :
    ∃ k2, popN j k1 = .ok (k2, popSpec k.slots k.yankIndex (blen s0) j) ∧
      k2.slots = k.slots ∧ k2.yankIndex = cycN k.slots.length k.yankIndex j ∧
      (k2.yankIndex + j) % k.slots.length = k.yankIndex ∧
      (∀ r ∈ popSpec k.slots k.yankIndex (blen s0) j, ∃ sz t, r = some (sz, t) ∧ t ∈ k.slots) := by
  rcases yank_ok h with ⟨_, he⟩ | ⟨s, hs, he⟩
  · rw [he] at hy; cases hy
  · rw [he] at hy; cases hy
    have hne : k.slots ≠ [] := by intro h0; rw [h0] at hs; simp at hs
    have hw1 : WF { k with lastAction := .yank (blen s0) } :=
      ⟨h.len_le, h.idx_lt, h.idx_zero, by simp, h.yidx_lt, by simp⟩
    obtain ⟨k2, hp, hsl, hidx, _, _, _⟩ := popN_spec j _ hw1 (blen s0) rfl hne
    have hl := h.yidx_lt hne
    refine ⟨k2, hp, hsl, hidx, ?_, ?_⟩
    · simp only at hidx
      rw [hidx]; exact cycN_add_mod hl j
    · generalize blen s0 = size
      have hi := hl
      generalize k.yankIndex = i at hi
      clear hp hidx hs he hw1 hl
      induction j generalizing i size with
      | zero => intro r hr; simp [popSpec] at hr
      | succ j ih =>
        intro r hr
        simp only [popSpec, List.mem_cons] at hr
        have hc := cyc_lt hi
        rcases hr with rfl | hr
        · refine ⟨size, _, rfl, ?_⟩
          rw [List.getD_eq_getElem?_getD, List.getElem?_eq_getElem hc]
          simp
        · exact ih _ _ hc r hr

/-- `slots.length` yank-pops come back to the slot that was yanked. -/
theorem C06_yank_pop_full_cycle (len i : Nat) (h : i < len) : cycN len i len = i := by
  have := cycN_add_mod h len
  have hl := cycN_lt h len
  rw [Nat.add_mod_right, Nat.mod_eq_of_lt hl] at this
  exact this

/-- Yank-pop is inert unless the last action was a yank. -/
theorem C06_yank_pop_only_after_yank (k : KillRing) (h : ∀ sz, k.lastAction ≠ .yank sz) :
    k.yankPop = .ok (k, none) := by
  unfold yankPop
  split
  · rename_i sz hy; exact absurd hy (h sz)
  · rfl

/-! ### D33 (repaired) as a theorem about the model -/

def tA : Text := ['A']
def tB : Text := ['B']
def tC : Text := ['C']
def tD : Text := ['D']

/-- kill A, (other), kill B, (other), kill C, yank, yank-pop, kill D, yank, yank-pop: what the last
    yank-pop inserts -/
def d33 (cap : Nat) : Option Text :=
  match (KillRing.new cap).kill tA .append with
  | .error _ => none
  | .ok k =>
  match k.reset.kill tB .append with
  | .error _ => none
  | .ok k =>
  match k.reset.kill tC .append with
  | .error _ => none
  | .ok k =>
  match k.yank with
  | .error _ => none
  | .ok (k, _) =>
  match k.yankPop with
  | .error _ => none
  | .ok (k, _) =>
  match k.kill tD .append with
  | .error _ => none
  | .ok k =>
  match k.yank with
  | .error _ => none
  | .ok (k, _) =>
  match k.yankPop with
  | .error _ => none
  | .ok (_, r) => r.map (·.2)

/-- **D33 (repaired).** The previous kill before D is C and the yank-pop shows it (before the repair it
    showed B: the kill after the yank-pop was stored at the rotated position and replaced C). -/
theorem C06_D33_repaired : d33 60 = some tC := by decide

/-! ### the full yank-pop clause: the model answers like the reference ring of the property text
    (`SRing`, `Rl/Lemmas/KillRingSim.lean`) -/

/-- Full statement of "yank-pop cycles through the MOST RECENT kills": the model answers every yank
    and yank-pop like the reference ring (`SRing`: the kills most recent first, at most the ring size;
    a new kill is always the most recent one and ends the rotation of yank-pop). -/
def C06_yank_pop_most_recent_statement : Prop :=
  ∀ (size : Nat) (ops : List KOp), ops.all (fun op => !op.isListener) = true →
    modelObs (KillRing.new size) ops = SRing.obs { kills := [], rot := 0, last := .other, cap := size } ops

/-- **Yank-pop cycles through the MOST RECENT kills and nothing else** (D33, repaired): for every ring
    size and every sequence of commands, each yank and yank-pop of the model returns exactly what the
    reference ring returns.  Proved by a simulation (`Sim`, `Rl/Lemmas/KillRingSim.lean`): the slots
    of the circular buffer read backwards from `index` are the reference ring's kills in order of
    recency, also after the ring has wrapped, and `yankIndex` is the reference ring's rotation. -/
theorem C06_yank_pop_most_recent : C06_yank_pop_most_recent_statement := by
  intro size ops hall
  exact sim_obs ops hall _ _ (Sim.new size)

/-- the D33 sequence (kill A, B, C, yank, yank-pop, kill D, yank, yank-pop) on the model: C, B, D, C -/
example : modelObs (KillRing.new 60)
    [.kill tA .append, .reset, .kill tB .append, .reset, .kill tC .append, .yank, .yankPop,
     .kill tD .append, .yank, .yankPop] = [some tC, some tB, some tD, some tC] := by decide

/-! ### a span with the cursor inside (D16, repaired) -/

/-- **A whole-line / whole-buffer kill inside a run keeps the left-to-right order** (D16, repaired).
    `LineBuffer::kill` reports such a span as `delete_around(before, after)`; on a ring whose kill
    sequence has accumulated `s`, the slot afterwards is `before ++ s ++ after`: the text that stood
    on the left of the cursor goes before, the text on the right behind what was killed so far
    (before the repair the whole span was appended: `s ++ before ++ after`). -/
theorem C06_around_keeps_order (k : KillRing) (h : WF k) (hc : 0 < k.cap) (hkill : k.killing = true)
    (hla : k.lastAction = .kill) (before after : Text) (hb : before ≠ []) (ha : after ≠ []) :
    ∃ s k', k.slots[k.index]? = some s ∧
      k.onDelete (before ++ after) (.around (blen before)) = .ok k' ∧
      k'.slots[k'.index]? = some (before ++ s ++ after) := by
  obtain ⟨s, hs, hk1⟩ := kill_cont h hla hc before .prepend
  have hne := h.kill_ne hla hc
  have hl := h.idx_lt hne
  let k1 : KillRing := { k with slots := k.slots.set k.index (mergeSlot .prepend s before) }
  have hw1 : WF k1 := by
    obtain ⟨k1', he, hw, _⟩ := wf_kill h before .prepend
    rw [hk1] at he; cases he; exact hw
  obtain ⟨s1, hs1, hk2⟩ := kill_cont (k := k1) hw1 hla hc after .append
  have hs1' : s1 = mergeSlot .prepend s before := by
    have : k1.slots[k1.index]? = some (mergeSlot .prepend s before) := by
      show (k.slots.set k.index _)[k.index]? = _
      simp [hl]
    rw [this] at hs1; exact (Option.some.inj hs1).symm
  refine ⟨s, { k1 with slots := k1.slots.set k1.index (mergeSlot .append s1 after) }, hs, ?_, ?_⟩
  · unfold onDelete
    have hb' : before.isEmpty = false := by cases before <;> simp_all
    have ha' : after.isEmpty = false := by cases after <;> simp_all
    have hnk : (!k.killing) = false := by rw [hkill]; rfl
    simp only [hnk, Bool.false_eq_true, if_false, cutBytes_append, hb', ha', hk1]
    exact hk2
  · show ((k.slots.set k.index _).set k.index _)[k.index]? = _
    simp [hl, hs1', mergeSlot]

/-! ### yank with a numeric argument (D15, repaired) -/

/-- **Counted yank, then yank-pop.** `KillRing::yank_n n` (= `yank` followed by `yankCount n`) answers the
    most recent kill and records the byte length of the `n` copies the editor inserts, and the yank-pop
    that directly follows asks to replace exactly that many bytes by the previous slot. -/
theorem C06_yank_count_pop (k : KillRing) (h : WF k) (hne : k.slots ≠ []) (n : Nat) :
    ∃ k1 text s, k.yank = .ok (k1, some text) ∧
      (k1.yankCount n).lastAction = .yank (blen (List.replicate n text).flatten) ∧
      (k1.yankCount n).yankPop =
        .ok ({ (k1.yankCount n) with yankIndex := prevIdx (k1.yankCount n), lastAction := .yank (blen s) },
             some (blen (List.replicate n text).flatten, s)) := by
  rcases yank_ok h with ⟨h0, _⟩ | ⟨text, hs, hy⟩
  · exact absurd h0 hne
  · obtain ⟨k1', r, hy', hw1, hc1, hs1⟩ := wf_yank h
    have hk1 : k1' = { k with lastAction := .yank (blen text) } := by
      rw [hy] at hy'; cases hy'; rfl
    subst hk1
    have hla : (KillRing.yankCount { k with lastAction := .yank (blen text) } n).lastAction
        = .yank (blen (List.replicate n text).flatten) := by
      simp [KillRing.yankCount, blen_replicate_flatten]
    have hwf : WF (KillRing.yankCount { k with lastAction := .yank (blen text) } n) := by
      have : KillRing.yankCount { k with lastAction := .yank (blen text) } n
          = { k with lastAction := .yank (blen text * n) } := by simp [KillRing.yankCount]
      rw [this]
      obtain ⟨a, b, c, d, e, f⟩ := hw1
      exact ⟨a, b, c, (fun hh => by cases hh), e, (fun hh => by cases hh)⟩
    have hne' : (KillRing.yankCount { k with lastAction := .yank (blen text) } n).slots ≠ [] := by
      simpa [KillRing.yankCount] using hne
    obtain ⟨s, _, hp⟩ := yankPop_ok hwf _ hla hne'
    exact ⟨_, text, s, hy, hla, hp⟩

/-! ### non-vacuity -/

/-- the hypotheses of `C06_accumulate` are satisfiable, with a mixed run -/
example : dkRun (['a', 'b'], ['c', 'd', 'e'], (KillRing.new 60).reset)
    [.fwd ['c'], .bwd ['b'], .fwd ['d'], .bwd ['a']] =
    some ([], ['e'], { slots := [['a', 'b', 'c', 'd']], index := 0, lastAction := .kill, killing := false, cap := 60 }) := by
  decide

example : ((KillRing.new 2).kill tA .append).toOption = some { slots := [tA], index := 0, lastAction := .kill, killing := false, cap := 2 } := by
  decide

/-- three pops on a two-slot ring alternate between the two slots -/
example : popSpec [tA, tB] 1 1 3 = [some (1, tA), some (1, tB), some (1, tA)] := by decide

/-- the invariant is not trivially true: a ring whose index is out of range is excluded and does panic -/
example : ({ slots := [tA], index := 0, yankIndex := 3, lastAction := .other, killing := false, cap := 5 } : KillRing).yank.toOption = none := by
  decide
