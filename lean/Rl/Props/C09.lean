/-
  Property C09 — history store: newest entries, in order, within bound; searches are truthful.
  Only property theorems and non-vacuity examples live here; helper lemmas are in
  Rl/Lemmas/History.lean.  Model: Rl/History.lean (transliteration of src/history.rs).
  Spec: Rl/Spec/History.lean (written from the property text).
-/
import Rl.History
import Rl.Spec.History
import Rl.Lemmas.History
import Rl.Hint
import Rl.Spec.Hint
import Rl.Lemmas.Hint
open Rl Rl.MemHist

/-- abstraction map: model state ↦ spec state -/
def C09_abs (h : MemHist) : Spec.HState :=
  { entries := h.entries, max := h.maxLen, ignoreSpace := h.ignoreSpace, ignoreDups := h.ignoreDups }

/-- The size bound holds after any sequence of public operations from a fresh history
    (the eviction in `insert` tests `len == max_len`, so this invariant is what makes it work). -/
theorem C09_len_le_max (ws : Char → Bool) (m : Nat) (isp idp : Bool) (ops : List HOp) :
    (MemHist.run ws (MemHist.new m isp idp) ops).1.entries.length
      ≤ (MemHist.run ws (MemHist.new m isp idp) ops).1.maxLen :=
  run_inv ws (by simp [HInv, MemHist.new]) ops

/-- `add` reports acceptance truthfully: a line is refused iff it is empty, the limit is zero,
    it starts with a blank while ignore-space is on, or it equals the newest entry while
    ignore-duplicates is on. -/
theorem C09_add_iff (ws : Char → Bool) (h : MemHist) (l : Text) :
    (h.add ws l).2 = false ↔
      (l = [] ∨ h.maxLen = 0 ∨ (h.ignoreSpace = true ∧ ∃ c t, l = c :: t ∧ ws c = true)
        ∨ (h.ignoreDups = true ∧ h.entries.getLast? = some l)) := by
  unfold MemHist.add MemHist.ignore
  cases l with
  | nil => simp
  | cons c t =>
    by_cases hm : h.maxLen = 0
    · simp [hm]
    · cases hsp : h.ignoreSpace <;> cases hd : h.ignoreDups <;> simp [hm]
      · cases hl : h.entries.getLast? <;> simp
        split <;> simp_all
      · cases hw : ws c <;> simp
      · cases hw : ws c <;> simp
        cases hl : h.entries.getLast? <;> simp
        split <;> simp_all

/-- An accepted line becomes the newest entry and the store is cut from the old end. -/
theorem C09_add_accepted (ws : Char → Bool) (h : MemHist) (l : Text)
    (hi : h.entries.length ≤ h.maxLen) (ha : (h.add ws l).2 = true) :
    (h.add ws l).1.entries = Spec.takeLast h.maxLen (h.entries ++ [l]) := by
  unfold MemHist.add at *
  split at ha
  · simp at ha
  · rename_i hig
    have hm : h.maxLen ≠ 0 := fun hm => hig (ignore_of_max_zero ws h l hm)
    simp only [MemHist.insert, Spec.takeLast]
    by_cases he : h.entries.length = h.maxLen
    · have hb : (h.entries.length == h.maxLen) = true := by simp [he]
      simp only [hb, if_true, List.length_append, List.length_singleton]
      have : h.entries.length + 1 - h.maxLen = 1 := by omega
      rw [this]
      cases hes : h.entries with
      | nil => simp [hes] at he; omega
      | cons x xs => simp [hig]
    · have hb : (h.entries.length == h.maxLen) = false := by simp [he]
      simp only [hb, List.length_append, List.length_singleton]
      have : h.entries.length + 1 - h.maxLen = 0 := by omega
      rw [this]; simp [hig]

/-- Every observable of every operation sequence is the one the declarative spec prescribes
    (entries oldest first = accepted lines cut to the limit; `get`; `len`; both searches). -/
theorem C09_run_eq_spec (ws : Char → Bool) (h : MemHist) (hi : h.entries.length ≤ h.maxLen)
    (ops : List HOp) :
    (MemHist.run ws h ops).2 = (Spec.run ws (C09_abs h) ops).2 := by
  induction ops generalizing h with
  | nil => rfl
  | cons op ops ih =>
    have hstep : (Spec.step ws (C09_abs h) op) = (C09_abs (h.step ws op).1, (h.step ws op).2) := by
      have hadd : ∀ l, Spec.step ws (C09_abs h) (.add l) = (C09_abs (h.add ws l).1, .bool (h.add ws l).2) := by
        intro l
        have hr : Spec.refused ws (C09_abs h) l = h.ignore ws l := by
          unfold Spec.refused MemHist.ignore C09_abs
          cases l with
          | nil => simp
          | cons c t =>
            by_cases hm : h.maxLen = 0
            · simp [hm]
            · cases hsp : h.ignoreSpace <;> cases hd : h.ignoreDups <;> simp [hm]
              · cases hl : h.entries.getLast? <;> simp [eq_comm]
                rename_i v; by_cases hv : v = c :: t <;> simp [hv]
              · cases hw : ws c <;> simp
                cases hl : h.entries.getLast? <;> simp [eq_comm]
                rename_i v; by_cases hv : v = c :: t <;> simp [hv]
        simp only [Spec.step, hr]
        cases hg : h.ignore ws l
        · have ha : (h.add ws l).2 = true := by simp [MemHist.add, hg]
          have := C09_add_accepted ws h l hi ha
          have hadd' : h.add ws l = (h.insert l, true) := by simp [MemHist.add, hg]
          rw [hadd'] at this ⊢
          simp only [Bool.false_eq_true, if_false]
          simp only [C09_abs]
          simp only at this
          rw [← this]
          rfl
        · simp [MemHist.add, hg]
      cases op with
      | add l => simpa [MemHist.step] using hadd l
      | addOwned l => simpa [MemHist.step, Spec.step] using hadd l
      | setMax n =>
        simp only [Spec.step, MemHist.step, MemHist.setMaxLen, C09_abs, Spec.takeLast]
        split
        · rfl
        · rename_i hle
          simp at hle
          have : h.entries.length - n = 0 := by omega
          simp [this]
      | dups b => rfl
      | space b => rfl
      | clear => rfl
      | get i => rfl
      | len => rfl
      | dump => rfl
      | search t s d =>
        simp only [Spec.step, MemHist.step, MemHist.search]
        have := searchMatch_eq_find true h t s d
        simp only [testOf, if_true] at this
        simp only [C09_abs]
        rw [this]
      | startsWith t s d =>
        simp only [Spec.step, MemHist.step, MemHist.startsWith]
        have := searchMatch_eq_find false h t s d
        simp only [testOf, Bool.false_eq_true, if_false] at this
        simp only [C09_abs]
        rw [this]
    simp only [MemHist.run, Spec.run, hstep]
    rw [ih (h.step ws op).1 (step_inv ws hi op)]

/-- Indexing returns the i-th oldest entry. -/
theorem C09_index (h : MemHist) (i : Nat) : h.get i = h.entries[i]? := rfl

/-- Substring search is truthful: a reported hit is a stored entry that really contains the text
    at the reported byte offset (its first occurrence), on the requested side of `start`
    (inclusive), and no nearer entry in that direction contains the text. -/
theorem C09_search_sound (h : MemHist) (t : Text) (s : Nat) (d : Dir) (i : Nat) (e : Text) (off : Nat)
    (hs : h.search t s d = some (i, e, off)) :
    h.entries[i]? = some e ∧ OccursAt t e off ∧ (∀ o, OccursAt t e o → off ≤ o) ∧
    (d = .forward → s ≤ i ∧ ∀ (j : Nat) (e' : Text), s ≤ j → j < i → h.entries[j]? = some e' → ∀ o, ¬ OccursAt t e' o) ∧
    (d = .reverse → i ≤ s ∧ ∀ (j : Nat) (e' : Text), i < j → j ≤ s → h.entries[j]? = some e' → ∀ o, ¬ OccursAt t e' o) := by
  obtain ⟨_, _, hget, htest, hf, hr⟩ := searchMatch_some hs
  obtain ⟨ho, hmin⟩ := findSub_some htest
  refine ⟨hget, ho, hmin, ?_, ?_⟩
  · intro hd
    obtain ⟨h1, h2⟩ := hf hd
    exact ⟨h1, fun j e' hj1 hj2 he' => findSub_none (h2 j e' ⟨hj1, hj2⟩ he')⟩
  · intro hd
    obtain ⟨h1, h2⟩ := hr hd
    exact ⟨h1, fun j e' hj1 hj2 he' => findSub_none (h2 j e' ⟨hj1, hj2⟩ he')⟩

/-- Substring search is complete: `none` only if the text is empty, the start is out of range,
    or no entry on the requested side contains it; and it *is* `none` in the first two cases. -/
theorem C09_search_none (h : MemHist) (t : Text) (s : Nat) (d : Dir) :
    (h.search t s d = none →
      t = [] ∨ h.entries.length ≤ s ∨
      ((d = .forward → ∀ (j : Nat) (e' : Text), s ≤ j → h.entries[j]? = some e' → ∀ o, ¬ OccursAt t e' o) ∧
       (d = .reverse → ∀ (j : Nat) (e' : Text), j ≤ s → h.entries[j]? = some e' → ∀ o, ¬ OccursAt t e' o))) ∧
    (t = [] ∨ h.entries.length ≤ s → h.search t s d = none) := by
  refine ⟨?_, fun hg => searchMatch_guard hg⟩
  intro hs
  rcases searchMatch_none hs with h1 | h1 | ⟨hf, hr⟩
  · exact Or.inl h1
  · exact Or.inr (Or.inl h1)
  · refine Or.inr (Or.inr ⟨?_, ?_⟩)
    · intro hd j e' hj he'; exact findSub_none (hf hd j e' hj he')
    · intro hd j e' hj he'; exact findSub_none (hr hd j e' hj he')

/-- Prefix search is truthful and nearest; the offset is the length of the text. -/
theorem C09_starts_with_sound (h : MemHist) (t : Text) (s : Nat) (d : Dir) (i : Nat) (e : Text) (off : Nat)
    (hs : h.startsWith t s d = some (i, e, off)) :
    h.entries[i]? = some e ∧ t <+: e ∧ off = blen t ∧
    (d = .forward → s ≤ i ∧ ∀ (j : Nat) (e' : Text), s ≤ j → j < i → h.entries[j]? = some e' → ¬ t <+: e') ∧
    (d = .reverse → i ≤ s ∧ ∀ (j : Nat) (e' : Text), i < j → j ≤ s → h.entries[j]? = some e' → ¬ t <+: e') := by
  obtain ⟨_, _, hget, htest, hf, hr⟩ := searchMatch_some hs
  have key : ∀ e' : Text, (if t.isPrefixOf e' = true then some (blen t) else none) = none → ¬ t <+: e' := by
    intro e' h1 h2
    rw [← List.isPrefixOf_iff_prefix] at h2
    simp [h2] at h1
  split at htest
  · rename_i hp
    simp at htest
    refine ⟨hget, List.isPrefixOf_iff_prefix.mp hp, htest.symm, ?_, ?_⟩
    · intro hd
      obtain ⟨h1, h2⟩ := hf hd
      exact ⟨h1, fun j e' hj1 hj2 he' => key e' (h2 j e' ⟨hj1, hj2⟩ he')⟩
    · intro hd
      obtain ⟨h1, h2⟩ := hr hd
      exact ⟨h1, fun j e' hj1 hj2 he' => key e' (h2 j e' ⟨hj1, hj2⟩ he')⟩
  · simp at htest

theorem C09_starts_with_none (h : MemHist) (t : Text) (s : Nat) (d : Dir) :
    (h.startsWith t s d = none →
      t = [] ∨ h.entries.length ≤ s ∨
      ((d = .forward → ∀ (j : Nat) (e' : Text), s ≤ j → h.entries[j]? = some e' → ¬ t <+: e') ∧
       (d = .reverse → ∀ (j : Nat) (e' : Text), j ≤ s → h.entries[j]? = some e' → ¬ t <+: e'))) ∧
    (t = [] ∨ h.entries.length ≤ s → h.startsWith t s d = none) := by
  refine ⟨?_, fun hg => searchMatch_guard hg⟩
  intro hs
  have key : ∀ e' : Text, (if t.isPrefixOf e' = true then some (blen t) else none) = none → ¬ t <+: e' := by
    intro e' h1 h2
    rw [← List.isPrefixOf_iff_prefix] at h2
    simp [h2] at h1
  rcases searchMatch_none hs with h1 | h1 | ⟨hf, hr⟩
  · exact Or.inl h1
  · exact Or.inr (Or.inl h1)
  · refine Or.inr (Or.inr ⟨?_, ?_⟩)
    · intro hd j e' hj he'; exact key e' (hf hd j e' hj he')
    · intro hd j e' hj he'; exact key e' (hr hd j e' hj he')

/-- `FileHistory`'s unsaved-entries counter never exceeds the store. -/
theorem C09_new_entries_le (ws : Char → Bool) (f : FileHist) (l : Text)
    (h : f.newEntries ≤ f.mem.entries.length) :
    (f.add ws l).1.newEntries ≤ (f.add ws l).1.mem.entries.length := by
  unfold FileHist.add
  cases hm : f.mem.add ws l with
  | mk m ok =>
    cases ok
    · simpa using h
    · simp; omega

/-! Non-vacuity: concrete, non-trivial instances (kernel-evaluated). -/
example :
    let h := (MemHist.run (fun c => c == ' ') (MemHist.new 2 true true)
      [.add "a".toList, .add "a".toList, .add " x".toList, .add "bé".toList, .add "c".toList]).1
    h.entries = ["bé".toList, "c".toList] ∧ h.search "é".toList 1 .reverse = some (0, "bé".toList, 1) := by
  decide

/-! ## The history hinter (`src/hint.rs`, model `Rl/Hint.lean`, spec `Rl/Spec/Hint.lean`) -/

/-- Hinter soundness.  If `HistoryHinter::hint(line, pos, ctx)` (model `historyHint`, `idx` =
    `ctx.history_index()`) returns a hint `r`, then `line` is non-empty, the cursor is not before
    its end, and there is a stored entry `e` at an index `i` such that: `i` is at or before the
    start index (`hintStart`: `idx`, or the last entry when `idx = len`), `e` starts with `line`,
    no entry strictly between `i` and the start index (inclusive) starts with `line` (it is the
    nearest, towards older entries), `e ≠ line`, and `r` is `e` from byte `pos` on.  When the cursor
    is exactly at the end of the line (the documented use), `line ++ r` is that stored entry and
    `r ≠ []`.  No hypotheses on the history. -/
theorem C09_hinter_sound (h : MemHist) (idx : Nat) (line : Text) (pos : Nat) (r : Text)
    (hs : historyHint h idx line pos = some (some r)) :
    line ≠ [] ∧ blen line ≤ pos ∧
    ∃ i e, NearestPrefix h.entries line (hintStart h idx) i e ∧ e ≠ line ∧
      (∃ a, e = a ++ r ∧ blen a = pos) ∧
      (pos = blen line → e = line ++ r ∧ r ≠ []) := by
  rw [historyHint_unfold] at hs
  split at hs
  · simp at hs
  · rename_i hg
    have hg1 : line ≠ [] := fun hh => hg (Or.inl hh)
    have hg2 : blen line ≤ pos := by
      have : ¬ pos < blen line := fun hh => hg (Or.inr hh)
      omega
    refine ⟨hg1, hg2, ?_⟩
    split at hs
    · rename_i i e c hsw
      have hn := startsWith_nearest hsw
      split at hs
      · simp at hs
      · rename_i hne
        split at hs
        · rename_i a r' hsp
          simp at hs; subst hs
          obtain ⟨h1, h2⟩ := splitAtByte_some hsp
          refine ⟨i, e, hn, hne, ⟨a, h1, h2.symm⟩, ?_⟩
          intro hp
          subst hp
          rw [splitAtByte_prefix hn.2.2.1] at hsp
          simp at hsp
          obtain ⟨ha, hr⟩ := hsp
          subst ha
          refine ⟨h1, ?_⟩
          intro hr0
          rw [hr0] at h1; simp at h1; exact hne h1
        · simp at hs
    · simp at hs

/-- Hinter completeness (exact characterisation of "no hint").  The hinter answers `None` (without
    panicking) iff the line is empty, or the cursor is before the end of the line, or the start
    index is outside the store (empty history, or a context index beyond `len`), or no entry at or
    before the start index starts with `line`, or the nearest such entry *equals* `line` (then the
    code gives up and does not look further back for a longer entry). -/
theorem C09_hinter_none (h : MemHist) (idx : Nat) (line : Text) (pos : Nat) :
    historyHint h idx line pos = some none ↔
      (line = [] ∨ pos < blen line ∨ h.entries.length ≤ hintStart h idx ∨
       (∀ (j : Nat) (e' : Text), j ≤ hintStart h idx → h.entries[j]? = some e' → ¬ line <+: e') ∨
       (∃ i, NearestPrefix h.entries line (hintStart h idx) i line)) := by
  rw [historyHint_unfold]
  constructor
  · intro hs
    split at hs
    · rename_i hg
      rcases hg with hg | hg
      · exact Or.inl hg
      · exact Or.inr (Or.inl hg)
    · split at hs
      · rename_i i e c hsw
        have hn := startsWith_nearest hsw
        split at hs
        · rename_i he
          subst he
          exact Or.inr (Or.inr (Or.inr (Or.inr ⟨i, hn⟩)))
        · split at hs <;> simp at hs
      · rename_i hsw
        rcases (C09_starts_with_none h line _ .reverse).1 hsw with h1 | h1 | ⟨_, h1⟩
        · exact Or.inl h1
        · exact Or.inr (Or.inr (Or.inl h1))
        · exact Or.inr (Or.inr (Or.inr (Or.inl (h1 rfl))))
  · intro hc
    split
    · rfl
    · rename_i hg
      split
      · rename_i i e c hsw
        have hn := startsWith_nearest hsw
        rcases hc with h1 | h1 | h1 | h1 | ⟨i', h1⟩
        · exact absurd (Or.inl h1) hg
        · exact absurd (Or.inr h1) hg
        · have := (C09_starts_with_none h line (hintStart h idx) .reverse).2 (Or.inr h1)
          rw [this] at hsw; simp at hsw
        · exact absurd hn.2.2.1 (h1 i e hn.1 hn.2.1)
        · obtain ⟨_, he⟩ := nearestPrefix_unique hn h1
          simp [he]
      · rfl

/-- The hinter never panics when the cursor is inside the line (`pos ≤ len(line)`), for any
    history and any context index.  (With `pos > len(line)` the slice `entry[pos..]` can panic:
    see the counter-example below.) -/
theorem C09_hinter_no_panic (h : MemHist) (idx : Nat) (line : Text) (pos : Nat)
    (hp : pos ≤ blen line) : historyHint h idx line pos ≠ none := by
  rw [historyHint_unfold]
  split
  · simp
  · rename_i hg
    have hpe : pos = blen line := by
      have : ¬ pos < blen line := fun hh => hg (Or.inr hh)
      omega
    subst hpe
    split
    · rename_i i e c hsw
      have hn := startsWith_nearest hsw
      split
      · simp
      · rw [splitAtByte_prefix hn.2.2.1]; simp
    · simp

/-- Refinement: for a context index within the store (`idx ≤ len`) and the cursor inside the line,
    the hinter returns exactly what the declarative spec `Spec.hint` prescribes. -/
theorem C09_hinter_eq_spec (h : MemHist) (idx : Nat) (line : Text) (pos : Nat)
    (hidx : idx ≤ h.entries.length) (hp : pos ≤ blen line) :
    historyHint h idx line pos = some (Spec.hint h.entries idx line pos) := by
  rw [historyHint_unfold]
  unfold Spec.hint
  by_cases hg : line = [] ∨ pos < blen line
  · have hg' : line = [] ∨ pos ≠ blen line := by
      rcases hg with hg | hg
      · exact Or.inl hg
      · exact Or.inr (by omega)
    simp only [hg, hg', if_true]
  · have hg' : ¬ (line = [] ∨ pos ≠ blen line) := by
      intro hh; apply hg
      rcases hh with hh | hh
      · exact Or.inl hh
      · exact Or.inr (by omega)
    have hpe : pos = blen line := by
      have : ¬ pos < blen line := fun hh => hg (Or.inr hh)
      omega
    have hl : line ≠ [] := fun hh => hg (Or.inl hh)
    simp only [hg, hg', if_false]
    have hstart : min idx (h.entries.length - 1) = hintStart h idx := by
      unfold hintStart; split <;> omega
    rw [hstart]
    have hfind := searchMatch_eq_find false h line (hintStart h idx) .reverse
    simp only [testOf, Bool.false_eq_true, if_false] at hfind
    have hsw : h.startsWith line (hintStart h idx) .reverse
        = Spec.find false h.entries line (hintStart h idx) .reverse := hfind
    rw [hsw]
    unfold Spec.find
    simp only [Bool.false_eq_true, if_false, hl, false_or]
    by_cases hlen : hintStart h idx ≥ h.entries.length
    · have h0 : h.entries.length = 0 := by
        unfold hintStart at hlen; split at hlen <;> omega
      have hnil : h.entries = [] := List.eq_nil_of_length_eq_zero h0
      simp [hnil, Spec.nearest]
    · simp only [hlen, if_false]
      cases hn : Spec.nearest (fun e => line.isPrefixOf e) h.entries (hintStart h idx) .reverse with
      | none => rfl
      | some i =>
        simp only []
        cases hget : h.entries[i]? with
        | none => rfl
        | some e =>
          simp only []
          have hpre : line <+: e := by
            simp only [Spec.nearest] at hn
            have := List.find?_some hn
            simp [hget] at this
            exact this.2
          by_cases he : e = line
          · simp only [he, if_true]
          · simp only [he, if_false, hpe, splitAtByte_prefix hpre]

/-- Through the public API (`Context::new`, index = `len`) the hint, when the cursor is at the end
    of a non-empty line, completes the line to the newest stored entry that starts with it. -/
theorem C09_hinter_new_sound (h : MemHist) (line r : Text)
    (hs : historyHintNew h line (blen line) = some (some r)) :
    r ≠ [] ∧ ∃ i, i < h.entries.length ∧ h.entries[i]? = some (line ++ r) ∧
      ∀ (j : Nat) (e' : Text), i < j → h.entries[j]? = some e' → ¬ line <+: e' := by
  obtain ⟨_, _, i, e, hn, _, _, hp⟩ := C09_hinter_sound h _ line _ r hs
  obtain ⟨he, hr⟩ := hp rfl
  subst he
  obtain ⟨h1, h2, _, h4⟩ := hn
  have hi : i < h.entries.length := by
    rcases Nat.lt_or_ge i h.entries.length with hlt | hge
    · exact hlt
    · rw [List.getElem?_eq_none hge] at h2; simp at h2
  refine ⟨hr, i, hi, h2, ?_⟩
  intro j e' hij hj
  have hjl : j < h.entries.length := by
    rcases Nat.lt_or_ge j h.entries.length with hlt | hge
    · exact hlt
    · rw [List.getElem?_eq_none hge] at hj; simp at hj
  apply h4 j e' hij _ hj
  simp only [hintStart, if_true]; omega

/-! Non-vacuity and counter-examples for the hinter (kernel-evaluated). -/

/-- a hint is produced: history `ab`, `aéb`, `b`; line `a` -> `éb` (the newer of the two matches) -/
example :
    historyHintNew ((MemHist.new 10 false false).addAll (fun c => c == ' ')
      ["ab".toList, "aéb".toList, "b".toList]) "a".toList 1 = some (some "éb".toList) := by decide

/-- Surprising but faithful to the code: when the newest entry starting with the line IS the line,
    there is no hint, although an older entry (`abc`) would complete it. -/
theorem C09_hinter_stops_at_equal_entry :
    historyHintNew ((MemHist.new 10 false false).addAll (fun c => c == ' ')
      ["abc".toList, "ab".toList]) "ab".toList 2 = some none := by decide

/-- `pos ≤ len(line)` is needed for `C09_hinter_no_panic`: with the cursor past the end of the line
    the slice panics (entry `ab`, line `a`, pos 3) — also when `pos` falls inside a character
    (entry `aé`, pos 2) — and at `pos = 2` an EMPTY hint `Some("")` is returned. -/
theorem C09_hinter_panics_past_end :
    historyHintNew ((MemHist.new 10 false false).addAll (fun c => c == ' ') ["ab".toList]) "a".toList 3 = none ∧
    historyHintNew ((MemHist.new 10 false false).addAll (fun c => c == ' ') ["aé".toList]) "a".toList 2 = none ∧
    historyHintNew ((MemHist.new 10 false false).addAll (fun c => c == ' ') ["ab".toList]) "a".toList 2 = some (some []) := by
  decide

/-- One `add` on the model is the declarative `add` step on the abstract state. -/
theorem C09_add_abs (ws : Char → Bool) (h : MemHist) (hi : h.entries.length ≤ h.maxLen) (l : Text) :
    (Spec.step ws (C09_abs h) (.add l)).1 = C09_abs (h.add ws l).1 := by
  have := C09_run_eq_spec ws h hi [.add l, .dump]
  simp only [MemHist.run, Spec.run, MemHist.step, Spec.step] at this
  have hm : (h.add ws l).1.maxLen = h.maxLen ∧ (h.add ws l).1.ignoreSpace = h.ignoreSpace ∧
      (h.add ws l).1.ignoreDups = h.ignoreDups := by
    unfold MemHist.add; split <;> simp [MemHist.insert]
  by_cases hr : Spec.refused ws (C09_abs h) l = true
  · simp only [Spec.step, hr, if_true] at this ⊢
    simp at this
    have h2 : (h.add ws l).1.entries = h.entries := this.2
    simp only [C09_abs, hm.1, hm.2.1, hm.2.2, h2]
  · simp only [Spec.step, hr] at this ⊢
    simp at this
    have h2 : (h.add ws l).1.entries = Spec.takeLast h.maxLen (h.entries ++ [l]) := this.2
    simp [C09_abs, hm.1, hm.2.1, hm.2.2, h2]

/-- The history the harness builds (`add` for every entry of the request, in order) has, on the
    model, the entries the declarative store spec prescribes, and keeps the size bound. -/
theorem C09_addAll_abs (ws : Char → Bool) (h : MemHist) (hi : h.entries.length ≤ h.maxLen) (ls : List Text) :
    C09_abs (h.addAll ws ls) = Spec.addAll ws (C09_abs h) ls ∧
      (h.addAll ws ls).entries.length ≤ (h.addAll ws ls).maxLen := by
  induction ls generalizing h with
  | nil => exact ⟨rfl, hi⟩
  | cons l ls ih =>
    have hi' : (h.add ws l).1.entries.length ≤ (h.add ws l).1.maxLen := step_inv ws hi (.add l)
    simp only [MemHist.addAll, Spec.addAll]
    rw [C09_add_abs ws h hi l]
    exact ih _ hi'

/-- End-to-end statement of what the `hint` correspondence target compares: a fresh history filled
    with `add`, `Context::new`, cursor inside the line — the hinter model returns what the
    declarative hint spec prescribes over the declarative store. -/
theorem C09_hinter_pipeline (ws : Char → Bool) (m : Nat) (isp idp : Bool) (es : List Text)
    (line : Text) (pos : Nat) (hp : pos ≤ blen line) :
    historyHintNew ((MemHist.new m isp idp).addAll ws es) line pos =
      some (Spec.hint (Spec.addAll ws { max := m, ignoreSpace := isp, ignoreDups := idp } es).entries
        (Spec.addAll ws { max := m, ignoreSpace := isp, ignoreDups := idp } es).entries.length line pos) := by
  have h0 : (MemHist.new m isp idp).entries.length ≤ (MemHist.new m isp idp).maxLen := by simp [MemHist.new]
  obtain ⟨ha, _⟩ := C09_addAll_abs ws (MemHist.new m isp idp) h0 es
  have he : (Spec.addAll ws { max := m, ignoreSpace := isp, ignoreDups := idp } es).entries
      = ((MemHist.new m isp idp).addAll ws es).entries := by
    have : C09_abs (MemHist.new m isp idp) = { max := m, ignoreSpace := isp, ignoreDups := idp } := rfl
    rw [← this, ← ha]; rfl
  rw [he]
  exact C09_hinter_eq_spec _ _ line pos (Nat.le_refl _) hp
