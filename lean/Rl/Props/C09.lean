/-
  Property C09 — history store: newest entries, in order, within bound; searches are truthful.
  Only property theorems and non-vacuity examples live here; helper lemmas are in
  Rl/Lemmas/History.lean.  Model: Rl/History.lean (transliteration of src/history.rs).
  Spec: Rl/Spec/History.lean (written from the property text).
-/
import Rl.History
import Rl.Spec.History
import Rl.Lemmas.History
import Rl.Hint
import Rl.Spec.Hint
import Rl.Lemmas.Hint
import Rl.Lemmas.HistoryLog
open Rl Rl.MemHist

/-- abstraction map: model state ↦ spec state -/
def C09_abs (h : MemHist) : Spec.HState :=
  { entries := h.entries, max := h.maxLen, ignoreSpace := h.ignoreSpace, ignoreDups := h.ignoreDups }

/-- The size bound holds after any sequence of public operations from a fresh history
    (the eviction in `insert` tests `len == max_len`, so this invariant is what makes it work). -/
theorem C09_len_le_max (ws : Char → Bool) (m : Nat) (isp idp : Bool) (ops : List HOp) :
    (MemHist.run ws (MemHist.new m isp idp) ops).1.entries.length
      ≤ (MemHist.run ws (MemHist.new m isp idp) ops).1.maxLen :=
  run_inv ws (by simp [HInv, MemHist.new]) ops

/-- `add` reports acceptance truthfully: a line is refused iff it is empty, the limit is zero,
    it starts with a blank while ignore-space is on, or it equals the newest entry while
    ignore-duplicates is on. -/
theorem C09_add_iff (ws : Char → Bool) (h : MemHist) (l : Text) :
    (h.add ws l).2 = false ↔
      (l = [] ∨ h.maxLen = 0 ∨ (h.ignoreSpace = true ∧ ∃ c t, l = c :: t ∧ ws c = true)
        ∨ (h.ignoreDups = true ∧ h.entries.getLast? = some l)) := by
  unfold MemHist.add MemHist.ignore
  cases l with
  | nil => simp
  | cons c t =>
    by_cases hm : h.maxLen = 0
    · simp [hm]
    · cases hsp : h.ignoreSpace <;> cases hd : h.ignoreDups <;> simp [hm]
      · cases hl : h.entries.getLast? <;> simp
        split <;> simp_all
      · cases hw : ws c <;> simp
      · cases hw : ws c <;> simp
        cases hl : h.entries.getLast? <;> simp
        split <;> simp_all

/-- An accepted line becomes the newest entry and the store is cut from the old end. -/
theorem C09_add_accepted (ws : Char → Bool) (h : MemHist) (l : Text)
    (hi : h.entries.length ≤ h.maxLen) (ha : (h.add ws l).2 = true) :
    (h.add ws l).1.entries = Spec.takeLast h.maxLen (h.entries ++ [l]) := by
  unfold MemHist.add at *
  split at ha
  · simp at ha
  · rename_i hig
    have hm : h.maxLen ≠ 0 := fun hm => hig (ignore_of_max_zero ws h l hm)
    simp only [MemHist.insert, Spec.takeLast]
    by_cases he : h.entries.length = h.maxLen
    · have hb : (h.entries.length == h.maxLen) = true := by simp [he]
      simp only [hb, if_true, List.length_append, List.length_singleton]
      have : h.entries.length + 1 - h.maxLen = 1 := by omega
      rw [this]
      cases hes : h.entries with
      | nil => simp [hes] at he; omega
      | cons x xs => simp [hig]
    · have hb : (h.entries.length == h.maxLen) = false := by simp [he]
      simp only [hb, List.length_append, List.length_singleton]
      have : h.entries.length + 1 - h.maxLen = 0 := by omega
      rw [this]; simp [hig]

/-- Every observable of every operation sequence is the one the declarative spec prescribes
    (entries oldest first = accepted lines cut to the limit; `get`; `len`; both searches). -/
theorem C09_run_eq_spec (ws : Char → Bool) (h : MemHist) (hi : h.entries.length ≤ h.maxLen)
    (ops : List HOp) :
    (MemHist.run ws h ops).2 = (Spec.run ws (C09_abs h) ops).2 := by
  induction ops generalizing h with
  | nil => rfl
  | cons op ops ih =>
    have hstep : (Spec.step ws (C09_abs h) op) = (C09_abs (h.step ws op).1, (h.step ws op).2) := by
      have hadd : ∀ l, Spec.step ws (C09_abs h) (.add l) = (C09_abs (h.add ws l).1, .bool (h.add ws l).2) := by
        intro l
        have hr : Spec.refused ws (C09_abs h) l = h.ignore ws l := by
          unfold Spec.refused MemHist.ignore C09_abs
          cases l with
          | nil => simp
          | cons c t =>
            by_cases hm : h.maxLen = 0
            · simp [hm]
            · cases hsp : h.ignoreSpace <;> cases hd : h.ignoreDups <;> simp [hm]
              · cases hl : h.entries.getLast? <;> simp [eq_comm]
                rename_i v; by_cases hv : v = c :: t <;> simp [hv]
              · cases hw : ws c <;> simp
                cases hl : h.entries.getLast? <;> simp [eq_comm]
                rename_i v; by_cases hv : v = c :: t <;> simp [hv]
        simp only [Spec.step, hr]
        cases hg : h.ignore ws l
        · have ha : (h.add ws l).2 = true := by simp [MemHist.add, hg]
          have := C09_add_accepted ws h l hi ha
          have hadd' : h.add ws l = (h.insert l, true) := by simp [MemHist.add, hg]
          rw [hadd'] at this ⊢
          simp only [Bool.false_eq_true, if_false]
          simp only [C09_abs]
          simp only at this
          rw [← this]
          rfl
        · simp [MemHist.add, hg]
      cases op with
      | add l => simpa [MemHist.step] using hadd l
      | addOwned l => simpa [MemHist.step, Spec.step] using hadd l
      | setMax n =>
        simp only [Spec.step, MemHist.step, MemHist.setMaxLen, C09_abs, Spec.takeLast]
        split
        · rfl
        · rename_i hle
          simp at hle
          have : h.entries.length - n = 0 := by omega
          simp [this]
      | dups b => rfl
      | space b => rfl
      | clear => rfl
      | get i => rfl
      | len => rfl
      | dump => rfl
      | search t s d =>
        simp only [Spec.step, MemHist.step, MemHist.search]
        have := searchMatch_eq_find true h t s d
        simp only [testOf, if_true] at this
        simp only [C09_abs]
        rw [this]
      | startsWith t s d =>
        simp only [Spec.step, MemHist.step, MemHist.startsWith]
        have := searchMatch_eq_find false h t s d
        simp only [testOf, Bool.false_eq_true, if_false] at this
        simp only [C09_abs]
        rw [this]
    simp only [MemHist.run, Spec.run, hstep]
    rw [ih (h.step ws op).1 (step_inv ws hi op)]

/-- Indexing returns the i-th oldest entry. -/
theorem C09_index (h : MemHist) (i : Nat) : h.get i = h.entries[i]? := rfl

/-- Substring search is truthful: a reported hit is a stored entry that really contains the text
    at the reported byte offset (its first occurrence), on the requested side of `start`
    (inclusive), and no nearer entry in that direction contains the text. -/
theorem C09_search_sound (h : MemHist) (t : Text) (s : Nat) (d : Dir) (i : Nat) (e : Text) (off : Nat)
    (hs : h.search t s d = some (i, e, off)) :
    h.entries[i]? = some e ∧ OccursAt t e off ∧ (∀ o, OccursAt t e o → off ≤ o) ∧
    (d = .forward → s ≤ i ∧ ∀ (j : Nat) (e' : Text), s ≤ j → j < i → h.entries[j]? = some e' → ∀ o, ¬ OccursAt t e' o) ∧
    (d = .reverse → i ≤ s ∧ ∀ (j : Nat) (e' : Text), i < j → j ≤ s → h.entries[j]? = some e' → ∀ o, ¬ OccursAt t e' o) := by
  obtain ⟨_, _, hget, htest, hf, hr⟩ := searchMatch_some hs
  obtain ⟨ho, hmin⟩ := findSub_some htest
  refine ⟨hget, ho, hmin, ?_, ?_⟩
  · intro hd
    obtain ⟨h1, h2⟩ := hf hd
    exact ⟨h1, fun j e' hj1 hj2 he' => findSub_none (h2 j e' ⟨hj1, hj2⟩ he')⟩
  · intro hd
    obtain ⟨h1, h2⟩ := hr hd
    exact ⟨h1, fun j e' hj1 hj2 he' => findSub_none (h2 j e' ⟨hj1, hj2⟩ he')⟩

/-- Substring search is complete: `none` only if the text is empty, the start is out of range,
    or no entry on the requested side contains it; and it *is* `none` in the first two cases. -/
theorem C09_search_none (h : MemHist) (t : Text) (s : Nat) (d : Dir) :
    (h.search t s d = none →
      t = [] ∨ h.entries.length ≤ s ∨
      ((d = .forward → ∀ (j : Nat) (e' : Text), s ≤ j → h.entries[j]? = some e' → ∀ o, ¬ OccursAt t e' o) ∧
       (d = .reverse → ∀ (j : Nat) (e' : Text), j ≤ s → h.entries[j]? = some e' → ∀ o, ¬ OccursAt t e' o))) ∧
    (t = [] ∨ h.entries.length ≤ s → h.search t s d = none) := by
  refine ⟨?_, fun hg => searchMatch_guard hg⟩
  intro hs
  rcases searchMatch_none hs with h1 | h1 | ⟨hf, hr⟩
  · exact Or.inl h1
  · exact Or.inr (Or.inl h1)
  · refine Or.inr (Or.inr ⟨?_, ?_⟩)
    · intro hd j e' hj he'; exact findSub_none (hf hd j e' hj he')
    · intro hd j e' hj he'; exact findSub_none (hr hd j e' hj he')

/-- Prefix search is truthful and nearest; the offset is the length of the text. -/
theorem C09_starts_with_sound (h : MemHist) (t : Text) (s : Nat) (d : Dir) (i : Nat) (e : Text) (off : Nat)
    (hs : h.startsWith t s d = some (i, e, off)) :
    h.entries[i]? = some e ∧ t <+: e ∧ off = blen t ∧
    (d = .forward → s ≤ i ∧ ∀ (j : Nat) (e' : Text), s ≤ j → j < i → h.entries[j]? = some e' → ¬ t <+: e') ∧
    (d = .reverse → i ≤ s ∧ ∀ (j : Nat) (e' : Text), i < j → j ≤ s → h.entries[j]? = some e' → ¬ t <+: e') := by
  obtain ⟨_, _, hget, htest, hf, hr⟩ := searchMatch_some hs
  have key : ∀ e' : Text, (if t.isPrefixOf e' = true then some (blen t) else none) = none → ¬ t <+: e' := by
    intro e' h1 h2
    rw [← List.isPrefixOf_iff_prefix] at h2
    simp [h2] at h1
  split at htest
  · rename_i hp
    simp at htest
    refine ⟨hget, List.isPrefixOf_iff_prefix.mp hp, htest.symm, ?_, ?_⟩
    · intro hd
      obtain ⟨h1, h2⟩ := hf hd
      exact ⟨h1, fun j e' hj1 hj2 he' => key e' (h2 j e' ⟨hj1, hj2⟩ he')⟩
    · intro hd
      obtain ⟨h1, h2⟩ := hr hd
      exact ⟨h1, fun j e' hj1 hj2 he' => key e' (h2 j e' ⟨hj1, hj2⟩ he')⟩
  · simp at htest

theorem C09_starts_with_none (h : MemHist) (t : Text) (s : Nat) (d : Dir) :
    (h.startsWith t s d = none →
      t = [] ∨ h.entries.length ≤ s ∨
      ((d = .forward → ∀ (j : Nat) (e' : Text), s ≤ j → h.entries[j]? = some e' → ¬ t <+: e') ∧
       (d = .reverse → ∀ (j : Nat) (e' : Text), j ≤ s → h.entries[j]? = some e' → ¬ t <+: e'))) ∧
    (t = [] ∨ h.entries.length ≤ s → h.startsWith t s d = none) := by
  refine ⟨?_, fun hg => searchMatch_guard hg⟩
  intro hs
  have key : ∀ e' : Text, (if t.isPrefixOf e' = true then some (blen t) else none) = none → ¬ t <+: e' := by
    intro e' h1 h2
    rw [← List.isPrefixOf_iff_prefix] at h2
    simp [h2] at h1
  rcases searchMatch_none hs with h1 | h1 | ⟨hf, hr⟩
  · exact Or.inl h1
  · exact Or.inr (Or.inl h1)
  · refine Or.inr (Or.inr ⟨?_, ?_⟩)
    · intro hd j e' hj he'; exact key e' (hf hd j e' hj he')
    · intro hd j e' hj he'; exact key e' (hr hd j e' hj he')

/-- `FileHistory`'s unsaved-entries counter never exceeds the store. -/
theorem C09_new_entries_le (ws : Char → Bool) (f : FileHist) (l : Text)
    (h : f.newEntries ≤ f.mem.entries.length) :
    (f.add ws l).1.newEntries ≤ (f.add ws l).1.mem.entries.length := by
  unfold FileHist.add
  cases hm : f.mem.add ws l with
  | mk m ok =>
    cases ok
    · simpa using h
    · simp; omega

/-! Non-vacuity: concrete, non-trivial instances (kernel-evaluated). -/
example :
    let h := (MemHist.run (fun c => c == ' ') (MemHist.new 2 true true)
      [.add "a".toList, .add "a".toList, .add " x".toList, .add "bé".toList, .add "c".toList]).1
    h.entries = ["bé".toList, "c".toList] ∧ h.search "é".toList 1 .reverse = some (0, "bé".toList, 1) := by
  decide

/-! ## The history hinter (`src/hint.rs`, model `Rl/Hint.lean`, spec `Rl/Spec/Hint.lean`) -/

/-- Hinter soundness.  If `HistoryHinter::hint(line, pos, ctx)` (model `historyHint`, `idx` =
    `ctx.history_index()`) returns a hint `r`, then `line` is non-empty, the cursor is not before
    its end, and there is a stored entry `e` at an index `i` such that: `i` is at or before the
    start index (`hintStart`: `idx`, or the last entry when `idx = len`), `e` starts with `line`,
    no entry strictly between `i` and the start index (inclusive) starts with `line` (it is the
    nearest, towards older entries), `e ≠ line`, and `r` is `e` from byte `pos` on.  When the cursor
    is exactly at the end of the line (the documented use), `line ++ r` is that stored entry and
    `r ≠ []`.  No hypotheses on the history. -/
theorem C09_hinter_sound (h : MemHist) (idx : Nat) (line : Text) (pos : Nat) (r : Text)
    (hs : historyHint h idx line pos = some (some r)) :
    line ≠ [] ∧ blen line ≤ pos ∧
    ∃ i e, NearestPrefix h.entries line (hintStart h idx) i e ∧ e ≠ line ∧
      (∃ a, e = a ++ r ∧ blen a = pos) ∧
      (pos = blen line → e = line ++ r ∧ r ≠ []) := by
  rw [historyHint_unfold] at hs
  split at hs
  · simp at hs
  · rename_i hg
    have hg1 : line ≠ [] := fun hh => hg (Or.inl hh)
    have hg2 : blen line ≤ pos := by
      have : ¬ pos < blen line := fun hh => hg (Or.inr hh)
      omega
    refine ⟨hg1, hg2, ?_⟩
    split at hs
    · rename_i i e c hsw
      have hn := startsWith_nearest hsw
      split at hs
      · simp at hs
      · rename_i hne
        split at hs
        · rename_i a r' hsp
          simp at hs; subst hs
          obtain ⟨h1, h2⟩ := splitAtByte_some hsp
          refine ⟨i, e, hn, hne, ⟨a, h1, h2.symm⟩, ?_⟩
          intro hp
          subst hp
          rw [splitAtByte_prefix hn.2.2.1] at hsp
          simp at hsp
          obtain ⟨ha, hr⟩ := hsp
          subst ha
          refine ⟨h1, ?_⟩
          intro hr0
          rw [hr0] at h1; simp at h1; exact hne h1
        · simp at hs
    · simp at hs

/-- Hinter completeness (exact characterisation of "no hint").  The hinter answers `None` (without
    panicking) iff the line is empty, or the cursor is before the end of the line, or the start
    index is outside the store (empty history, or a context index beyond `len`), or no entry at or
    before the start index starts with `line`, or the nearest such entry *equals* `line` (then the
    code gives up and does not look further back for a longer entry). -/
theorem C09_hinter_none (h : MemHist) (idx : Nat) (line : Text) (pos : Nat) :
    historyHint h idx line pos = some none ↔
      (line = [] ∨ pos < blen line ∨ h.entries.length ≤ hintStart h idx ∨
       (∀ (j : Nat) (e' : Text), j ≤ hintStart h idx → h.entries[j]? = some e' → ¬ line <+: e') ∨
       (∃ i, NearestPrefix h.entries line (hintStart h idx) i line)) := by
  rw [historyHint_unfold]
  constructor
  · intro hs
    split at hs
    · rename_i hg
      rcases hg with hg | hg
      · exact Or.inl hg
      · exact Or.inr (Or.inl hg)
    · split at hs
      · rename_i i e c hsw
        have hn := startsWith_nearest hsw
        split at hs
        · rename_i he
          subst he
          exact Or.inr (Or.inr (Or.inr (Or.inr ⟨i, hn⟩)))
        · split at hs <;> simp at hs
      · rename_i hsw
        rcases (C09_starts_with_none h line _ .reverse).1 hsw with h1 | h1 | ⟨_, h1⟩
        · exact Or.inl h1
        · exact Or.inr (Or.inr (Or.inl h1))
        · exact Or.inr (Or.inr (Or.inr (Or.inl (h1 rfl))))
  · intro hc
    split
    · rfl
    · rename_i hg
      split
      · rename_i i e c hsw
        have hn := startsWith_nearest hsw
        rcases hc with h1 | h1 | h1 | h1 | ⟨i', h1⟩
        · exact absurd (Or.inl h1) hg
        · exact absurd (Or.inr h1) hg
        · have := (C09_starts_with_none h line (hintStart h idx) .reverse).2 (Or.inr h1)
          rw [this] at hsw; simp at hsw
        · exact absurd hn.2.2.1 (h1 i e hn.1 hn.2.1)
        · obtain ⟨_, he⟩ := nearestPrefix_unique hn h1
          simp [he]
      · rfl

/-- The hinter never panics when the cursor is inside the line (`pos ≤ len(line)`), for any
    history and any context index.  (With `pos > len(line)` the slice `entry[pos..]` can panic:
    see the counter-example below.) -/
theorem C09_hinter_no_panic (h : MemHist) (idx : Nat) (line : Text) (pos : Nat)
    (hp : pos ≤ blen line) : historyHint h idx line pos ≠ none := by
  rw [historyHint_unfold]
  split
  · simp
  · rename_i hg
    have hpe : pos = blen line := by
      have : ¬ pos < blen line := fun hh => hg (Or.inr hh)
      omega
    subst hpe
    split
    · rename_i i e c hsw
      have hn := startsWith_nearest hsw
      split
      · simp
      · rw [splitAtByte_prefix hn.2.2.1]; simp
    · simp

/-- Refinement: for a context index within the store (`idx ≤ len`) and the cursor inside the line,
    the hinter returns exactly what the declarative spec `Spec.hint` prescribes. -/
theorem C09_hinter_eq_spec (h : MemHist) (idx : Nat) (line : Text) (pos : Nat)
    (hidx : idx ≤ h.entries.length) (hp : pos ≤ blen line) :
    historyHint h idx line pos = some (Spec.hint h.entries idx line pos) := by
  rw [historyHint_unfold]
  unfold Spec.hint
  by_cases hg : line = [] ∨ pos < blen line
  · have hg' : line = [] ∨ pos ≠ blen line := by
      rcases hg with hg | hg
      · exact Or.inl hg
      · exact Or.inr (by omega)
    simp only [hg, hg', if_true]
  · have hg' : ¬ (line = [] ∨ pos ≠ blen line) := by
      intro hh; apply hg
      rcases hh with hh | hh
      · exact Or.inl hh
      · exact Or.inr (by omega)
    have hpe : pos = blen line := by
      have : ¬ pos < blen line := fun hh => hg (Or.inr hh)
      omega
    have hl : line ≠ [] := fun hh => hg (Or.inl hh)
    simp only [hg, hg', if_false]
    have hstart : min idx (h.entries.length - 1) = hintStart h idx := by
      unfold hintStart; split <;> omega
    rw [hstart]
    have hfind := searchMatch_eq_find false h line (hintStart h idx) .reverse
    simp only [testOf, Bool.false_eq_true, if_false] at hfind
    have hsw : h.startsWith line (hintStart h idx) .reverse
        = Spec.find false h.entries line (hintStart h idx) .reverse := hfind
    rw [hsw]
    unfold Spec.find
    simp only [Bool.false_eq_true, if_false, hl, false_or]
    by_cases hlen : hintStart h idx ≥ h.entries.length
    · have h0 : h.entries.length = 0 := by
        unfold hintStart at hlen; split at hlen <;> omega
      have hnil : h.entries = [] := List.eq_nil_of_length_eq_zero h0
      simp [hnil, Spec.nearest]
    · simp only [hlen, if_false]
      cases hn : Spec.nearest (fun e => line.isPrefixOf e) h.entries (hintStart h idx) .reverse with
      | none => rfl
      | some i =>
        simp only []
        cases hget : h.entries[i]? with
        | none => rfl
        | some e =>
          simp only []
          have hpre : line <+: e := by
            simp only [Spec.nearest] at hn
            have := List.find?_some hn
            simp [hget] at this
            exact this.2
          by_cases he : e = line
          · simp only [he, if_true]
          · simp only [he, if_false, hpe, splitAtByte_prefix hpre]

/-- Through the public API (`Context::new`, index = `len`) the hint, when the cursor is at the end
    of a non-empty line, completes the line to the newest stored entry that starts with it. -/
theorem C09_hinter_new_sound (h : MemHist) (line r : Text)
    (hs : historyHintNew h line (blen line) = some (some r)) :
    r ≠ [] ∧ ∃ i, i < h.entries.length ∧ h.entries[i]? = some (line ++ r) ∧
      ∀ (j : Nat) (e' : Text), i < j → h.entries[j]? = some e' → ¬ line <+: e' := by
  obtain ⟨_, _, i, e, hn, _, _, hp⟩ := C09_hinter_sound h _ line _ r hs
  obtain ⟨he, hr⟩ := hp rfl
  subst he
  obtain ⟨h1, h2, _, h4⟩ := hn
  have hi : i < h.entries.length := by
    rcases Nat.lt_or_ge i h.entries.length with hlt | hge
    · exact hlt
    · rw [List.getElem?_eq_none hge] at h2; simp at h2
  refine ⟨hr, i, hi, h2, ?_⟩
  intro j e' hij hj
  have hjl : j < h.entries.length := by
    rcases Nat.lt_or_ge j h.entries.length with hlt | hge
    · exact hlt
    · rw [List.getElem?_eq_none hge] at hj; simp at hj
  apply h4 j e' hij _ hj
  simp only [hintStart, if_true]; omega

/-! Non-vacuity and counter-examples for the hinter (kernel-evaluated). -/

/-- a hint is produced: history `ab`, `aéb`, `b`; line `a` -> `éb` (the newer of the two matches) -/
example :
    historyHintNew ((MemHist.new 10 false false).addAll (fun c => c == ' ')
      ["ab".toList, "aéb".toList, "b".toList]) "a".toList 1 = some (some "éb".toList) := by decide

/-- Surprising but faithful to the code: when the newest entry starting with the line IS the line,
    there is no hint, although an older entry (`abc`) would complete it. -/
theorem C09_hinter_stops_at_equal_entry :
    historyHintNew ((MemHist.new 10 false false).addAll (fun c => c == ' ')
      ["abc".toList, "ab".toList]) "ab".toList 2 = some none := by decide

/-- `pos ≤ len(line)` is needed for `C09_hinter_no_panic`: with the cursor past the end of the line
    the slice panics (entry `ab`, line `a`, pos 3) — also when `pos` falls inside a character
    (entry `aé`, pos 2) — and at `pos = 2` an EMPTY hint `Some("")` is returned. -/
theorem C09_hinter_panics_past_end :
    historyHintNew ((MemHist.new 10 false false).addAll (fun c => c == ' ') ["ab".toList]) "a".toList 3 = none ∧
    historyHintNew ((MemHist.new 10 false false).addAll (fun c => c == ' ') ["aé".toList]) "a".toList 2 = none ∧
    historyHintNew ((MemHist.new 10 false false).addAll (fun c => c == ' ') ["ab".toList]) "a".toList 2 = some (some []) := by
  decide

/-- One `add` on the model is the declarative `add` step on the abstract state. -/
theorem C09_add_abs (ws : Char → Bool) (h : MemHist) (hi : h.entries.length ≤ h.maxLen) (l : Text) :
    (Spec.step ws (C09_abs h) (.add l)).1 = C09_abs (h.add ws l).1 := by
  have := C09_run_eq_spec ws h hi [.add l, .dump]
  simp only [MemHist.run, Spec.run, MemHist.step, Spec.step] at this
  have hm : (h.add ws l).1.maxLen = h.maxLen ∧ (h.add ws l).1.ignoreSpace = h.ignoreSpace ∧
      (h.add ws l).1.ignoreDups = h.ignoreDups := by
    unfold MemHist.add; split <;> simp [MemHist.insert]
  by_cases hr : Spec.refused ws (C09_abs h) l = true
  · simp only [Spec.step, hr, if_true] at this ⊢
    simp at this
    have h2 : (h.add ws l).1.entries = h.entries := this.2
    simp only [C09_abs, hm.1, hm.2.1, hm.2.2, h2]
  · simp only [Spec.step, hr] at this ⊢
    simp at this
    have h2 : (h.add ws l).1.entries = Spec.takeLast h.maxLen (h.entries ++ [l]) := this.2
    simp [C09_abs, hm.1, hm.2.1, hm.2.2, h2]

/-- The history the harness builds (`add` for every entry of the request, in order) has, on the
    model, the entries the declarative store spec prescribes, and keeps the size bound. -/
theorem C09_addAll_abs (ws : Char → Bool) (h : MemHist) (hi : h.entries.length ≤ h.maxLen) (ls : List Text) :
    C09_abs (h.addAll ws ls) = Spec.addAll ws (C09_abs h) ls ∧
      (h.addAll ws ls).entries.length ≤ (h.addAll ws ls).maxLen := by
  induction ls generalizing h with
  | nil => exact ⟨rfl, hi⟩
  | cons l ls ih =>
    have hi' : (h.add ws l).1.entries.length ≤ (h.add ws l).1.maxLen := step_inv ws hi (.add l)
    simp only [MemHist.addAll, Spec.addAll]
    rw [C09_add_abs ws h hi l]
    exact ih _ hi'

/-- End-to-end statement of what the `hint` correspondence target compares: a fresh history filled
    with `add`, `Context::new`, cursor inside the line — the hinter model returns what the
    declarative hint spec prescribes over the declarative store. -/
theorem C09_hinter_pipeline (ws : Char → Bool) (m : Nat) (isp idp : Bool) (es : List Text)
    (line : Text) (pos : Nat) (hp : pos ≤ blen line) :
    historyHintNew ((MemHist.new m isp idp).addAll ws es) line pos =
      some (Spec.hint (Spec.addAll ws { max := m, ignoreSpace := isp, ignoreDups := idp } es).entries
        (Spec.addAll ws { max := m, ignoreSpace := isp, ignoreDups := idp } es).entries.length line pos) := by
  have h0 : (MemHist.new m isp idp).entries.length ≤ (MemHist.new m isp idp).maxLen := by simp [MemHist.new]
  obtain ⟨ha, _⟩ := C09_addAll_abs ws (MemHist.new m isp idp) h0 es
  have he : (Spec.addAll ws { max := m, ignoreSpace := isp, ignoreDups := idp } es).entries
      = ((MemHist.new m isp idp).addAll ws es).entries := by
    have : C09_abs (MemHist.new m isp idp) = { max := m, ignoreSpace := isp, ignoreDups := idp } := rfl
    rw [← this, ← ha]; rfl
  rw [he]
  exact C09_hinter_eq_spec _ _ line pos (Nat.le_refl _) hp

/-! ## Gap filling (package A9): the store against the log of accepted lines, for arbitrary
    operation sequences; `set_max_len` alone; search completeness. -/

/-- The log of accepted lines of an operation sequence run on the model from `h`: the lines for
    which `add` / `add_owned` answered `true` since the last `clear`, oldest first, appended to
    `acc` (`Rl.accLog`; which lines are answered `true` is exactly characterised by `C09_add_iff`,
    with the Unicode white-space predicate `ws` applied to the first CHARACTER of the line). -/
def C09_accepted (ws : Char → Bool) (h : MemHist) (acc : List Text) (ops : List HOp) : List Text :=
  accLog ws h acc ops

/-- For EVERY operation sequence (add, add_owned, set_max_len raised or lowered, ignore_dups,
    ignore_space, clear, queries) from ANY store `h`, the final entries are a contiguous newest
    block (a list suffix) of "the entries of `h` followed by the lines accepted since, restarting at
    `clear`": nothing refused is ever stored, nothing is reordered or duplicated, and an older
    line is never kept while a newer accepted one is dropped.  No hypotheses. -/
theorem C09_entries_suffix_of_accepted (ws : Char → Bool) (h : MemHist) (ops : List HOp) :
    (MemHist.run ws h ops).1.entries <:+ C09_accepted ws h h.entries ops :=
  run_suffix ws (List.suffix_refl _) ops

/-- The same from a fresh history: the store is always a newest block of the accepted lines. -/
theorem C09_fresh_entries_suffix_of_accepted (ws : Char → Bool) (m : Nat) (isp idp : Bool)
    (ops : List HOp) :
    (MemHist.run ws (MemHist.new m isp idp) ops).1.entries
      <:+ C09_accepted ws (MemHist.new m isp idp) [] ops :=
  run_suffix ws (List.suffix_refl _) ops

/-- Exact content.  From any store within its bound, for every operation sequence in which no
    `set_max_len` RAISES the limit above its current value (lowering, flag changes, `clear`, adds
    and queries are unrestricted), the final entries are exactly the newest `max_len` (final limit)
    lines of "old entries followed by the accepted lines, restarting at `clear`", oldest first.
    In particular lowering the limit in the middle of a sequence drops exactly the oldest lines. -/
theorem C09_entries_eq_window (ws : Char → Bool) (h : MemHist) (hi : h.entries.length ≤ h.maxLen)
    (ops : List HOp) (hnr : nonRaising h.maxLen ops) :
    (MemHist.run ws h ops).1.entries
      = Spec.takeLast (MemHist.run ws h ops).1.maxLen (C09_accepted ws h h.entries ops) := by
  have hw : Win h h.entries := by
    simp only [Win, Spec.takeLast]
    have : h.entries.length - h.maxLen = 0 := by omega
    simp [this]
  exact run_win ws hw ops hnr

/-- From a fresh history (limit `m`), with the limit never raised: the store is exactly the newest
    `max_len` accepted lines since the last `clear`. -/
theorem C09_fresh_entries_eq_window (ws : Char → Bool) (m : Nat) (isp idp : Bool)
    (ops : List HOp) (hnr : nonRaising m ops) :
    (MemHist.run ws (MemHist.new m isp idp) ops).1.entries
      = Spec.takeLast (MemHist.run ws (MemHist.new m isp idp) ops).1.maxLen
          (C09_accepted ws (MemHist.new m isp idp) [] ops) :=
  C09_entries_eq_window ws (MemHist.new m isp idp) (by simp [MemHist.new]) ops hnr

/-- non-vacuity of `C09_entries_eq_window`: limit 3 lowered to 2, a duplicate and a blank-first
    line refused, a multi-byte line accepted. -/
example :
    nonRaising 3 [.add "a".toList, .add "a".toList, .add "\u3000x".toList, .setMax 2, .add "bé".toList, .addOwned "c".toList] ∧
    C09_accepted (fun c => c == '\u3000') (MemHist.new 3 true true) []
      [.add "a".toList, .add "a".toList, .add "\u3000x".toList, .setMax 2, .add "bé".toList, .addOwned "c".toList]
      = ["a".toList, "bé".toList, "c".toList] := by
  refine ⟨by simp [nonRaising], by decide⟩

/-- The "never raised" hypothesis of `C09_entries_eq_window` is necessary (and this is the intended
    behaviour, not a defect): lines dropped by lowering the limit do not come back when it is raised
    again, so after lower-then-raise the store is a newest block of the accepted lines
    (`C09_entries_suffix_of_accepted`) that is SHORTER than the limit allows. -/
theorem C09_raise_does_not_restore :
    let ops : List HOp := [.add "a".toList, .add "b".toList, .setMax 1, .setMax 5, .add "c".toList]
    (MemHist.run (fun c => c == ' ') (MemHist.new 5 false false) ops).1.entries = ["b".toList, "c".toList] ∧
    C09_accepted (fun c => c == ' ') (MemHist.new 5 false false) [] ops = ["a".toList, "b".toList, "c".toList] := by
  decide

/-- `set_max_len n` on ANY store (no hypothesis): the limit becomes `n`, the flags are unchanged,
    the entries become exactly the newest `n` old entries (the oldest `len - n` are dropped, nothing
    else), the new length is `min len n`, and the new i-th entry is the old `(i + (len - n))`-th. -/
theorem C09_set_max_len (h : MemHist) (n : Nat) :
    (h.setMaxLen n).maxLen = n ∧ (h.setMaxLen n).ignoreSpace = h.ignoreSpace ∧
    (h.setMaxLen n).ignoreDups = h.ignoreDups ∧
    (h.setMaxLen n).entries = h.entries.drop (h.entries.length - n) ∧
    (h.setMaxLen n).entries.length = min h.entries.length n ∧
    ∀ i, (h.setMaxLen n).get i = h.get (i + (h.entries.length - n)) := by
  have he : (h.setMaxLen n).entries = h.entries.drop (h.entries.length - n) := by
    simp only [MemHist.setMaxLen]
    split
    · rfl
    · rename_i hle
      have : h.entries.length - n = 0 := by simp at hle; omega
      simp [this]
  refine ⟨?_, ?_, ?_, he, ?_, ?_⟩
  · simp only [MemHist.setMaxLen]; split <;> rfl
  · simp only [MemHist.setMaxLen]; split <;> rfl
  · simp only [MemHist.setMaxLen]; split <;> rfl
  · rw [he, List.length_drop]; omega
  · intro i
    simp only [MemHist.get, he, List.getElem?_drop]
    congr 1; omega

/-- Substring search finds what is there: if the text is non-empty, the start index is in range
    and SOME entry on the requested side of `start` (inclusive) contains the text, the search
    answers a hit whose index lies between `start` and that entry (so it is never missed and never
    farther away). -/
theorem C09_search_finds (h : MemHist) (t : Text) (s : Nat) (d : Dir) (j : Nat) (e' : Text) (o : Nat)
    (ht : t ≠ []) (hs : s < h.entries.length) (hj : h.entries[j]? = some e') (ho : OccursAt t e' o)
    (hside : (d = .forward → s ≤ j) ∧ (d = .reverse → j ≤ s)) :
    ∃ i e off, h.search t s d = some (i, e, off) ∧
      (d = .forward → s ≤ i ∧ i ≤ j) ∧ (d = .reverse → j ≤ i ∧ i ≤ s) := by
  cases hres : h.search t s d with
  | none =>
    rcases (C09_search_none h t s d).1 hres with h1 | h1 | ⟨hf, hr⟩
    · exact absurd h1 ht
    · omega
    · cases d with
      | forward => exact absurd ho (hf rfl j e' (hside.1 rfl) hj o)
      | reverse => exact absurd ho (hr rfl j e' (hside.2 rfl) hj o)
  | some r =>
    obtain ⟨i, e, off⟩ := r
    obtain ⟨_, _, _, hf, hr⟩ := C09_search_sound h t s d i e off hres
    refine ⟨i, e, off, rfl, ?_, ?_⟩
    · intro hd
      obtain ⟨h1, h2⟩ := hf hd
      refine ⟨h1, ?_⟩
      rcases Nat.lt_or_ge j i with hlt | hge
      · exact absurd ho (h2 j e' (hside.1 hd) hlt hj o)
      · exact hge
    · intro hd
      obtain ⟨h1, h2⟩ := hr hd
      refine ⟨?_, h1⟩
      rcases Nat.lt_or_ge i j with hlt | hge
      · exact absurd ho (h2 j e' hlt (hside.2 hd) hj o)
      · exact hge

/-- Prefix search finds what is there (same as `C09_search_finds` for `starts_with`). -/
theorem C09_starts_with_finds (h : MemHist) (t : Text) (s : Nat) (d : Dir) (j : Nat) (e' : Text)
    (ht : t ≠ []) (hs : s < h.entries.length) (hj : h.entries[j]? = some e') (hp : t <+: e')
    (hside : (d = .forward → s ≤ j) ∧ (d = .reverse → j ≤ s)) :
    ∃ i e, h.startsWith t s d = some (i, e, blen t) ∧
      (d = .forward → s ≤ i ∧ i ≤ j) ∧ (d = .reverse → j ≤ i ∧ i ≤ s) := by
  cases hres : h.startsWith t s d with
  | none =>
    rcases (C09_starts_with_none h t s d).1 hres with h1 | h1 | ⟨hf, hr⟩
    · exact absurd h1 ht
    · omega
    · cases d with
      | forward => exact absurd hp (hf rfl j e' (hside.1 rfl) hj)
      | reverse => exact absurd hp (hr rfl j e' (hside.2 rfl) hj)
  | some r =>
    obtain ⟨i, e, off⟩ := r
    obtain ⟨_, _, hoff, hf, hr⟩ := C09_starts_with_sound h t s d i e off hres
    subst hoff
    refine ⟨i, e, rfl, ?_, ?_⟩
    · intro hd
      obtain ⟨h1, h2⟩ := hf hd
      refine ⟨h1, ?_⟩
      rcases Nat.lt_or_ge j i with hlt | hge
      · exact absurd hp (h2 j e' (hside.1 hd) hlt hj)
      · exact hge
    · intro hd
      obtain ⟨h1, h2⟩ := hr hd
      refine ⟨?_, h1⟩
      rcases Nat.lt_or_ge i j with hlt | hge
      · exact absurd hp (h2 j e' hlt (hside.2 hd) hj)
      · exact hge

/-- non-vacuity of the two `finds` theorems: a two-byte term found at byte offset 1, reverse,
    nearest of two candidates. -/
example :
    let h := (MemHist.run (fun c => c == ' ') (MemHist.new 5 false false)
      [.add "aéb".toList, .add "zéb".toList, .add "q".toList]).1
    h.search "é".toList 2 .reverse = some (1, "zéb".toList, 1) ∧
    h.startsWith "zé".toList 0 .forward = some (1, "zéb".toList, 3) := by
  decide

/-- One public mutating operation on `FileHistory` (model `FileHist`: `add`/`add_owned`,
    `set_max_len`, `clear` are the model's own functions; `ignore_dups` / `ignore_space` delegate to
    the inner `MemHistory` as in `src/history.rs`; queries do not change the state). -/
def C09_fileStep (ws : Char → Bool) (f : FileHist) : HOp → FileHist
  | .add l | .addOwned l => (f.add ws l).1
  | .setMax n => f.setMaxLen n
  | .dups b => { f with mem := f.mem.setIgnoreDups b }
  | .space b => { f with mem := f.mem.setIgnoreSpace b }
  | .clear => f.clear
  | _ => f

/-- `FileHistory` run of an operation sequence. -/
def C09_fileRun (ws : Char → Bool) (f : FileHist) : List HOp → FileHist
  | [] => f
  | op :: ops => C09_fileRun ws (C09_fileStep ws f op) ops

/-- For every operation sequence, the in-memory part of the file history is exactly the
    `MemHistory` obtained by the same sequence (so every C09 theorem about the store — bound,
    content, acceptance — holds for `FileHistory` too), and the unsaved-entries counter never
    exceeds the number of stored entries if it did not at the start.  (Lifts the single-step
    `C09_new_entries_le` to arbitrary sequences including `set_max_len` and `clear`.) -/
theorem C09_file_run (ws : Char → Bool) (f : FileHist) (ops : List HOp)
    (h0 : f.newEntries ≤ f.mem.entries.length) :
    (C09_fileRun ws f ops).mem = (MemHist.run ws f.mem ops).1 ∧
    (C09_fileRun ws f ops).newEntries ≤ (C09_fileRun ws f ops).mem.entries.length := by
  induction ops generalizing f with
  | nil => exact ⟨rfl, h0⟩
  | cons op ops ih =>
    have hstep : (C09_fileStep ws f op).mem = (f.mem.step ws op).1 ∧
        (C09_fileStep ws f op).newEntries ≤ (C09_fileStep ws f op).mem.entries.length := by
      have hadd : ∀ l, (f.add ws l).1.mem = (f.mem.add ws l).1 := by
        intro l
        unfold FileHist.add
        cases hm : f.mem.add ws l with
        | mk m ok => cases ok <;> simp [MemHist.add] at hm ⊢ <;> (split at hm <;> simp_all)
      cases op with
      | add l => exact ⟨hadd l, C09_new_entries_le ws f l h0⟩
      | addOwned l => exact ⟨hadd l, C09_new_entries_le ws f l h0⟩
      | setMax n =>
        refine ⟨rfl, ?_⟩
        simp only [C09_fileStep, FileHist.setMaxLen]
        have := (C09_set_max_len f.mem n).2.2.2.2.1
        rw [this]; omega
      | dups b => exact ⟨rfl, h0⟩
      | space b => exact ⟨rfl, h0⟩
      | clear => exact ⟨rfl, by simp [C09_fileStep, FileHist.clear, MemHist.clear]⟩
      | get i => exact ⟨rfl, h0⟩
      | len => exact ⟨rfl, h0⟩
      | dump => exact ⟨rfl, h0⟩
      | search t s d => exact ⟨rfl, h0⟩
      | startsWith t s d => exact ⟨rfl, h0⟩
    obtain ⟨ih1, ih2⟩ := ih (C09_fileStep ws f op) hstep.2
    simp only [C09_fileRun, MemHist.run]
    exact ⟨by rw [ih1, hstep.1], ih2⟩

/-- non-vacuity of `C09_file_run`: a fresh file history satisfies the hypothesis, and after a
    sequence with eviction and a lowered limit the counter is capped by the store. -/
example :
    (FileHist.new 3 false true).newEntries ≤ (FileHist.new 3 false true).mem.entries.length ∧
    (C09_fileRun (fun c => c == ' ') (FileHist.new 3 false true)
      [.add "a".toList, .add "a".toList, .add "b".toList, .add "c".toList, .add "d".toList, .setMax 2]).newEntries = 2 := by
  decide

/-- The model's `ignore` test is the declarative refusal rule of the spec (empty line, limit zero,
    first CHARACTER is white space — the Unicode predicate `ws`, not a byte test — while
    ignore-space is on, equal to the newest entry while ignore-duplicates is on), on every store. -/
theorem C09_ignore_eq_refused (ws : Char → Bool) (h : MemHist) (l : Text) :
    h.ignore ws l = Spec.refused ws (C09_abs h) l := by
  unfold Spec.refused MemHist.ignore C09_abs
  cases l with
  | nil => simp
  | cons c t =>
    by_cases hm : h.maxLen = 0
    · simp [hm]
    · cases hsp : h.ignoreSpace <;> cases hd : h.ignoreDups <;> simp [hm]
      · cases hl : h.entries.getLast? <;> simp
        rename_i v; by_cases hv : v = c :: t <;> simp [hv]
      · cases hw : ws c <;> simp
        cases hl : h.entries.getLast? <;> simp
        rename_i v; by_cases hv : v = c :: t <;> simp [hv]

/-- What the log of accepted lines (used by `C09_entries_suffix_of_accepted` /
    `C09_entries_eq_window`) records, in declarative terms: an `add` appends its line to the log
    iff the spec's refusal rule does not hold at the store reached so far; `clear` empties the log;
    nothing else touches it. -/
theorem C09_accepted_unfold (ws : Char → Bool) (h : MemHist) (acc : List Text) (ops : List HOp) :
    (∀ l, C09_accepted ws h acc (.add l :: ops)
        = C09_accepted ws (h.add ws l).1 (if Spec.refused ws (C09_abs h) l then acc else acc ++ [l]) ops) ∧
    (∀ l, C09_accepted ws h acc (.addOwned l :: ops)
        = C09_accepted ws (h.add ws l).1 (if Spec.refused ws (C09_abs h) l then acc else acc ++ [l]) ops) ∧
    C09_accepted ws h acc (.clear :: ops) = C09_accepted ws h.clear [] ops ∧
    (∀ n, C09_accepted ws h acc (.setMax n :: ops) = C09_accepted ws (h.setMaxLen n) acc ops) ∧
    (∀ b, C09_accepted ws h acc (.dups b :: ops) = C09_accepted ws (h.setIgnoreDups b) acc ops) ∧
    (∀ b, C09_accepted ws h acc (.space b :: ops) = C09_accepted ws (h.setIgnoreSpace b) acc ops) := by
  have hadd : ∀ l, (h.add ws l).2 = !(Spec.refused ws (C09_abs h) l) := by
    intro l
    rw [← C09_ignore_eq_refused]
    unfold MemHist.add; split <;> simp_all
  refine ⟨?_, ?_, rfl, fun _ => rfl, fun _ => rfl, fun _ => rfl⟩
  · intro l
    simp only [C09_accepted, accLog, MemHist.step, hadd l]
    cases Spec.refused ws (C09_abs h) l <;> rfl
  · intro l
    simp only [C09_accepted, accLog, MemHist.step, hadd l]
    cases Spec.refused ws (C09_abs h) l <;> rfl

/-- State refinement for arbitrary operation sequences: running the declarative spec from the
    abstraction of a store within its bound ends in the abstraction of the model's final store
    (entries, limit and both flags), not only with equal observations (`C09_run_eq_spec`). -/
theorem C09_run_abs (ws : Char → Bool) (h : MemHist) (hi : h.entries.length ≤ h.maxLen)
    (ops : List HOp) :
    (Spec.run ws (C09_abs h) ops).1 = C09_abs (MemHist.run ws h ops).1 := by
  induction ops generalizing h with
  | nil => rfl
  | cons op ops ih =>
    have hstep : (Spec.step ws (C09_abs h) op).1 = C09_abs (h.step ws op).1 := by
      have hobs : [(h.step ws op).2, HObs.all (h.step ws op).1.entries]
          = [(Spec.step ws (C09_abs h) op).2, HObs.all (Spec.step ws (C09_abs h) op).1.entries] :=
        C09_run_eq_spec ws h hi [op, .dump]
      have hent : (h.step ws op).1.entries = (Spec.step ws (C09_abs h) op).1.entries := by
        simp only [List.cons.injEq, HObs.all.injEq] at hobs
        exact hobs.2.1
      have hfr : (Spec.step ws (C09_abs h) op).1.max = (h.step ws op).1.maxLen ∧
          (Spec.step ws (C09_abs h) op).1.ignoreSpace = (h.step ws op).1.ignoreSpace ∧
          (Spec.step ws (C09_abs h) op).1.ignoreDups = (h.step ws op).1.ignoreDups := by
        have hm : ∀ l, (h.add ws l).1.maxLen = h.maxLen ∧ (h.add ws l).1.ignoreSpace = h.ignoreSpace ∧
            (h.add ws l).1.ignoreDups = h.ignoreDups := by
          intro l; unfold MemHist.add; split <;> simp [MemHist.insert]
        cases op with
        | add l => simp only [Spec.step, MemHist.step, hm l]; split <;> exact ⟨rfl, rfl, rfl⟩
        | addOwned l => simp only [Spec.step, MemHist.step, hm l]; split <;> exact ⟨rfl, rfl, rfl⟩
        | setMax n => exact ⟨(C09_set_max_len h n).1.symm, (C09_set_max_len h n).2.1.symm, (C09_set_max_len h n).2.2.1.symm⟩
        | _ => exact ⟨rfl, rfl, rfl⟩
      cases hS : (Spec.step ws (C09_abs h) op).1 with
      | mk e m a b =>
        rw [hS] at hent hfr
        simp only at hent hfr
        simp only [C09_abs, hent, hfr.1, hfr.2.1, hfr.2.2]
    have hrun : (Spec.run ws (C09_abs h) (op :: ops)).1 = (Spec.run ws (Spec.step ws (C09_abs h) op).1 ops).1 := rfl
    rw [hrun, hstep]
    exact ih _ (step_inv ws hi op)

/-- The size bound holds after any operation sequence from ANY store within its bound (not only
    from a fresh one, cf. `C09_len_le_max`), e.g. a store filled by `load`. -/
theorem C09_len_le_max_from (ws : Char → Bool) (h : MemHist) (hi : h.entries.length ≤ h.maxLen)
    (ops : List HOp) :
    (MemHist.run ws h ops).1.entries.length ≤ (MemHist.run ws h ops).1.maxLen :=
  run_inv ws hi ops

/-- Exact characterisation of a substring-search answer (soundness and completeness in one
    statement): `search` answers `(i, e, off)` IF AND ONLY IF the text is non-empty, the start is in
    range, `e` is the `i`-th oldest entry, `off` is the byte offset of the FIRST occurrence of the
    text in `e` (byte offsets, so multi-byte characters before the match count with their UTF-8
    length), `i` is on the requested side of `start` (inclusive) and no entry strictly nearer to
    `start` in that direction contains the text.  No hypotheses on the store. -/
theorem C09_search_iff (h : MemHist) (t : Text) (s : Nat) (d : Dir) (i : Nat) (e : Text) (off : Nat) :
    h.search t s d = some (i, e, off) ↔
      (t ≠ [] ∧ s < h.entries.length ∧ h.entries[i]? = some e ∧ OccursAt t e off ∧
       (∀ o, OccursAt t e o → off ≤ o) ∧
       (d = .forward → s ≤ i ∧ ∀ (j : Nat) (e' : Text), s ≤ j → j < i → h.entries[j]? = some e' → ∀ o, ¬ OccursAt t e' o) ∧
       (d = .reverse → i ≤ s ∧ ∀ (j : Nat) (e' : Text), i < j → j ≤ s → h.entries[j]? = some e' → ∀ o, ¬ OccursAt t e' o)) := by
  constructor
  · intro hs
    obtain ⟨h1, h2, h3, h4, h5⟩ := C09_search_sound h t s d i e off hs
    have hg : ¬ (t = [] ∨ h.entries.length ≤ s) := by
      intro hg
      rw [(C09_search_none h t s d).2 hg] at hs
      simp at hs
    refine ⟨fun ht => hg (Or.inl ht), ?_, h1, h2, h3, h4, h5⟩
    rcases Nat.lt_or_ge s h.entries.length with hlt | hge
    · exact hlt
    · exact absurd (Or.inr hge) hg
  · rintro ⟨ht, hs, hget, ho, hmin, hf, hr⟩
    obtain ⟨i', e', off', hres, hfw, hrv⟩ :=
      C09_search_finds h t s d i e off ht hs hget ho ⟨fun hd => (hf hd).1, fun hd => (hr hd).1⟩
    obtain ⟨hget', ho', hmin', _, _⟩ := C09_search_sound h t s d i' e' off' hres
    have hi : i' = i := by
      cases d with
      | forward =>
        obtain ⟨a1, a2⟩ := hfw rfl
        rcases Nat.lt_or_ge i' i with hlt | hge
        · exact absurd ho' ((hf rfl).2 i' e' a1 hlt hget' off')
        · omega
      | reverse =>
        obtain ⟨a1, a2⟩ := hrv rfl
        rcases Nat.lt_or_ge i i' with hlt | hge
        · exact absurd ho' ((hr rfl).2 i' e' hlt a2 hget' off')
        · omega
    subst hi
    have he : e' = e := Option.some.inj (hget'.symm.trans hget)
    subst he
    have hoff : off' = off := Nat.le_antisymm (hmin' off ho) (hmin off' ho')
    subst hoff
    exact hres

/-- Exact characterisation of a prefix-search answer: `starts_with` answers `(i, e, off)` IF AND
    ONLY IF the text is non-empty, the start is in range, `e` is the `i`-th oldest entry and starts
    with the text, `off` is the BYTE length of the text, `i` is on the requested side of `start`
    (inclusive) and no entry strictly nearer to `start` in that direction starts with the text. -/
theorem C09_starts_with_iff (h : MemHist) (t : Text) (s : Nat) (d : Dir) (i : Nat) (e : Text) (off : Nat) :
    h.startsWith t s d = some (i, e, off) ↔
      (t ≠ [] ∧ s < h.entries.length ∧ h.entries[i]? = some e ∧ t <+: e ∧ off = blen t ∧
       (d = .forward → s ≤ i ∧ ∀ (j : Nat) (e' : Text), s ≤ j → j < i → h.entries[j]? = some e' → ¬ t <+: e') ∧
       (d = .reverse → i ≤ s ∧ ∀ (j : Nat) (e' : Text), i < j → j ≤ s → h.entries[j]? = some e' → ¬ t <+: e')) := by
  constructor
  · intro hs
    obtain ⟨h1, h2, h3, h4, h5⟩ := C09_starts_with_sound h t s d i e off hs
    have hg : ¬ (t = [] ∨ h.entries.length ≤ s) := by
      intro hg
      rw [(C09_starts_with_none h t s d).2 hg] at hs
      simp at hs
    refine ⟨fun ht => hg (Or.inl ht), ?_, h1, h2, h3, h4, h5⟩
    rcases Nat.lt_or_ge s h.entries.length with hlt | hge
    · exact hlt
    · exact absurd (Or.inr hge) hg
  · rintro ⟨ht, hs, hget, hp, hoff, hf, hr⟩
    obtain ⟨i', e', hres, hfw, hrv⟩ :=
      C09_starts_with_finds h t s d i e ht hs hget hp ⟨fun hd => (hf hd).1, fun hd => (hr hd).1⟩
    obtain ⟨hget', hp', _, _, _⟩ := C09_starts_with_sound h t s d i' e' (blen t) hres
    have hi : i' = i := by
      cases d with
      | forward =>
        obtain ⟨a1, a2⟩ := hfw rfl
        rcases Nat.lt_or_ge i' i with hlt | hge
        · exact absurd hp' ((hf rfl).2 i' e' a1 hlt hget')
        · omega
      | reverse =>
        obtain ⟨a1, a2⟩ := hrv rfl
        rcases Nat.lt_or_ge i i' with hlt | hge
        · exact absurd hp' ((hr rfl).2 i' e' hlt a2 hget')
        · omega
    subst hi
    have he : e' = e := Option.some.inj (hget'.symm.trans hget)
    subst he
    subst hoff
    exact hres

/-- non-vacuity of the hypothesis `h.entries.length ≤ h.maxLen` used by `C09_run_abs`,
    `C09_len_le_max_from`, `C09_entries_eq_window`: a non-fresh store within its bound. -/
example :
    let h : MemHist := { entries := ["x".toList, "é".toList], maxLen := 2, ignoreSpace := true, ignoreDups := false }
    h.entries.length ≤ h.maxLen ∧
    (MemHist.run (fun c => c == ' ') h [.add "y".toList, .setMax 1]).1.entries = ["y".toList] := by
  decide
