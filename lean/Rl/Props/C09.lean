/-
  Property C09 — history store: newest entries, in order, within bound; searches are truthful.
  Only property theorems and non-vacuity examples live here; helper lemmas are in
  Rl/Lemmas/History.lean.  Model: Rl/History.lean (transliteration of src/history.rs).
  Spec: Rl/Spec/History.lean (written from the property text).
-/
import Rl.History
import Rl.Spec.History
import Rl.Lemmas.History
open Rl Rl.MemHist

/-- abstraction map: model state ↦ spec state -/
def C09_abs (h : MemHist) : Spec.HState :=
  { entries := h.entries, max := h.maxLen, ignoreSpace := h.ignoreSpace, ignoreDups := h.ignoreDups }

/-- The size bound holds after any sequence of public operations from a fresh history
    (the eviction in `insert` tests `len == max_len`, so this invariant is what makes it work). -/
theorem C09_len_le_max (ws : Char → Bool) (m : Nat) (isp idp : Bool) (ops : List HOp) :
    (MemHist.run ws (MemHist.new m isp idp) ops).1.entries.length
      ≤ (MemHist.run ws (MemHist.new m isp idp) ops).1.maxLen :=
  run_inv ws (by simp [HInv, MemHist.new]) ops

/-- `add` reports acceptance truthfully: a line is refused iff it is empty, the limit is zero,
    it starts with a blank while ignore-space is on, or it equals the newest entry while
    ignore-duplicates is on. -/
theorem C09_add_iff (ws : Char → Bool) (h : MemHist) (l : Text) :
    (h.add ws l).2 = false ↔
      (l = [] ∨ h.maxLen = 0 ∨ (h.ignoreSpace = true ∧ ∃ c t, l = c :: t ∧ ws c = true)
        ∨ (h.ignoreDups = true ∧ h.entries.getLast? = some l)) := by
  unfold MemHist.add MemHist.ignore
  cases l with
  | nil => simp
  | cons c t =>
    by_cases hm : h.maxLen = 0
    · simp [hm]
    · cases hsp : h.ignoreSpace <;> cases hd : h.ignoreDups <;> simp [hm]
      · cases hl : h.entries.getLast? <;> simp
        split <;> simp_all
      · cases hw : ws c <;> simp
      · cases hw : ws c <;> simp
        cases hl : h.entries.getLast? <;> simp
        split <;> simp_all

/-- An accepted line becomes the newest entry and the store is cut from the old end. -/
theorem C09_add_accepted (ws : Char → Bool) (h : MemHist) (l : Text)
    (hi : h.entries.length ≤ h.maxLen) (ha : (h.add ws l).2 = true) :
    (h.add ws l).1.entries = Spec.takeLast h.maxLen (h.entries ++ [l]) := by
  unfold MemHist.add at *
  split at ha
  · simp at ha
  · rename_i hig
    have hm : h.maxLen ≠ 0 := fun hm => hig (ignore_of_max_zero ws h l hm)
    simp only [MemHist.insert, Spec.takeLast]
    by_cases he : h.entries.length = h.maxLen
    · have hb : (h.entries.length == h.maxLen) = true := by simp [he]
      simp only [hb, if_true, List.length_append, List.length_singleton]
      have : h.entries.length + 1 - h.maxLen = 1 := by omega
      rw [this]
      cases hes : h.entries with
      | nil => simp [hes] at he; omega
      | cons x xs => simp [hig]
    · have hb : (h.entries.length == h.maxLen) = false := by simp [he]
      simp only [hb, List.length_append, List.length_singleton]
      have : h.entries.length + 1 - h.maxLen = 0 := by omega
      rw [this]; simp [hig]

/-- Every observable of every operation sequence is the one the declarative spec prescribes
    (entries oldest first = accepted lines cut to the limit; `get`; `len`; both searches). -/
theorem C09_run_eq_spec (ws : Char → Bool) (h : MemHist) (hi : h.entries.length ≤ h.maxLen)
    (ops : List HOp) :
    (MemHist.run ws h ops).2 = (Spec.run ws (C09_abs h) ops).2 := by
  induction ops generalizing h with
  | nil => rfl
  | cons op ops ih =>
    have hstep : (Spec.step ws (C09_abs h) op) = (C09_abs (h.step ws op).1, (h.step ws op).2) := by
      have hadd : ∀ l, Spec.step ws (C09_abs h) (.add l) = (C09_abs (h.add ws l).1, .bool (h.add ws l).2) := by
        intro l
        have hr : Spec.refused ws (C09_abs h) l = h.ignore ws l := by
          unfold Spec.refused MemHist.ignore C09_abs
          cases l with
          | nil => simp
          | cons c t =>
            by_cases hm : h.maxLen = 0
            · simp [hm]
            · cases hsp : h.ignoreSpace <;> cases hd : h.ignoreDups <;> simp [hm]
              · cases hl : h.entries.getLast? <;> simp [eq_comm]
                rename_i v; by_cases hv : v = c :: t <;> simp [hv]
              · cases hw : ws c <;> simp
                cases hl : h.entries.getLast? <;> simp [eq_comm]
                rename_i v; by_cases hv : v = c :: t <;> simp [hv]
        simp only [Spec.step, hr]
        cases hg : h.ignore ws l
        · have ha : (h.add ws l).2 = true := by simp [MemHist.add, hg]
          have := C09_add_accepted ws h l hi ha
          have hadd' : h.add ws l = (h.insert l, true) := by simp [MemHist.add, hg]
          rw [hadd'] at this ⊢
          simp only [Bool.false_eq_true, if_false]
          simp only [C09_abs]
          simp only at this
          rw [← this]
          rfl
        · simp [MemHist.add, hg]
      cases op with
      | add l => simpa [MemHist.step] using hadd l
      | addOwned l => simpa [MemHist.step, Spec.step] using hadd l
      | setMax n =>
        simp only [Spec.step, MemHist.step, MemHist.setMaxLen, C09_abs, Spec.takeLast]
        split
        · rfl
        · rename_i hle
          simp at hle
          have : h.entries.length - n = 0 := by omega
          simp [this]
      | dups b => rfl
      | space b => rfl
      | clear => rfl
      | get i => rfl
      | len => rfl
      | dump => rfl
      | search t s d =>
        simp only [Spec.step, MemHist.step, MemHist.search]
        have := searchMatch_eq_find true h t s d
        simp only [testOf, if_true] at this
        simp only [C09_abs]
        rw [this]
      | startsWith t s d =>
        simp only [Spec.step, MemHist.step, MemHist.startsWith]
        have := searchMatch_eq_find false h t s d
        simp only [testOf, Bool.false_eq_true, if_false] at this
        simp only [C09_abs]
        rw [this]
    simp only [MemHist.run, Spec.run, hstep]
    rw [ih (h.step ws op).1 (step_inv ws hi op)]

/-- Indexing returns the i-th oldest entry. -/
theorem C09_index (h : MemHist) (i : Nat) : h.get i = h.entries[i]? := rfl

/-- Substring search is truthful: a reported hit is a stored entry that really contains the text
    at the reported byte offset (its first occurrence), on the requested side of `start`
    (inclusive), and no nearer entry in that direction contains the text. -/
theorem C09_search_sound (h : MemHist) (t : Text) (s : Nat) (d : Dir) (i : Nat) (e : Text) (off : Nat)
    (hs : h.search t s d = some (i, e, off)) :
    h.entries[i]? = some e ∧ OccursAt t e off ∧ (∀ o, OccursAt t e o → off ≤ o) ∧
    (d = .forward → s ≤ i ∧ ∀ (j : Nat) (e' : Text), s ≤ j → j < i → h.entries[j]? = some e' → ∀ o, ¬ OccursAt t e' o) ∧
    (d = .reverse → i ≤ s ∧ ∀ (j : Nat) (e' : Text), i < j → j ≤ s → h.entries[j]? = some e' → ∀ o, ¬ OccursAt t e' o) := by
  obtain ⟨_, _, hget, htest, hf, hr⟩ := searchMatch_some hs
  obtain ⟨ho, hmin⟩ := findSub_some htest
  refine ⟨hget, ho, hmin, ?_, ?_⟩
  · intro hd
    obtain ⟨h1, h2⟩ := hf hd
    exact ⟨h1, fun j e' hj1 hj2 he' => findSub_none (h2 j e' ⟨hj1, hj2⟩ he')⟩
  · intro hd
    obtain ⟨h1, h2⟩ := hr hd
    exact ⟨h1, fun j e' hj1 hj2 he' => findSub_none (h2 j e' ⟨hj1, hj2⟩ he')⟩

/-- Substring search is complete: `none` only if the text is empty, the start is out of range,
    or no entry on the requested side contains it; and it *is* `none` in the first two cases. -/
theorem C09_search_none (h : MemHist) (t : Text) (s : Nat) (d : Dir) :
    (h.search t s d = none →
      t = [] ∨ h.entries.length ≤ s ∨
      ((d = .forward → ∀ (j : Nat) (e' : Text), s ≤ j → h.entries[j]? = some e' → ∀ o, ¬ OccursAt t e' o) ∧
       (d = .reverse → ∀ (j : Nat) (e' : Text), j ≤ s → h.entries[j]? = some e' → ∀ o, ¬ OccursAt t e' o))) ∧
    (t = [] ∨ h.entries.length ≤ s → h.search t s d = none) := by
  refine ⟨?_, fun hg => searchMatch_guard hg⟩
  intro hs
  rcases searchMatch_none hs with h1 | h1 | ⟨hf, hr⟩
  · exact Or.inl h1
  · exact Or.inr (Or.inl h1)
  · refine Or.inr (Or.inr ⟨?_, ?_⟩)
    · intro hd j e' hj he'; exact findSub_none (hf hd j e' hj he')
    · intro hd j e' hj he'; exact findSub_none (hr hd j e' hj he')

/-- Prefix search is truthful and nearest; the offset is the length of the text. -/
theorem C09_starts_with_sound (h : MemHist) (t : Text) (s : Nat) (d : Dir) (i : Nat) (e : Text) (off : Nat)
    (hs : h.startsWith t s d = some (i, e, off)) :
    h.entries[i]? = some e ∧ t <+: e ∧ off = blen t ∧
    (d = .forward → s ≤ i ∧ ∀ (j : Nat) (e' : Text), s ≤ j → j < i → h.entries[j]? = some e' → ¬ t <+: e') ∧
    (d = .reverse → i ≤ s ∧ ∀ (j : Nat) (e' : Text), i < j → j ≤ s → h.entries[j]? = some e' → ¬ t <+: e') := by
  obtain ⟨_, _, hget, htest, hf, hr⟩ := searchMatch_some hs
  have key : ∀ e' : Text, (if t.isPrefixOf e' = true then some (blen t) else none) = none → ¬ t <+: e' := by
    intro e' h1 h2
    rw [← List.isPrefixOf_iff_prefix] at h2
    simp [h2] at h1
  split at htest
  · rename_i hp
    simp at htest
    refine ⟨hget, List.isPrefixOf_iff_prefix.mp hp, htest.symm, ?_, ?_⟩
    · intro hd
      obtain ⟨h1, h2⟩ := hf hd
      exact ⟨h1, fun j e' hj1 hj2 he' => key e' (h2 j e' ⟨hj1, hj2⟩ he')⟩
    · intro hd
      obtain ⟨h1, h2⟩ := hr hd
      exact ⟨h1, fun j e' hj1 hj2 he' => key e' (h2 j e' ⟨hj1, hj2⟩ he')⟩
  · simp at htest

theorem C09_starts_with_none (h : MemHist) (t : Text) (s : Nat) (d : Dir) :
    (h.startsWith t s d = none →
      t = [] ∨ h.entries.length ≤ s ∨
      ((d = .forward → ∀ (j : Nat) (e' : Text), s ≤ j → h.entries[j]? = some e' → ¬ t <+: e') ∧
       (d = .reverse → ∀ (j : Nat) (e' : Text), j ≤ s → h.entries[j]? = some e' → ¬ t <+: e'))) ∧
    (t = [] ∨ h.entries.length ≤ s → h.startsWith t s d = none) := by
  refine ⟨?_, fun hg => searchMatch_guard hg⟩
  intro hs
  have key : ∀ e' : Text, (if t.isPrefixOf e' = true then some (blen t) else none) = none → ¬ t <+: e' := by
    intro e' h1 h2
    rw [← List.isPrefixOf_iff_prefix] at h2
    simp [h2] at h1
  rcases searchMatch_none hs with h1 | h1 | ⟨hf, hr⟩
  · exact Or.inl h1
  · exact Or.inr (Or.inl h1)
  · refine Or.inr (Or.inr ⟨?_, ?_⟩)
    · intro hd j e' hj he'; exact key e' (hf hd j e' hj he')
    · intro hd j e' hj he'; exact key e' (hr hd j e' hj he')

/-- `FileHistory`'s unsaved-entries counter never exceeds the store. -/
theorem C09_new_entries_le (ws : Char → Bool) (f : FileHist) (l : Text)
    (h : f.newEntries ≤ f.mem.entries.length) :
    (f.add ws l).1.newEntries ≤ (f.add ws l).1.mem.entries.length := by
  unfold FileHist.add
  cases hm : f.mem.add ws l with
  | mk m ok =>
    cases ok
    · simpa using h
    · simp; omega

/-! Non-vacuity: concrete, non-trivial instances (kernel-evaluated). -/
example :
    let h := (MemHist.run (fun c => c == ' ') (MemHist.new 2 true true)
      [.add "a".toList, .add "a".toList, .add " x".toList, .add "bé".toList, .add "c".toList]).1
    h.entries = ["bé".toList, "c".toList] ∧ h.search "é".toList 1 .reverse = some (0, "bé".toList, 1) := by
  decide
