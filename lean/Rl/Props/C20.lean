/-
  Property C20 — the SQLite history stores entries durably in order and its searches are safe.
  Model: Rl/Sqlite.lean (transliteration of src/sqlite_history.rs and HistoryHinter).
  Spec: Rl/Spec/Sqlite.lean (written from the property text).
-/
import Rl.Sqlite
import Rl.Spec.Sqlite
import Rl.Lemmas.Sqlite
import Rl.Lemmas.SqliteRefine
import Rl.Lemmas.SqliteRefine8
open Rl Rl.Sq

/-- The refusal rule is the default history's without the consecutive-duplicate clause: a line is
    refused iff it is empty, the size limit is zero, or it starts with a blank while ignore-space
    is on. -/
theorem C20_refusal (ws : Char → Bool) (h : Hist) (l : Text) :
    (h.add ws l).2 = false ↔
      (l = [] ∨ h.maxLen = 0 ∨ (h.ignoreSpace = true ∧ ∃ c t, l = c :: t ∧ ws c = true)) := by
  unfold Hist.add Hist.ignore
  cases l with
  | nil => simp
  | cons c t =>
    by_cases hm : h.maxLen = 0
    · simp [hm]
    · cases hsp : h.ignoreSpace <;> cases hw : ws c <;> simp [hm, hw, Hist.addEntry]

/-! ### the store: order, walk, reopening -/

/-- Over every sequence of public operations (adds, limits, toggles, reopenings, abrupt
    terminations, reads, searches) on a freshly created database file, the table stays in rowid
    order, rowids start at 1 and `len` (the cached largest rowid) bounds every rowid — the
    invariant `Inv` the walk relies on. Holds for every FTS oracle. -/
theorem C20_sorted (ws : Char → Bool) (fts : Text → Text → Bool) (c : Cfg) (ops : List QOp) :
    Inv ((Hist.openDb c {}).run ws fts ops).1 :=
  run_inv ws fts (openDb_inv (db := {}) c (by simp [Sorted]) (by simp) (fun _ => rfl)) ops

/-- The editor's walk — previous-history from the line being edited (index `len`) until it stops,
    then next-history until it is back — shows every stored row exactly once on the way down,
    newest first, and every row but the oldest exactly once on the way back, oldest first; the
    index shown for a row is `rowid - 1`. Gaps in the rowids do not matter. -/
theorem C20_walk (h : Hist) (hi : Inv h) (fuel : Nat) (hf : h.db.rows.length < fuel) :
    walk h fuel = (h.db.rows.reverse.map shown, h.db.rows.tail.map shown) :=
  walk_eq hi hf

/-- … in particular after any operation sequence from a fresh database. -/
theorem C20_walk_run (ws : Char → Bool) (fts : Text → Text → Bool) (c : Cfg) (ops : List QOp) (fuel : Nat)
    (hf : ((Hist.openDb c {}).run ws fts ops).1.db.rows.length < fuel) :
    walk ((Hist.openDb c {}).run ws fts ops).1 fuel =
      (((Hist.openDb c {}).run ws fts ops).1.db.rows.reverse.map shown,
       ((Hist.openDb c {}).run ws fts ops).1.db.rows.tail.map shown) :=
  walk_eq (C20_sorted ws fts c ops) hf

/-- An accepted line becomes the newest row: it gets a rowid above every stored one, all other
    rows keep their order, and with ignore-dups on the older occurrence of the same line *in the
    same session* (and only that) is gone — a line re-entered in a session counts as its newest
    occurrence. The session is the connection's, created on its first accepted line. -/
theorem C20_order (ws : Char → Bool) (h : Hist) (l : Text) (hi : Inv h) (hidx : h.db.index = h.ignoreDups)
    (ha : (h.add ws l).2 = true) :
    ∃ sid rid, sid = (if h.sessionId = 0 then h.db.sessions + 1 else h.sessionId) ∧
      (h.add ws l).1.db.rows =
        (if h.ignoreDups then h.db.rows.filter (fun r => !(r.entry == l && r.session == sid)) else h.db.rows)
          ++ [{ rowid := rid, session := sid, entry := l }] ∧
      (∀ r ∈ h.db.rows, r.rowid < rid) ∧ (h.add ws l).1.len = rid := by
  obtain ⟨e1, e2, e3⟩ := createSession_rows hi.init hidx
  unfold Hist.add at ha ⊢
  split at ha
  · simp at ha
  · rename_i hig
    simp only [hig, Bool.false_eq_true, if_false]
    refine ⟨h.createSession.sessionId, maxRowid h.db.rows + 1, e3, ?_, ?_, ?_⟩
    · simp only [Hist.addEntry, e1, e2, sameKey]
    · intro r hr
      have := le_maxRowid hi.sorted hr
      omega
    · simp [Hist.addEntry, Hist.len, e1]

/-- Closing and reopening the file (any configuration) keeps the table, provided turning
    ignore-dups on does not have to collapse same-session duplicates recorded while it was off;
    hence the walk after reopening shows the same rows in the same order. Durability of the
    committed rows themselves is SQLite's (trusted, exercised by the harness). -/
theorem C20_reopen (h : Hist) (hi : Inv h) (c : Cfg)
    (hnd : c.ignoreDups = true → h.db.index = false → hasDup h.db.rows = false)
    (fuel : Nat) (hf : h.db.rows.length < fuel) :
    (Hist.openDb c h.db).db.rows = h.db.rows ∧ walk (Hist.openDb c h.db) fuel = walk h fuel := by
  have hr := openDb_rows c hi.init hnd
  have hi' : Inv (Hist.openDb c h.db) :=
    openDb_inv c hi.sorted hi.pos (fun h0 => by rw [hi.init] at h0; cases h0)
  refine ⟨hr, ?_⟩
  rw [walk_eq hi' (by rw [hr]; exact hf), walk_eq hi hf, hr]

/-- When same-session duplicates were recorded with ignore-dups off, turning it on (by
    `ignore_dups(true)` or by reopening with it) keeps exactly the newest occurrence of every
    (line, session) and still succeeds. -/
theorem C20_dedupe (h : Hist) (hoff : h.db.index = false) (hdup : hasDup h.db.rows = true) :
    ({ h with ignoreDups := true } : Hist).setIgnoreDupsIndex.db.rows = dedupe h.db.rows ∧
    ({ h with ignoreDups := true } : Hist).setIgnoreDupsIndex.db.index = true := by
  simp [Hist.setIgnoreDupsIndex, hoff, hdup]

/-! ### searches (for every FTS oracle: whatever candidates the full-text index proposes) -/

/-- The text never reaches the FTS query parser as syntax: the query is one quoted phrase whose
    body holds only token characters and blanks, an optional leading `^` (prefix search) and an
    optional final `*` — no quote, parenthesis, operator or column filter can come from the text;
    a text without token characters is not sent at all. -/
theorem C20_phrase_inert (t : Text) (sw : Bool) (q : Text) (h : ftsPhrase t sw = some q) :
    ∃ body, q = ['"'] ++ (if sw then ['^'] else []) ++ body
                ++ (if (t.getLast?.map isTok).getD false then ['*'] else []) ++ ['"'] ∧
      body.length = t.length ∧ (∀ c ∈ body, isTok c = true ∨ c = ' ') ∧ (∃ c ∈ t, isTok c = true) := by
  unfold ftsPhrase at h
  split at h
  · simp at h
  · rename_i hany
    simp at h
    refine ⟨t.map (fun c => if isTok c then c else ' '), by rw [← h]; simp, by simp, ?_, ?_⟩
    · intro c hc
      rw [List.mem_map] at hc
      obtain ⟨x, _, rfl⟩ := hc
      by_cases hx : isTok x = true <;> simp [hx]
    · simpa using hany

/-- A substring search answers nothing, or a stored entry (on the requested side of `start`)
    that really contains the text ignoring ASCII case, at a byte offset on a character boundary
    with the whole occurrence inside the entry. There is no error outcome. -/
theorem C20_search_safe (fts : Text → Text → Bool) (h : Hist) (t : Text) (s : Nat) (d : Dir)
    (i : Nat) (e : Text) (pos : Nat) (hs : (h.search fts t s d).2 = some (i, e, pos)) :
    t ≠ [] ∧
    (∃ r, r ∈ h.db.rows ∧ r.entry = e ∧ i = r.rowid - 1 ∧
      (d = .forward → s + 1 ≤ r.rowid) ∧ (d = .reverse → r.rowid ≤ s + 1)) ∧
    (∃ a b, e = a ++ b ∧ pos = blen a ∧ lower t <+: lower b) ∧
    pos + blen t ≤ blen e ∧ Spec.Sq.containsAt t e pos = true := by
  obtain ⟨ht, r, hr, he, hi, hp, hf, hrv⟩ := searchMatch_some hs
  obtain ⟨a, b, hab, hpos, hpre⟩ := matchPos_search hp
  refine ⟨ht, ⟨r, hr, he, hi, hf, hrv⟩, ⟨a, b, hab, hpos, hpre⟩, ?_, ?_⟩
  · obtain ⟨k, hk⟩ := hpre
    have : blen b = blen t + blen k := by
      rw [← blen_lower b, ← hk, blen_append, blen_lower]
    rw [hab, hpos, blen_append]; omega
  · simp only [Spec.Sq.containsAt, hab, hpos, splitAtByte_append]
    exact List.isPrefixOf_iff_prefix.mpr hpre

/-- A prefix search answers nothing, or a stored entry that really starts with the text ignoring
    ASCII case; the offset is the length of the text, which is a character boundary inside the entry. -/
theorem C20_starts_with_safe (fts : Text → Text → Bool) (h : Hist) (t : Text) (s : Nat) (d : Dir)
    (i : Nat) (e : Text) (pos : Nat) (hs : (h.startsWith fts t s d).2 = some (i, e, pos)) :
    t ≠ [] ∧
    (∃ r, r ∈ h.db.rows ∧ r.entry = e ∧ i = r.rowid - 1 ∧
      (d = .forward → s + 1 ≤ r.rowid) ∧ (d = .reverse → r.rowid ≤ s + 1)) ∧
    (∃ a b, e = a ++ b ∧ pos = blen a ∧ lower a = lower t) ∧
    pos = blen t ∧ pos ≤ blen e ∧ IsBoundary e pos ∧ Spec.Sq.startsAt t e pos = true := by
  obtain ⟨ht, r, hr, he, hi, hp, hf, hrv⟩ := searchMatch_some hs
  obtain ⟨a, b, hab, hpos, hlo⟩ := matchPos_startsWith hp
  refine ⟨ht, ⟨r, hr, he, hi, hf, hrv⟩, ⟨a, b, hab, hpos, hlo⟩, ?_, ?_, ⟨a, b, hab, hpos⟩, ?_⟩
  · rw [hpos]; exact blen_eq_of_lower_eq hlo
  · rw [hab, hpos, blen_append]; omega
  · simp only [Spec.Sq.startsAt, hab, hpos, splitAtByte_append]
    simpa [Spec.Sq.fold, lower] using hlo

/-- `HistoryHinter` on the SQLite history cannot panic: the slice `entry[pos..]` it takes is at
    the end of a prefix of the entry. -/
theorem C20_hint_no_panic (fts : Text → Text → Bool) (h : Hist) (line : Text) :
    (h.hint fts line (blen line)).2 ≠ none := by
  unfold Hist.hint
  split
  · simp
  · intro hn
    simp only [beq_self_eq_true, if_true] at hn
    generalize hst : Hist.startsWith fts h line (h.len - 1) Dir.reverse = res at hn
    rcases res with ⟨h', _ | ⟨i, entry, p⟩⟩
    · simp at hn
    · have hs : (h.startsWith fts line (h.len - 1) .reverse).2 = some (i, entry, p) := by rw [hst]
      obtain ⟨_, _, ⟨a, b, hab, _, hlo⟩, _⟩ := C20_starts_with_safe fts h line _ _ i entry p hs
      have : splitAtByte entry (blen line) = some (a, b) := by
        rw [hab, ← blen_eq_of_lower_eq hlo]; exact splitAtByte_append a b
      simp only [this] at hn
      split at hn <;> simp at hn

/-- The pre-repair behaviour, as a counter-example to the same statement: had the offset been
    taken from the text alone (`pos = len(text)`) for the candidate FTS proposes for `ls!!!!!!!!`,
    the slice would be out of range. -/
example : splitAtByte "ls".toList (blen "ls!!!!!!!!".toList) = none := by decide

/-! ### non-vacuity: concrete runs (kernel-evaluated) -/

/-- rowids become sparse after a duplicate and a trim; the walk still shows each line once -/
example :
    let h := ((Hist.openDb ⟨100, false, true⟩ {}).run (fun c => c == ' ') ftsSimple
      [.add "a".toList, .add "b".toList, .add "a".toList, .add "c".toList, .setMax 2]).1
    h.db.rows.map (·.rowid) = [3, 4] ∧
    walk h 10 = ([(3, "c".toList), (2, "a".toList)], [(3, "c".toList)]) := by decide

/-- the D20 witnesses on the repaired code: no error outcome exists, `-l` does not find `ls`,
    `ls!!!!!!!!` finds nothing and the hinter answers "no hint" -/
example :
    let h := ((Hist.openDb ⟨100, false, true⟩ {}).run (fun c => c == ' ') ftsSimple [.add "ls".toList]).1
    (h.search ftsSimple "-l".toList 0 .forward).2 = none ∧
    (h.search ftsSimple "\"".toList 0 .forward).2 = none ∧
    (h.startsWith ftsSimple "ls!!!!!!!!".toList 0 .forward).2 = none ∧
    (h.hint ftsSimple "ls!!!!!!!!".toList 10).2 = some none ∧
    (h.startsWith ftsSimple "L".toList 0 .reverse).2 = some (0, "ls".toList, 1) := by decide

/-! ### gap filling: arbitrary operation histories, refinement of the declarative store -/

/-- The refusal rules are those of the default (in-memory) history: with ignore-dups off the two
    `add`s give the same verdict on every line whenever size limit and ignore-space agree; with
    ignore-dups on the default history additionally refuses a repeat of its newest entry (the
    SQLite history accepts it and keeps the newest occurrence only, see `C20_order`). No
    hypothesis on either history's content. -/
theorem C20_refusal_eq_default (ws : Char → Bool) (h : Hist) (m : MemHist) (l : Text)
    (hm : m.maxLen = h.maxLen) (hs : m.ignoreSpace = h.ignoreSpace) :
    (m.ignoreDups = false → (h.add ws l).2 = (m.add ws l).2) ∧
    ((m.add ws l).2 = false ↔
      ((h.add ws l).2 = false ∨ (m.ignoreDups = true ∧ m.entries.getLast? = some l))) := by
  unfold Hist.add Hist.ignore MemHist.add MemHist.ignore
  rw [hm, hs]
  cases l with
  | nil => simp
  | cons c t =>
    by_cases hz : h.maxLen = 0
    · simp [hz]
    · cases hsp : h.ignoreSpace <;> cases hw : ws c <;> cases hd : m.ignoreDups <;>
        simp [hz, hw, Hist.addEntry] <;>
        (cases hl : m.entries.getLast? <;> simp <;> (split <;> simp_all))

example : (MemHist.new 5 true false).maxLen = (Hist.openDb ⟨5, true, false⟩ {}).maxLen := rfl

/-- Over every sequence of public operations on a freshly created database file the unique index
    exists exactly when ignore-dups is on (together with `Inv`). This discharges the hypothesis
    `h.db.index = h.ignoreDups` of `C20_order` for every reachable connection. -/
theorem C20_index_follows_setting (ws : Char → Bool) (fts : Text → Text → Bool) (c : Cfg) (ops : List QOp) :
    Good ((Hist.openDb c {}).run ws fts ops).1 :=
  run_good ws fts (fresh_good c) ops

/-- Refinement, one step: on a connection whose table is in rowid order and whose index follows the
    setting (every reachable connection, `C20_index_follows_setting`), `add` does to the content
    of the table — the rows as (session, line) pairs in order, rowids and their holes forgotten —
    exactly what the declarative store `Spec.Sq.addLine` prescribes, with the same verdict. -/
theorem C20_add_refines (ws : Char → Bool) (h : Hist) (hg : Good h) (l : Text) :
    (h.add ws l).1.abs = (Spec.Sq.addLine ws h.abs l).1 ∧
    (h.add ws l).2 = (Spec.Sq.addLine ws h.abs l).2 :=
  ⟨(add_abs ws hg l).1, (add_abs ws hg l).2.1⟩

/-- Refinement, a whole session: after ANY sequence of public operations on a fresh database file,
    entering any list of lines gives the verdicts and the table content (as (session, line) pairs
    in order) that the declarative store `Spec.Sq.addLines` computes from the content before —
    refusals, order of entry, and same-session re-entries counting as their newest occurrence. -/
theorem C20_session_refines (ws : Char → Bool) (fts : Text → Text → Bool) (c : Cfg) (ops : List QOp)
    (ls : List Text) :
    let h := ((Hist.openDb c {}).run ws fts ops).1
    (addAll ws h ls).1.abs = (Spec.Sq.addLines ws h.abs ls).1 ∧
    (addAll ws h ls).2 = (Spec.Sq.addLines ws h.abs ls).2 := by
  intro h
  have := addAll_abs ws (C20_index_follows_setting ws fts c ops) ls
  exact ⟨this.1, this.2.1⟩

/-- Durability in order, for arbitrary histories: take the connection after ANY sequence of public
    operations on a fresh database file, enter any list of lines `ls`, close, and reopen with any
    configuration `c'` (if `c'` turns ignore-dups on, the table must not hold same-session
    duplicates recorded while it was off — otherwise `C20_dedupe` applies). Then walking from the
    newest entry to the oldest shows exactly the lines of the declarative store
    (`Spec.Sq.addLines` on the content before), each stored line once, newest first, and the walk
    back shows the same rows but the oldest, oldest first. -/
theorem C20_session_walk_reopen (ws : Char → Bool) (fts : Text → Text → Bool) (c : Cfg) (ops : List QOp)
    (ls : List Text) (c' : Cfg) (fuel : Nat) :
    let h := ((Hist.openDb c {}).run ws fts ops).1
    let h' := (addAll ws h ls).1
    (c'.ignoreDups = true → h'.db.index = false → hasDup h'.db.rows = false) →
    h'.db.rows.length < fuel →
    ((walk (Hist.openDb c' h'.db) fuel).1.map (·.2) =
        (Spec.Sq.lines (Spec.Sq.addLines ws h.abs ls).1).reverse ∧
     (walk (Hist.openDb c' h'.db) fuel).2 = (walk (Hist.openDb c' h'.db) fuel).1.reverse.drop 1) := by
  intro h h' hnd hf
  obtain ⟨a1, _, a3⟩ := addAll_abs ws (C20_index_follows_setting ws fts c ops) ls
  have hw := (C20_reopen h' a3.inv c' hnd fuel hf).2
  rw [hw, C20_walk h' a3.inv fuel hf]
  refine ⟨?_, ?_⟩
  · rw [← a1]
    simp only [Spec.Sq.lines, Hist.abs, List.map_reverse, List.map_map]
    congr 1
  · simp only [← List.map_reverse, List.reverse_reverse, ← List.map_drop, List.drop_one]

/-- non-vacuity: a run with a duplicate, a trim and a reopening, then a session re-entering a line -/
example :
    let h := ((Hist.openDb ⟨100, true, true⟩ {}).run (fun c => c == ' ') ftsSimple
      [.add "a".toList, .add "b".toList, .add "a".toList, .setMax 2, .reopen ⟨100, true, true⟩]).1
    let h' := (addAll (fun c => c == ' ') h ["a".toList, " x".toList, "c".toList, "a".toList]).1
    hasDup h'.db.rows = false ∧ h'.db.rows.map (·.rowid) = [2, 3, 5, 6] ∧
    (walk (Hist.openDb ⟨100, false, true⟩ h'.db) 10).1.map (·.2) =
      ["a".toList, "c".toList, "a".toList, "b".toList] := by decide

/-- the declarative store's initial state for a configuration (the one the driver judges with) -/
def C20_spec0 (c : Cfg) : Spec.Sq.SState :=
  { max := c.maxLen, ignoreSpace := c.ignoreSpace, ignoreDups := c.ignoreDups }

/-- Refinement over arbitrary operation histories: for EVERY sequence of public operations (adds,
    limits, both toggles, reopenings, abrupt terminations, reads, searches, hints) on a fresh
    database file and every FTS oracle, the lines stored in the table, in rowid order, are exactly
    the lines of the declarative store of Rl/Spec/Sqlite.lean run over the same operations
    (`specAfter`: the state component of `judge`), and the settings agree. The model's session
    ids (one per connection that stored something) and the spec's epochs (one per open) are
    related by a renaming, so "same session" means the same on both sides; holes in the rowids
    play no role. -/
theorem C20_run_refines (ws : Char → Bool) (fts : Text → Text → Bool) (c : Cfg) (ops : List QOp) :
    let r := (Hist.openDb c {}).run ws fts ops
    let s := specAfter ws (C20_spec0 c) ops r.2
    r.1.db.rows.map (·.entry) = Spec.Sq.lines s ∧
    r.1.maxLen = s.max ∧ r.1.ignoreSpace = s.ignoreSpace ∧ r.1.ignoreDups = s.ignoreDups := by
  intro r s
  obtain ⟨_, hs⟩ := run_sim ws fts (fresh_good2 c) (fresh_sim c) ops
  have hl := hs.lines
  refine ⟨?_, hs.max, hs.space, hs.dups⟩
  refine Eq.trans ?_ hl
  simp [Spec.Sq.lines, Hist.abs, key, List.map_map, Function.comp_def, r]

/-- The walk shows exactly the accepted lines, for arbitrary operation histories: after EVERY
    sequence of public operations on a fresh database file, previous-history from the line being
    edited down to the oldest entry shows the lines of the declarative store, newest first, each
    stored line once, and next-history back shows the same entries but the oldest in the opposite
    order — the first and third checks of the spec's `walk` verdict. (`fuel` only bounds the
    loop of the model's walk.) -/
theorem C20_walk_shows_spec_lines (ws : Char → Bool) (fts : Text → Text → Bool) (c : Cfg) (ops : List QOp)
    (fuel : Nat) (hf : ((Hist.openDb c {}).run ws fts ops).1.db.rows.length < fuel) :
    let r := (Hist.openDb c {}).run ws fts ops
    let s := specAfter ws (C20_spec0 c) ops r.2
    (walk r.1 fuel).1.map (·.2) = (Spec.Sq.lines s).reverse ∧
    (walk r.1 fuel).2 = (walk r.1 fuel).1.reverse.drop 1 := by
  intro r s
  have h1 := (C20_run_refines ws fts c ops).1
  rw [C20_walk_run ws fts c ops fuel hf]
  refine ⟨?_, ?_⟩
  · show _ = (Spec.Sq.lines (specAfter ws (C20_spec0 c) ops ((Hist.openDb c {}).run ws fts ops).2)).reverse
    rw [← h1]
    simp only [List.map_reverse, List.map_map]
    congr 1
  · simp only [← List.map_reverse, List.reverse_reverse, ← List.map_drop, List.drop_one]

/-- The model satisfies the declarative spec on the whole store fragment: for EVERY sequence of
    add / set_max_len / ignore_dups / ignore_space / reopen / abrupt-termination / len operations
    on a fresh database file, the spec's judge accepts every answer of the model (`judgeAll` is
    the function the driver runs on the implementation's answers) — in particular every `add`
    verdict, also those of a child that is gone without closing, is the one the refusal rules
    prescribe. -/
theorem C20_store_ops_judged (ws : Char → Bool) (fts : Text → Text → Bool) (c : Cfg) (ops : List QOp)
    (hall : ops.all isStore = true) :
    Spec.Sq.judgeAll ws (C20_spec0 c) 0 (ops.zip ((Hist.openDb c {}).run ws fts ops).2) = none :=
  run_judge_store ws fts (fresh_good2 c) (fresh_sim c) ops hall 0

example : [QOp.add "a".toList, .dups false, .add "a".toList, .crash ⟨3, true, true⟩ [" b".toList, "c".toList],
    .setMax 1, .len].all isStore = true := by decide

/-- Observation (not a violation of C20 as stated, but a difference to the default history): the
    size limit is enforced by `set_max_len` only — `add` never trims, so the number of stored
    lines may exceed `max_len`. Replay: `sqlite 1 0 1 add:97 add:98 walk` shows two entries. -/
theorem C20_limit_not_enforced_on_add :
    let h := ((Hist.openDb ⟨1, false, true⟩ {}).run (fun c => c == ' ') ftsSimple
      [.add "a".toList, .add "b".toList]).1
    h.maxLen = 1 ∧ h.db.rows.length = 2 := by decide

/-- The model satisfies the declarative spec on every run: for EVERY sequence of public
    operations on a fresh database file — add, set_max_len, both toggles, reopen, abrupt
    termination, len, get, walk, search, starts_with, hint — and every FTS oracle, the spec's
    judge (`Spec.Sq.judgeAll`, the function the driver applies to the real crate's answers)
    accepts every answer of the model: add verdicts follow the refusal rules; `get` returns a
    stored line; the walk shows exactly the accepted lines newest→oldest with strictly decreasing
    indices and the same entries but the oldest on the way back; a search / prefix search answers
    nothing or a stored line that contains / starts with the text ignoring case at the reported
    offset; the hinter does not panic and its hint completes the typed text to a stored line.
    Only hypothesis: the table never holds `walkFuel` = 10000 rows or more (the bound of the walk
    loops in model and harness). -/
theorem C20_model_satisfies_spec (ws : Char → Bool) (fts : Text → Text → Bool) (c : Cfg) (ops : List QOp)
    (hfuel : ∀ n, ((Hist.openDb c {}).run ws fts (ops.take n)).1.db.rows.length < walkFuel) :
    Spec.Sq.judgeAll ws (C20_spec0 c) 0 (ops.zip ((Hist.openDb c {}).run ws fts ops).2) = none :=
  run_judge_full ws fts (fresh_good2 c) (fresh_sim c) ops hfuel 0

/-- … without any hypothesis when the run contains no `walk`. -/
theorem C20_model_satisfies_spec_nowalk (ws : Char → Bool) (fts : Text → Text → Bool) (c : Cfg) (ops : List QOp)
    (hall : ops.all (fun op => isStore op || isRead op) = true) :
    Spec.Sq.judgeAll ws (C20_spec0 c) 0 (ops.zip ((Hist.openDb c {}).run ws fts ops).2) = none :=
  run_judge_all ws fts (fresh_good2 c) (fresh_sim c) ops hall 0

example : [QOp.add "ls".toList, .search "\"".toList 0 .forward, .hint "l".toList, .get 0 .reverse,
    .startsWith "L".toList 0 .reverse].all (fun op => isStore op || isRead op) = true := by decide

/-- … and the 10000-row hypothesis is discharged by counting: if fewer than `walkFuel` = 10000
    lines are offered to `add` in the whole run (`offeredAll`: one per `add`, the length of the
    list for an abruptly terminated child), the judge accepts every answer of the model, for
    EVERY operation sequence on a fresh database file and every FTS oracle. -/
theorem C20_model_satisfies_spec_bounded (ws : Char → Bool) (fts : Text → Text → Bool) (c : Cfg) (ops : List QOp)
    (hb : offeredAll ops < walkFuel) :
    Spec.Sq.judgeAll ws (C20_spec0 c) 0 (ops.zip ((Hist.openDb c {}).run ws fts ops).2) = none := by
  apply C20_model_satisfies_spec
  intro n
  have h1 := run_len ws fts (fresh_good2 c) (fresh_sim c) (ops.take n)
  have h2 := offeredAll_take ops n
  have h3 : (Hist.openDb c {}).db.rows.length = 0 := by
    obtain ⟨ml, isp, idp⟩ := c
    cases idp <;> simp [Hist.openDb, Hist.checkSchema, Hist.setIgnoreDupsIndex, hasDup]
  omega

example : offeredAll [QOp.add "a".toList, .walk, .crash ⟨3, true, true⟩ ["b".toList, "c".toList], .walk] < walkFuel := by
  decide
