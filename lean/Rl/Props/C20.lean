/-
  Property C20 — the SQLite history stores entries durably in order and its searches are safe.
  Model: Rl/Sqlite.lean (transliteration of src/sqlite_history.rs and HistoryHinter).
  Spec: Rl/Spec/Sqlite.lean (written from the property text).
-/
import Rl.Sqlite
import Rl.Spec.Sqlite
import Rl.Lemmas.Sqlite
open Rl Rl.Sq

/-- The refusal rule is the default history's without the consecutive-duplicate clause: a line is
    refused iff it is empty, the size limit is zero, or it starts with a blank while ignore-space
    is on. -/
theorem C20_refusal (ws : Char → Bool) (h : Hist) (l : Text) :
    (h.add ws l).2 = false ↔
      (l = [] ∨ h.maxLen = 0 ∨ (h.ignoreSpace = true ∧ ∃ c t, l = c :: t ∧ ws c = true)) := by
  unfold Hist.add Hist.ignore
  cases l with
  | nil => simp
  | cons c t =>
    by_cases hm : h.maxLen = 0
    · simp [hm]
    · cases hsp : h.ignoreSpace <;> cases hw : ws c <;> simp [hm, hw, Hist.addEntry]

/-! ### the store: order, walk, reopening -/

/-- Over every sequence of public operations (adds, limits, toggles, reopenings, abrupt
    terminations, reads, searches) on a freshly created database file, the table stays in rowid
    order, rowids start at 1 and `len` (the cached largest rowid) bounds every rowid — the
    invariant `Inv` the walk relies on. Holds for every FTS oracle. -/
theorem C20_sorted (ws : Char → Bool) (fts : Text → Text → Bool) (c : Cfg) (ops : List QOp) :
    Inv ((Hist.openDb c {}).run ws fts ops).1 :=
  run_inv ws fts (openDb_inv (db := {}) c (by simp [Sorted]) (by simp) (fun _ => rfl)) ops

/-- The editor's walk — previous-history from the line being edited (index `len`) until it stops,
    then next-history until it is back — shows every stored row exactly once on the way down,
    newest first, and every row but the oldest exactly once on the way back, oldest first; the
    index shown for a row is `rowid - 1`. Gaps in the rowids do not matter. -/
theorem C20_walk (h : Hist) (hi : Inv h) (fuel : Nat) (hf : h.db.rows.length < fuel) :
    walk h fuel = (h.db.rows.reverse.map shown, h.db.rows.tail.map shown) :=
  walk_eq hi hf

/-- … in particular after any operation sequence from a fresh database. -/
theorem C20_walk_run (ws : Char → Bool) (fts : Text → Text → Bool) (c : Cfg) (ops : List QOp) (fuel : Nat)
    (hf : ((Hist.openDb c {}).run ws fts ops).1.db.rows.length < fuel) :
    walk ((Hist.openDb c {}).run ws fts ops).1 fuel =
      (((Hist.openDb c {}).run ws fts ops).1.db.rows.reverse.map shown,
       ((Hist.openDb c {}).run ws fts ops).1.db.rows.tail.map shown) :=
  walk_eq (C20_sorted ws fts c ops) hf

/-- An accepted line becomes the newest row: it gets a rowid above every stored one, all other
    rows keep their order, and with ignore-dups on the older occurrence of the same line *in the
    same session* (and only that) is gone — a line re-entered in a session counts as its newest
    occurrence. The session is the connection's, created on its first accepted line. -/
theorem C20_order (ws : Char → Bool) (h : Hist) (l : Text) (hi : Inv h) (hidx : h.db.index = h.ignoreDups)
    (ha : (h.add ws l).2 = true) :
    ∃ sid rid, sid = (if h.sessionId = 0 then h.db.sessions + 1 else h.sessionId) ∧
      (h.add ws l).1.db.rows =
        (if h.ignoreDups then h.db.rows.filter (fun r => !(r.entry == l && r.session == sid)) else h.db.rows)
          ++ [{ rowid := rid, session := sid, entry := l }] ∧
      (∀ r ∈ h.db.rows, r.rowid < rid) ∧ (h.add ws l).1.len = rid := by
  obtain ⟨e1, e2, e3⟩ := createSession_rows hi.init hidx
  unfold Hist.add at ha ⊢
  split at ha
  · simp at ha
  · rename_i hig
    simp only [hig, Bool.false_eq_true, if_false]
    refine ⟨h.createSession.sessionId, maxRowid h.db.rows + 1, e3, ?_, ?_, ?_⟩
    · simp only [Hist.addEntry, e1, e2, sameKey]
    · intro r hr
      have := le_maxRowid hi.sorted hr
      omega
    · simp [Hist.addEntry, Hist.len, e1]

/-- Closing and reopening the file (any configuration) keeps the table, provided turning
    ignore-dups on does not have to collapse same-session duplicates recorded while it was off;
    hence the walk after reopening shows the same rows in the same order. Durability of the
    committed rows themselves is SQLite's (trusted, exercised by the harness). -/
theorem C20_reopen (h : Hist) (hi : Inv h) (c : Cfg)
    (hnd : c.ignoreDups = true → h.db.index = false → hasDup h.db.rows = false)
    (fuel : Nat) (hf : h.db.rows.length < fuel) :
    (Hist.openDb c h.db).db.rows = h.db.rows ∧ walk (Hist.openDb c h.db) fuel = walk h fuel := by
  have hr := openDb_rows c hi.init hnd
  have hi' : Inv (Hist.openDb c h.db) :=
    openDb_inv c hi.sorted hi.pos (fun h0 => by rw [hi.init] at h0; cases h0)
  refine ⟨hr, ?_⟩
  rw [walk_eq hi' (by rw [hr]; exact hf), walk_eq hi hf, hr]

/-- When same-session duplicates were recorded with ignore-dups off, turning it on (by
    `ignore_dups(true)` or by reopening with it) keeps exactly the newest occurrence of every
    (line, session) and still succeeds. -/
theorem C20_dedupe (h : Hist) (hoff : h.db.index = false) (hdup : hasDup h.db.rows = true) :
    ({ h with ignoreDups := true } : Hist).setIgnoreDupsIndex.db.rows = dedupe h.db.rows ∧
    ({ h with ignoreDups := true } : Hist).setIgnoreDupsIndex.db.index = true := by
  simp [Hist.setIgnoreDupsIndex, hoff, hdup]

/-! ### searches (for every FTS oracle: whatever candidates the full-text index proposes) -/

/-- The text never reaches the FTS query parser as syntax: the query is one quoted phrase whose
    body holds only token characters and blanks, an optional leading `^` (prefix search) and an
    optional final `*` — no quote, parenthesis, operator or column filter can come from the text;
    a text without token characters is not sent at all. -/
theorem C20_phrase_inert (t : Text) (sw : Bool) (q : Text) (h : ftsPhrase t sw = some q) :
    ∃ body, q = ['"'] ++ (if sw then ['^'] else []) ++ body
                ++ (if (t.getLast?.map isTok).getD false then ['*'] else []) ++ ['"'] ∧
      body.length = t.length ∧ (∀ c ∈ body, isTok c = true ∨ c = ' ') ∧ (∃ c ∈ t, isTok c = true) := by
  unfold ftsPhrase at h
  split at h
  · simp at h
  · rename_i hany
    simp at h
    refine ⟨t.map (fun c => if isTok c then c else ' '), by rw [← h]; simp, by simp, ?_, ?_⟩
    · intro c hc
      rw [List.mem_map] at hc
      obtain ⟨x, _, rfl⟩ := hc
      by_cases hx : isTok x = true <;> simp [hx]
    · simpa using hany

/-- A substring search answers nothing, or a stored entry (on the requested side of `start`)
    that really contains the text ignoring ASCII case, at a byte offset on a character boundary
    with the whole occurrence inside the entry. There is no error outcome. -/
theorem C20_search_safe (fts : Text → Text → Bool) (h : Hist) (t : Text) (s : Nat) (d : Dir)
    (i : Nat) (e : Text) (pos : Nat) (hs : (h.search fts t s d).2 = some (i, e, pos)) :
    t ≠ [] ∧
    (∃ r, r ∈ h.db.rows ∧ r.entry = e ∧ i = r.rowid - 1 ∧
      (d = .forward → s + 1 ≤ r.rowid) ∧ (d = .reverse → r.rowid ≤ s + 1)) ∧
    (∃ a b, e = a ++ b ∧ pos = blen a ∧ lower t <+: lower b) ∧
    pos + blen t ≤ blen e ∧ Spec.Sq.containsAt t e pos = true := by
  obtain ⟨ht, r, hr, he, hi, hp, hf, hrv⟩ := searchMatch_some hs
  obtain ⟨a, b, hab, hpos, hpre⟩ := matchPos_search hp
  refine ⟨ht, ⟨r, hr, he, hi, hf, hrv⟩, ⟨a, b, hab, hpos, hpre⟩, ?_, ?_⟩
  · obtain ⟨k, hk⟩ := hpre
    have : blen b = blen t + blen k := by
      rw [← blen_lower b, ← hk, blen_append, blen_lower]
    rw [hab, hpos, blen_append]; omega
  · simp only [Spec.Sq.containsAt, hab, hpos, splitAtByte_append]
    exact List.isPrefixOf_iff_prefix.mpr hpre

/-- A prefix search answers nothing, or a stored entry that really starts with the text ignoring
    ASCII case; the offset is the length of the text, which is a character boundary inside the entry. -/
theorem C20_starts_with_safe (fts : Text → Text → Bool) (h : Hist) (t : Text) (s : Nat) (d : Dir)
    (i : Nat) (e : Text) (pos : Nat) (hs : (h.startsWith fts t s d).2 = some (i, e, pos)) :
    t ≠ [] ∧
    (∃ r, r ∈ h.db.rows ∧ r.entry = e ∧ i = r.rowid - 1 ∧
      (d = .forward → s + 1 ≤ r.rowid) ∧ (d = .reverse → r.rowid ≤ s + 1)) ∧
    (∃ a b, e = a ++ b ∧ pos = blen a ∧ lower a = lower t) ∧
    pos = blen t ∧ pos ≤ blen e ∧ IsBoundary e pos ∧ Spec.Sq.startsAt t e pos = true := by
  obtain ⟨ht, r, hr, he, hi, hp, hf, hrv⟩ := searchMatch_some hs
  obtain ⟨a, b, hab, hpos, hlo⟩ := matchPos_startsWith hp
  refine ⟨ht, ⟨r, hr, he, hi, hf, hrv⟩, ⟨a, b, hab, hpos, hlo⟩, ?_, ?_, ⟨a, b, hab, hpos⟩, ?_⟩
  · rw [hpos]; exact blen_eq_of_lower_eq hlo
  · rw [hab, hpos, blen_append]; omega
  · simp only [Spec.Sq.startsAt, hab, hpos, splitAtByte_append]
    simpa [Spec.Sq.fold, lower] using hlo

/-- `HistoryHinter` on the SQLite history cannot panic: the slice `entry[pos..]` it takes is at
    the end of a prefix of the entry. -/
theorem C20_hint_no_panic (fts : Text → Text → Bool) (h : Hist) (line : Text) :
    (h.hint fts line (blen line)).2 ≠ none := by
  unfold Hist.hint
  split
  · simp
  · intro hn
    simp only [beq_self_eq_true, if_true] at hn
    generalize hst : Hist.startsWith fts h line (h.len - 1) Dir.reverse = res at hn
    rcases res with ⟨h', _ | ⟨i, entry, p⟩⟩
    · simp at hn
    · have hs : (h.startsWith fts line (h.len - 1) .reverse).2 = some (i, entry, p) := by rw [hst]
      obtain ⟨_, _, ⟨a, b, hab, _, hlo⟩, _⟩ := C20_starts_with_safe fts h line _ _ i entry p hs
      have : splitAtByte entry (blen line) = some (a, b) := by
        rw [hab, ← blen_eq_of_lower_eq hlo]; exact splitAtByte_append a b
      simp only [this] at hn
      split at hn <;> simp at hn

/-- The pre-repair behaviour, as a counter-example to the same statement: had the offset been
    taken from the text alone (`pos = len(text)`) for the candidate FTS proposes for `ls!!!!!!!!`,
    the slice would be out of range. -/
example : splitAtByte "ls".toList (blen "ls!!!!!!!!".toList) = none := by decide

/-! ### non-vacuity: concrete runs (kernel-evaluated) -/

/-- rowids become sparse after a duplicate and a trim; the walk still shows each line once -/
example :
    let h := ((Hist.openDb ⟨100, false, true⟩ {}).run (fun c => c == ' ') ftsSimple
      [.add "a".toList, .add "b".toList, .add "a".toList, .add "c".toList, .setMax 2]).1
    h.db.rows.map (·.rowid) = [3, 4] ∧
    walk h 10 = ([(3, "c".toList), (2, "a".toList)], [(3, "c".toList)]) := by decide

/-- the D20 witnesses on the repaired code: no error outcome exists, `-l` does not find `ls`,
    `ls!!!!!!!!` finds nothing and the hinter answers "no hint" -/
example :
    let h := ((Hist.openDb ⟨100, false, true⟩ {}).run (fun c => c == ' ') ftsSimple [.add "ls".toList]).1
    (h.search ftsSimple "-l".toList 0 .forward).2 = none ∧
    (h.search ftsSimple "\"".toList 0 .forward).2 = none ∧
    (h.startsWith ftsSimple "ls!!!!!!!!".toList 0 .forward).2 = none ∧
    (h.hint ftsSimple "ls!!!!!!!!".toList 10).2 = some none ∧
    (h.startsWith ftsSimple "L".toList 0 .reverse).2 = some (0, "ls".toList, 1) := by decide
