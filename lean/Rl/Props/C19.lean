/-
  Property C19 — messages from other threads appear exactly once and never corrupt the line.

  Model: Rl/Printer.lean — a labelled transition system of the external-printer protocol at the
  granularity of its atomic steps (`ExternalPrinter::print`: load flag, direct write | lock, send,
  wake-up byte, unlock; `PosixRawReader::select`: tty first, then pipe byte, `try_recv`;
  `external_print`; the raw-mode flag stores of `enable_raw_mode` / `disable_raw_mode`; sub-loops
  reading with `next_key`).  Spec: Rl/Spec/Printer.lean.  Helper lemmas: Rl/Lemmas/Printer.lean.

  Every theorem below quantifies over ALL reachable states (`Reach`): any number of printer threads
  (`pr : Nat → Printer`), any number of messages, any interleaving of the steps, any key and read
  pattern of the environment.  Trusted: SeqCst atomics, `sync_channel(1)`, mutex and pipe behave as
  the steps say; one `write` of a message to the terminal is atomic.
-/
import Rl.Printer
import Rl.Lemmas.Printer
open Rl.Printer

/-! ## exactly once -/

/-- Every message thread `t` has handed to `print` (`hist`, in call order) is in exactly one place:
    shown by the editor, in the editor's hand, in the channel, in the printer's hand on the channel
    route, written directly, or in the printer's hand on the direct route — the concatenation of
    these places is a permutation of the call history (so: as often as it was handed over, never more). -/
theorem C19_exactly_once (s : Sys) (h : Reach s) (t : Nat) :
    (shownOf t s.out ++ edHandOf t s ++ chanOf t s ++ rawHandOf (s.pr t)
      ++ (directOf t s.out ++ cookedHandOf (s.pr t))).Perm (s.pr t).hist := by
  have hc := (reach_inv h).1.count t
  rw [List.perm_iff_count]
  intro a
  have := hc a
  simp only [chanSeq, directSeq] at this
  simp only [List.count_append] at this ⊢
  omega

/-- … in particular the terminal never carries a message more often than it was handed to `print`;
    with distinct messages: never twice. -/
theorem C19_never_twice (s : Sys) (h : Reach s) (t : Nat) (hd : (s.pr t).hist.Nodup) :
    (shownOf t s.out ++ directOf t s.out).Nodup := by
  have hp := C19_exactly_once s h t
  rw [List.nodup_iff_count] at hd ⊢
  intro a
  have h1 := hd a
  have h2 := List.Perm.count_eq hp a
  simp only [List.count_append] at h2 ⊢
  omega

/-- nothing appears that was not handed to `print` by that thread -/
theorem C19_only_sent (s : Sys) (h : Reach s) (t id : Nat)
    (hm : id ∈ shownOf t s.out ∨ id ∈ directOf t s.out) : id ∈ (s.pr t).hist := by
  have hp := C19_exactly_once s h t
  apply hp.subset
  simp only [List.mem_append]
  rcases hm with hm | hm
  · exact Or.inl (Or.inl (Or.inl (Or.inl hm)))
  · exact Or.inr (Or.inl hm)

/-! ## the wake-up pipe and the one-slot channel -/

/-- `pipe + [a printer is between send and the wake-up byte] + [the editor is between reading the
    byte and try_recv] = [the channel holds a message]` -/
theorem C19_pipe_chan (s : Sys) (h : Reach s) :
    s.pipe + sentFlag s + gotFlag s = chanFlag s :=
  (reach_inv h).2.count

/-- a wake-up always finds its message: when the editor has read the wake-up byte, `try_recv`
    cannot come back empty (so no byte is ever consumed without its message, and no message is
    left behind with an empty pipe while nobody is about to write the byte) -/
theorem C19_wakeup_finds_message (s : Sys) (h : Reach s) (hg : s.epc = .gotByte) :
    s.chan.isSome = true := by
  have := C19_pipe_chan s h
  simp only [gotFlag, chanFlag, hg] at this
  by_cases hc : s.chan.isSome = true
  · exact hc
  · simp [hc] at this

/-- the pipe never holds more than one byte, and `select` reporting it readable is never wrong -/
theorem C19_pipe_le_one (s : Sys) (h : Reach s) : s.pipe ≤ 1 ∧ (s.epc = .woken → s.pipe = 1) := by
  have h1 := C19_pipe_chan s h
  have h2 := (reach_inv h).2.woken
  have : chanFlag s ≤ 1 := by unfold chanFlag; split <;> omega
  exact ⟨by omega, fun hw => by have := h2 hw; omega⟩

/-- no lost wake-up: a message in the channel whose sender has released the mutex has its byte in
    the pipe, so a reader waiting in the main loop with no key pending is not blocked — `select`
    returns and the message is taken -/
theorem C19_message_wakes_reader (s : Sys) (h : Reach s) (he : s.epc = .waiting) (hk : s.keys = [])
    (hl : s.wlock = none) (hc : s.chan.isSome = true) :
    s.pipe = 1 ∧ (step s .eWake).isSome = true := by
  have h1 := C19_pipe_chan s h
  simp only [sentFlag, gotFlag, chanFlag, hl, he, hc] at h1
  have hp : s.pipe = 1 := by simpa using h1
  exact ⟨hp, by simp [step, he, hk, hp]⟩

/-- the writer mutex is held exactly by the printer between `lock` and `unlock` -/
theorem C19_lock (s : Sys) (h : Reach s) (t : Nat) : holds (s.pr t) = true ↔ s.wlock = some t :=
  (reach_inv h).2.lock t

/-! ## order -/

/-- Per thread, the messages shown by the editor appear in the order of the `print` calls, and so
    do the directly written ones (each is a sub-sequence of the call history). -/
theorem C19_thread_order (s : Sys) (h : Reach s) (t : Nat) :
    (shownOf t s.out).Sublist (s.pr t).hist ∧ (directOf t s.out).Sublist (s.pr t).hist := by
  have hi := (reach_inv h).1
  constructor
  · refine List.Sublist.trans ?_ (hi.chanSub t)
    simp only [chanSeq, List.append_assoc]
    exact List.sublist_append_left _ _
  · refine List.Sublist.trans ?_ (hi.directSub t)
    exact List.sublist_append_left _ _

/-- The two routes are not ordered with respect to each other: a message that took the channel
    route just before the read ended (it waits there for the next read) is overtaken by the same
    thread's next message, written directly.  The property only orders messages sent during one
    wait, so this is recorded, not claimed as a defect. -/
def C19_inversion_run : List Label :=
  [.cmdRead, .eStoreTrue, .eMarkOn, .ePrompt, .issue 0 1, .issue 0 2, .pLoad 0,
   .keyWrite .enter, .keyArrive, .eKey, .eMarkOff, .eStoreFalse,
   .pLock 0, .pSend 0, .pByte 0, .pUnlock 0, .pLoad 0, .pDirect 0,
   .cmdRead, .eStoreTrue, .eMarkOn, .ePrompt, .eWake, .eReadByte, .eRecv, .eShow]

theorem C19_cross_route_inversion :
    ∃ s, Reach s ∧ (s.pr 0).hist = [1, 2] ∧
      s.out = [.rawOn, .prompt, .rawOff, .direct ⟨0, 2⟩, .rawOn, .prompt, .shown ⟨0, 1⟩] := by
  have h : (run init C19_inversion_run).map (fun s => ((s.pr 0).hist, s.out)) =
      some ([1, 2], [.rawOn, .prompt, .rawOff, .direct ⟨0, 2⟩, .rawOn, .prompt, .shown ⟨0, 1⟩]) := by decide
  cases hr : run init C19_inversion_run with
  | none => simp [hr] at h
  | some s =>
    simp only [hr, Option.map_some, Option.some.injEq, Prod.mk.injEq] at h
    exact ⟨s, reach_run _ _ hr, h.1, h.2⟩

/-! ## shown at the latest when the read waits -/

/-- When the editing thread is blocked in `select` (main loop, no key pending, pipe empty) and no
    printer is between `lock` and `unlock`, the channel is empty, and for every thread whose `print`
    calls have all returned, every message it ever handed over is on the terminal — exactly once
    (the terminal's messages of that thread are a permutation of its call history). -/
theorem C19_blocked_clean (s : Sys) (h : Reach s) (hb : s.blocked = true) (hl : s.wlock = none) :
    s.chan = none ∧
    ∀ t, (s.pr t).pc = .idle → (shownOf t s.out ++ directOf t s.out).Perm (s.pr t).hist := by
  simp only [Sys.blocked, Bool.and_eq_true, beq_iff_eq, List.isEmpty_iff] at hb
  obtain ⟨⟨he, _⟩, hp⟩ := hb
  have hc := C19_pipe_chan s h
  have hch : s.chan = none := by
    simp only [sentFlag, gotFlag, chanFlag, hl, he, hp] at hc
    cases hs : s.chan with
    | none => rfl
    | some m => simp [hs] at hc
  refine ⟨hch, fun t ht => ?_⟩
  have := C19_exactly_once s h t
  simpa [edHandOf, chanOf, rawHandOf, cookedHandOf, he, hch, ht] using this

/-- `blocked` is exactly "no step of the editing thread is enabled" in the main loop -/
theorem C19_blocked_iff (s : Sys) (he : s.epc = .waiting) :
    s.blocked = true ↔ step s .eKey = none ∧ step s .eWake = none := by
  simp only [Sys.blocked, he, step]
  cases hk : s.keys <;> cases hp : s.pipe <;> simp

/-- D21 (finding): the conclusion fails when the thread waits in a sub-loop (`next_key` instead of
    `wait_for_input`): reader asleep with no key pending, every `print` returned, the message still
    in the channel and not on the terminal. -/
def C19_d21_run : List Label :=
  [.cmdRead, .eStoreTrue, .eMarkOn, .ePrompt, .keyWrite .sub, .keyArrive, .eKey,
   .issue 0 7, .pLoad 0, .pLock 0, .pSend 0, .pByte 0, .pUnlock 0]

theorem C19_D21_reachable :
    ∃ s, Reach s ∧ s.epc = .sub ∧ s.keys = [] ∧ s.typing = none ∧ s.wlock = none ∧
      (s.pr 0).pc = .idle ∧ (s.pr 0).hist = [7] ∧ s.chan = some ⟨0, 7⟩ ∧ s.out = [.rawOn, .prompt] ∧
      (∀ l ∈ [Label.eKey, .eWake, .eReadByte, .eRecv, .eShow], step s l = none) := by
  have h : (run init C19_d21_run).map (fun s => (s.epc, s.keys, s.typing, s.wlock, (s.pr 0).pc, (s.pr 0).hist, s.chan, s.out,
        [Label.eKey, .eWake, .eReadByte, .eRecv, .eShow].map (fun l => (step s l).isNone))) =
      some (.sub, [], none, none, .idle, [7], some ⟨0, 7⟩, [.rawOn, .prompt], [true, true, true, true, true]) := by rfl
  cases hr : run init C19_d21_run with
  | none => simp [hr] at h
  | some s =>
    simp only [hr, Option.map_some, Option.some.injEq, Prod.mk.injEq, List.map_cons, List.map_nil,
      List.cons.injEq, Option.isNone_iff_eq_none, and_true] at h
    obtain ⟨h1, h2, h3, h4, h5, h6, h7, h8, h9, h10, h11, h12, h13⟩ := h
    refine ⟨s, reach_run _ _ hr, h1, h2, h3, h4, h5, h6, h7, h8, ?_⟩
    intro l hl
    simp only [List.mem_cons, List.not_mem_nil, or_false] at hl
    rcases hl with rfl | rfl | rfl | rfl | rfl <;> assumption

/-! ## never corrupts the line -/

/-- `external_print` (step `eShow`) does not touch the edited text, the typed keys or the results. -/
theorem C19_text_unaffected (s s' : Sys) (h : step s .eShow = some s') :
    s'.line = s.line ∧ s'.results = s.results ∧ s'.keys = s.keys := by
  simp only [step] at h
  split at h
  · cases h; simp
  · cases h

/-- no printer step touches the edited text either -/
theorem C19_printers_leave_text (s s' : Sys) (t : Nat) (l : Label)
    (hl : l ∈ [Label.pLoad t, .pDirect t, .pLock t, .pSend t, .pByte t, .pUnlock t])
    (h : step s l = some s') : s'.line = s.line ∧ s'.results = s.results ∧ s'.keys = s.keys := by
  simp only [List.mem_cons, List.not_mem_nil, or_false] at hl
  rcases hl with rfl | rfl | rfl | rfl | rfl | rfl <;> simp only [step] at h <;> split at h <;> cases h <;> simp [Sys.setPr]

/-- Full statement of "never corrupts the line" for direct writes: a message is written directly
    only while no read has its prompt on the terminal.  False — D18. -/
def C19_no_direct_write_inside_read_statement : Prop :=
  ∀ (s s' : Sys) (t : Nat), Reach s → step s (.pDirect t) = some s' →
    s.epc = .outside ∨ s.epc = .enabling ∨ s.epc = .drawing ∨ s.epc = .disabling

/-- what does hold: a direct write happens only for a flag value `false` that the printer loaded
    (check-then-act: the flag may have changed since) -/
theorem C19_no_direct_write_inside_read_partial (s s' : Sys) (t : Nat)
    (h : step s (.pDirect t) = some s') : ∃ id, (s.pr t).pc = .cooked id := by
  simp only [step] at h
  split at h
  · rename_i id hpc; exact ⟨id, hpc⟩
  · cases h

/-- D18 (finding): a print that loaded `raw = false` just before the read stored `true` writes its
    message after the prompt has been drawn; the editor is waiting and repaints nothing. -/
def C19_d18_run : List Label :=
  [.cmdRead, .issue 0 7, .pLoad 0, .eStoreTrue, .eMarkOn, .ePrompt, .pDirect 0]

theorem C19_D18_reachable :
    ∃ s, Reach s ∧ s.epc = .waiting ∧ s.raw = true ∧ s.out = [.rawOn, .prompt, .direct ⟨0, 7⟩] := by
  have h : (run init C19_d18_run).map (fun s => (s.epc, s.raw, s.out)) =
      some (.waiting, true, [.rawOn, .prompt, .direct ⟨0, 7⟩]) := by decide
  cases hr : run init C19_d18_run with
  | none => simp [hr] at h
  | some s =>
    simp only [hr, Option.map_some, Option.some.injEq, Prod.mk.injEq] at h
    exact ⟨s, reach_run _ _ hr, h.1, h.2.1, h.2.2⟩

theorem C19_no_direct_write_inside_read_counterexample : ¬ C19_no_direct_write_inside_read_statement := by
  intro hst
  have h : (run init (C19_d18_run.take 6)).map (fun s => (s.epc, (step s (.pDirect 0)).isSome)) =
      some (.waiting, true) := by decide
  cases hr : run init (C19_d18_run.take 6) with
  | none => simp [hr] at h
  | some s =>
    simp only [hr, Option.map_some, Option.some.injEq, Prod.mk.injEq] at h
    obtain ⟨s', hs'⟩ := Option.isSome_iff_exists.mp h.2
    have := hst s s' 0 (reach_run _ _ hr) hs'
    simp [h.1] at this

/-! ## non-vacuity -/

/-- a run in which a message sent during the wait is shown, after which the reader is blocked with
    the channel empty (the premises of `C19_blocked_clean` are satisfiable with a shown message) -/
example :
    (run init [.cmdRead, .eStoreTrue, .eMarkOn, .ePrompt, .issue 0 7, .pLoad 0, .pLock 0, .pSend 0, .pByte 0,
        .pUnlock 0, .eWake, .eReadByte, .eRecv, .eShow]).map
      (fun s => (s.blocked, s.wlock, s.chan, s.out, (s.pr 0).hist)) =
    some (true, none, none, [.rawOn, .prompt, .shown ⟨0, 7⟩], [7]) := by rfl

/-- `send` blocks while the channel is full: the second printer cannot proceed -/
example :
    (run init [.cmdRead, .eStoreTrue, .issue 0 1, .issue 1 2, .pLoad 0, .pLoad 1, .pLock 0, .pSend 0, .pByte 0,
        .pUnlock 0, .pLock 1]).bind (fun s => step s (.pSend 1)) |>.isNone := by decide
