/-
  Property C19 — messages from other threads appear exactly once and never corrupt the line.

  Model: Rl/Printer.lean — a labelled transition system of the external-printer protocol at the
  granularity of its atomic steps (`ExternalPrinter::print`: load flag, direct write | lock, send,
  wake-up byte, unlock; `PosixRawReader::select`: tty first, then pipe byte, `try_recv`;
  `external_print`; the raw-mode flag stores of `enable_raw_mode` / `disable_raw_mode`; sub-loops
  reading with `next_key`).  Spec: Rl/Spec/Printer.lean.  Helper lemmas: Rl/Lemmas/Printer.lean.

  Every theorem below quantifies over ALL reachable states (`Reach`): any number of printer threads
  (`pr : Nat → Printer`), any number of messages, any interleaving of the steps, any key and read
  pattern of the environment.  Trusted: SeqCst atomics, `sync_channel(1)`, mutex and pipe behave as
  the steps say; one `write` of a message to the terminal is atomic.
-/
import Rl.Printer
import Rl.Lemmas.Printer
import Rl.Lemmas.PrinterLive
open Rl.Printer

/-! ## exactly once -/

/-- Every message thread `t` has handed to `print` (`hist`, in call order) is in exactly one place:
    shown by the editor, in the editor's hand, in the channel, in the printer's hand on the channel
    route, written directly, or in the printer's hand on the direct route — the concatenation of
    these places is a permutation of the call history (so: as often as it was handed over, never more). -/
theorem C19_exactly_once (s : Sys) (h : Reach s) (t : Nat) :
    (shownOf t s.out ++ edHandOf t s ++ chanOf t s ++ rawHandOf (s.pr t)
      ++ (directOf t s.out ++ cookedHandOf (s.pr t))).Perm (s.pr t).hist := by
  have hc := (reach_inv h).1.count t
  rw [List.perm_iff_count]
  intro a
  have := hc a
  simp only [chanSeq, directSeq] at this
  simp only [List.count_append] at this ⊢
  omega

/-- … in particular the terminal never carries a message more often than it was handed to `print`;
    with distinct messages: never twice. -/
theorem C19_never_twice (s : Sys) (h : Reach s) (t : Nat) (hd : (s.pr t).hist.Nodup) :
    (shownOf t s.out ++ directOf t s.out).Nodup := by
  have hp := C19_exactly_once s h t
  rw [List.nodup_iff_count] at hd ⊢
  intro a
  have h1 := hd a
  have h2 := List.Perm.count_eq hp a
  simp only [List.count_append] at h2 ⊢
  omega

/-- nothing appears that was not handed to `print` by that thread -/
theorem C19_only_sent (s : Sys) (h : Reach s) (t id : Nat)
    (hm : id ∈ shownOf t s.out ∨ id ∈ directOf t s.out) : id ∈ (s.pr t).hist := by
  have hp := C19_exactly_once s h t
  apply hp.subset
  simp only [List.mem_append]
  rcases hm with hm | hm
  · exact Or.inl (Or.inl (Or.inl (Or.inl hm)))
  · exact Or.inr (Or.inl hm)

/-! ## the wake-up pipe and the one-slot channel -/

/-- `pipe + [a printer is between send and the wake-up byte] + [the editor is between reading the
    byte and try_recv] = [the channel holds a message]` -/
theorem C19_pipe_chan (s : Sys) (h : Reach s) :
    s.pipe + sentFlag s + gotFlag s = chanFlag s :=
  (reach_inv h).2.count

/-- a wake-up always finds its message: when the editor has read the wake-up byte, `try_recv`
    cannot come back empty (so no byte is ever consumed without its message, and no message is
    left behind with an empty pipe while nobody is about to write the byte) -/
theorem C19_wakeup_finds_message (s : Sys) (h : Reach s) (hg : s.epc = .gotByte) :
    s.chan.isSome = true := by
  have := C19_pipe_chan s h
  simp only [gotFlag, chanFlag, hg] at this
  by_cases hc : s.chan.isSome = true
  · exact hc
  · simp [hc] at this

/-- the pipe never holds more than one byte, and `select` reporting it readable is never wrong -/
theorem C19_pipe_le_one (s : Sys) (h : Reach s) : s.pipe ≤ 1 ∧ (s.epc = .woken → s.pipe = 1) := by
  have h1 := C19_pipe_chan s h
  have h2 := (reach_inv h).2.woken
  have : chanFlag s ≤ 1 := by unfold chanFlag; split <;> omega
  exact ⟨by omega, fun hw => by have := h2 hw; omega⟩

/-- no lost wake-up: a message in the channel whose sender has released the mutex has its byte in
    the pipe, so a reader waiting in the main loop with no key pending is not blocked — `select`
    returns and the message is taken -/
theorem C19_message_wakes_reader (s : Sys) (h : Reach s) (he : s.epc = .waiting) (hk : s.keys = [])
    (hl : s.wlock = none) (hc : s.chan.isSome = true) :
    s.pipe = 1 ∧ (step s .eWake).isSome = true := by
  have h1 := C19_pipe_chan s h
  simp only [sentFlag, gotFlag, chanFlag, hl, he, hc] at h1
  have hp : s.pipe = 1 := by simpa using h1
  exact ⟨hp, by simp [step, he, hk, hp]⟩

/-- the writer mutex is held exactly by the printer between `lock` and `unlock` -/
theorem C19_lock (s : Sys) (h : Reach s) (t : Nat) : holds (s.pr t) = true ↔ s.wlock = some t :=
  (reach_inv h).2.lock t

/-! ## order -/

/-- Per thread, the messages shown by the editor appear in the order of the `print` calls, and so
    do the directly written ones (each is a sub-sequence of the call history). -/
theorem C19_thread_order (s : Sys) (h : Reach s) (t : Nat) :
    (shownOf t s.out).Sublist (s.pr t).hist ∧ (directOf t s.out).Sublist (s.pr t).hist := by
  have hi := (reach_inv h).1
  constructor
  · refine List.Sublist.trans ?_ (hi.chanSub t)
    simp only [chanSeq, List.append_assoc]
    exact List.sublist_append_left _ _
  · refine List.Sublist.trans ?_ (hi.directSub t)
    exact List.sublist_append_left _ _

/-- The two routes are not ordered with respect to each other: a message that took the channel
    route just before the read ended (it waits there for the next read) is overtaken by the same
    thread's next message, written directly.  The property only orders messages sent during one
    wait, so this is recorded, not claimed as a defect. -/
def C19_inversion_run : List Label :=
  [.cmdRead, .eStoreTrue, .eMarkOn, .ePrompt, .issue 0 1, .issue 0 2, .pLoad 0,
   .keyWrite .enter, .keyArrive, .eKey, .eMarkOff, .eStoreFalse,
   .pLock 0, .pSend 0, .pByte 0, .pUnlock 0, .pLoad 0, .pDirect 0,
   .cmdRead, .eStoreTrue, .eMarkOn, .ePrompt, .eWake, .eReadByte, .eRecv, .eShow]

theorem C19_cross_route_inversion :
    ∃ s, Reach s ∧ (s.pr 0).hist = [1, 2] ∧
      s.out = [.rawOn, .prompt, .rawOff, .direct ⟨0, 2⟩, .rawOn, .prompt, .shown ⟨0, 1⟩] := by
  have h : (run init C19_inversion_run).map (fun s => ((s.pr 0).hist, s.out)) =
      some ([1, 2], [.rawOn, .prompt, .rawOff, .direct ⟨0, 2⟩, .rawOn, .prompt, .shown ⟨0, 1⟩]) := by decide
  cases hr : run init C19_inversion_run with
  | none => simp [hr] at h
  | some s =>
    simp only [hr, Option.map_some, Option.some.injEq, Prod.mk.injEq] at h
    exact ⟨s, reach_run _ _ hr, h.1, h.2⟩

/-! ## shown at the latest when the read waits -/

/-- When the editing thread is blocked in `select` (main loop, no key pending, pipe empty) and no
    printer is between `lock` and `unlock`, the channel is empty, and for every thread whose `print`
    calls have all returned, every message it ever handed over is on the terminal — exactly once
    (the terminal's messages of that thread are a permutation of its call history). -/
theorem C19_blocked_clean (s : Sys) (h : Reach s) (hb : s.blocked = true) (hl : s.wlock = none) :
    s.chan = none ∧
    ∀ t, (s.pr t).pc = .idle → (shownOf t s.out ++ directOf t s.out).Perm (s.pr t).hist := by
  simp only [Sys.blocked, Bool.and_eq_true, beq_iff_eq, List.isEmpty_iff] at hb
  obtain ⟨⟨he, _⟩, hp⟩ := hb
  have hc := C19_pipe_chan s h
  have hch : s.chan = none := by
    simp only [sentFlag, gotFlag, chanFlag, hl, he, hp] at hc
    cases hs : s.chan with
    | none => rfl
    | some m => simp [hs] at hc
  refine ⟨hch, fun t ht => ?_⟩
  have := C19_exactly_once s h t
  simpa [edHandOf, chanOf, rawHandOf, cookedHandOf, he, hch, ht] using this

/-- `blocked` is exactly "no step of the editing thread is enabled" in the main loop -/
theorem C19_blocked_iff (s : Sys) (he : s.epc = .waiting) :
    s.blocked = true ↔ step s .eKey = none ∧ step s .eWake = none := by
  simp only [Sys.blocked, he, step]
  cases hk : s.keys <;> cases hp : s.pipe <;> simp

/-- D21 (finding): the conclusion fails when the thread waits in a sub-loop (`next_key` instead of
    `wait_for_input`): reader asleep with no key pending, every `print` returned, the message still
    in the channel and not on the terminal. -/
def C19_d21_run : List Label :=
  [.cmdRead, .eStoreTrue, .eMarkOn, .ePrompt, .keyWrite .sub, .keyArrive, .eKey,
   .issue 0 7, .pLoad 0, .pLock 0, .pSend 0, .pByte 0, .pUnlock 0]

theorem C19_D21_reachable :
    ∃ s, Reach s ∧ s.epc = .sub ∧ s.keys = [] ∧ s.typing = none ∧ s.wlock = none ∧
      (s.pr 0).pc = .idle ∧ (s.pr 0).hist = [7] ∧ s.chan = some ⟨0, 7⟩ ∧ s.out = [.rawOn, .prompt] ∧
      (∀ l ∈ [Label.eKey, .eWake, .eReadByte, .eRecv, .eShow], step s l = none) := by
  have h : (run init C19_d21_run).map (fun s => (s.epc, s.keys, s.typing, s.wlock, (s.pr 0).pc, (s.pr 0).hist, s.chan, s.out,
        [Label.eKey, .eWake, .eReadByte, .eRecv, .eShow].map (fun l => (step s l).isNone))) =
      some (.sub, [], none, none, .idle, [7], some ⟨0, 7⟩, [.rawOn, .prompt], [true, true, true, true, true]) := by rfl
  cases hr : run init C19_d21_run with
  | none => simp [hr] at h
  | some s =>
    simp only [hr, Option.map_some, Option.some.injEq, Prod.mk.injEq, List.map_cons, List.map_nil,
      List.cons.injEq, Option.isNone_iff_eq_none, and_true] at h
    obtain ⟨h1, h2, h3, h4, h5, h6, h7, h8, h9, h10, h11, h12, h13⟩ := h
    refine ⟨s, reach_run _ _ hr, h1, h2, h3, h4, h5, h6, h7, h8, ?_⟩
    intro l hl
    simp only [List.mem_cons, List.not_mem_nil, or_false] at hl
    rcases hl with rfl | rfl | rfl | rfl | rfl <;> assumption

/-! ## never corrupts the line -/

/-- `external_print` (step `eShow`) does not touch the edited text, the typed keys or the results. -/
theorem C19_text_unaffected (s s' : Sys) (h : step s .eShow = some s') :
    s'.line = s.line ∧ s'.results = s.results ∧ s'.keys = s.keys := by
  simp only [step] at h
  split at h
  · cases h; simp
  · cases h

/-- no printer step touches the edited text either -/
theorem C19_printers_leave_text (s s' : Sys) (t : Nat) (l : Label)
    (hl : l ∈ [Label.pLoad t, .pDirect t, .pLock t, .pSend t, .pByte t, .pUnlock t])
    (h : step s l = some s') : s'.line = s.line ∧ s'.results = s.results ∧ s'.keys = s.keys := by
  simp only [List.mem_cons, List.not_mem_nil, or_false] at hl
  rcases hl with rfl | rfl | rfl | rfl | rfl | rfl <;> simp only [step] at h <;> split at h <;> cases h <;> simp [Sys.setPr]

/-- Full statement of "never corrupts the line" for direct writes: a message is written directly
    only while no read has its prompt on the terminal.  False — D18. -/
def C19_no_direct_write_inside_read_statement : Prop :=
  ∀ (s s' : Sys) (t : Nat), Reach s → step s (.pDirect t) = some s' →
    s.epc = .outside ∨ s.epc = .enabling ∨ s.epc = .drawing ∨ s.epc = .disabling

/-- what does hold: a direct write happens only for a flag value `false` that the printer loaded
    (check-then-act: the flag may have changed since) -/
theorem C19_no_direct_write_inside_read_partial (s s' : Sys) (t : Nat)
    (h : step s (.pDirect t) = some s') : ∃ id, (s.pr t).pc = .cooked id := by
  simp only [step] at h
  split at h
  · rename_i id hpc; exact ⟨id, hpc⟩
  · cases h

/-- D18 (finding): a print that loaded `raw = false` just before the read stored `true` writes its
    message after the prompt has been drawn; the editor is waiting and repaints nothing. -/
def C19_d18_run : List Label :=
  [.cmdRead, .issue 0 7, .pLoad 0, .eStoreTrue, .eMarkOn, .ePrompt, .pDirect 0]

theorem C19_D18_reachable :
    ∃ s, Reach s ∧ s.epc = .waiting ∧ s.raw = true ∧ s.out = [.rawOn, .prompt, .direct ⟨0, 7⟩] := by
  have h : (run init C19_d18_run).map (fun s => (s.epc, s.raw, s.out)) =
      some (.waiting, true, [.rawOn, .prompt, .direct ⟨0, 7⟩]) := by decide
  cases hr : run init C19_d18_run with
  | none => simp [hr] at h
  | some s =>
    simp only [hr, Option.map_some, Option.some.injEq, Prod.mk.injEq] at h
    exact ⟨s, reach_run _ _ hr, h.1, h.2.1, h.2.2⟩

theorem C19_no_direct_write_inside_read_counterexample : ¬ C19_no_direct_write_inside_read_statement := by
  intro hst
  have h : (run init (C19_d18_run.take 6)).map (fun s => (s.epc, (step s (.pDirect 0)).isSome)) =
      some (.waiting, true) := by decide
  cases hr : run init (C19_d18_run.take 6) with
  | none => simp [hr] at h
  | some s =>
    simp only [hr, Option.map_some, Option.some.injEq, Prod.mk.injEq] at h
    obtain ⟨s', hs'⟩ := Option.isSome_iff_exists.mp h.2
    have := hst s s' 0 (reach_run _ _ hr) hs'
    simp [h.1] at this

/-! ## non-vacuity -/

/-- a run in which a message sent during the wait is shown, after which the reader is blocked with
    the channel empty (the premises of `C19_blocked_clean` are satisfiable with a shown message) -/
example :
    (run init [.cmdRead, .eStoreTrue, .eMarkOn, .ePrompt, .issue 0 7, .pLoad 0, .pLock 0, .pSend 0, .pByte 0,
        .pUnlock 0, .eWake, .eReadByte, .eRecv, .eShow]).map
      (fun s => (s.blocked, s.wlock, s.chan, s.out, (s.pr 0).hist)) =
    some (true, none, none, [.rawOn, .prompt, .shown ⟨0, 7⟩], [7]) := by rfl

/-- `send` blocks while the channel is full: the second printer cannot proceed -/
example :
    (run init [.cmdRead, .eStoreTrue, .issue 0 1, .issue 1 2, .pLoad 0, .pLoad 1, .pLock 0, .pSend 0, .pByte 0,
        .pUnlock 0, .pLock 1]).bind (fun s => step s (.pSend 1)) |>.isNone := by decide

/-! ## gap filling (package V): the flag tracks the read, the direct route, D18/D21 as the only
   exceptions, progress and liveness of the delivery over all interleavings -/

/-- In every reachable state the shared raw-mode flag is `true` exactly while the editing thread is
    between the two flag stores of a read (`epc ≠ outside`): the flag a printer loads tells it
    truthfully whether a read is active AT THE MOMENT OF THE LOAD. -/
theorem C19_raw_flag_tracks_read (s : Sys) (h : Reach s) : s.raw = true ↔ s.epc ≠ .outside :=
  reach_rawInv h

/-- Messages printed when no read is active go straight to the terminal, exactly once: in every
    reachable state with no read in progress (`epc = outside`), an idle printer thread `t` (any `t`)
    whose next message is `id` can run its whole `print` call (`pLoad`, `pDirect`) without waiting
    for anybody; the call appends exactly `direct ⟨t,id⟩` to the terminal and touches neither the
    channel, the wake-up pipe, the mutex, the editor nor the edited text. -/
theorem C19_print_between_reads_goes_direct (s : Sys) (h : Reach s) (t id : Nat) (q : List Nat)
    (he : s.epc = .outside) (hpc : (s.pr t).pc = .idle) (hq : (s.pr t).queue = id :: q) :
    ∃ s', run s [.pLoad t, .pDirect t] = some s' ∧ s'.out = s.out ++ [.direct ⟨t, id⟩] ∧
      s'.chan = s.chan ∧ s'.pipe = s.pipe ∧ s'.wlock = s.wlock ∧ s'.epc = s.epc ∧ s'.line = s.line ∧
      (s'.pr t).pc = .idle ∧ (s'.pr t).queue = q ∧ (s'.pr t).hist = (s.pr t).hist ++ [id] := by
  have hr : s.raw = false := by
    have := (C19_raw_flag_tracks_read s h)
    cases hh : s.raw with
    | false => rfl
    | true => exact absurd he (this.1 hh)
  simp [run, step, hpc, hq, hr, Sys.setPr]

/-- D18 stated precisely: the route of a `print` call is decided by its flag load alone.  A load
    made while no read is active (`epc = outside`) takes the direct route, a load made at any moment
    of a read (from the `raw := true` store up to the `raw := false` store) takes the channel route.
    With `C19_no_direct_write_inside_read_partial` (a direct write needs a loaded `false`) and
    `C19_cooked_print_never_blocked` (the loaded value is kept until the write): the ONLY direct writes
    that can land inside a read (D18) are those of `print` calls whose flag load preceded that
    read's `raw := true` store. -/
theorem C19_load_route (s s' : Sys) (h : Reach s) (t : Nat) (hs : step s (.pLoad t) = some s') :
    (s.epc = .outside → ∃ id, (s'.pr t).pc = .cooked id) ∧
    (s.epc ≠ .outside → ∃ id, (s'.pr t).pc = .rawSeen id) := by
  have hr := C19_raw_flag_tracks_read s h
  simp only [step] at hs
  split at hs <;> cases hs
  rename_i id q hpc hq
  constructor
  · intro he
    have : s.raw = false := by
      cases hh : s.raw with
      | false => rfl
      | true => exact absurd he (hr.1 hh)
    exact ⟨id, by simp [this]⟩
  · intro he
    exact ⟨id, by simp [hr.2 he]⟩


/-- The invariant "reader blocked in the main read with no key pending ⇒ no message pending", without
    the side condition `wlock = none` of `C19_blocked_clean`: in every reachable state in which the
    editing thread is blocked in `select` (main loop, no key pending, pipe empty) and a message IS in
    the channel, the mutex is held by a printer that is exactly between its `send` and its wake-up
    byte, and that printer's next step (`pByte`) is enabled — it wakes the reader.  So the only
    blocked-with-pending states are this transient one. -/
theorem C19_blocked_pending_only_mid_print (s : Sys) (h : Reach s) (hb : s.blocked = true) (m : Msg)
    (hc : s.chan = some m) :
    ∃ t, s.wlock = some t ∧ (s.pr t).pc = .sent ∧ (step s (.pByte t)).isSome = true := by
  simp only [Sys.blocked, Bool.and_eq_true, beq_iff_eq, List.isEmpty_iff] at hb
  obtain ⟨⟨he, _⟩, hp⟩ := hb
  have h1 := C19_pipe_chan s h
  simp only [gotFlag, chanFlag, he, hp, hc] at h1
  unfold sentFlag at h1
  cases hl : s.wlock with
  | none => simp [hl] at h1
  | some t =>
    simp only [hl] at h1
    by_cases hs : (s.pr t).pc = .sent
    · exact ⟨t, rfl, hs, by simp [step, hs]⟩
    · simp [hs] at h1

/-- No deadlock with a message pending, and D21 named as the only in-read exception: in every
    reachable state whose channel holds a message, some step of the protocol itself (editing thread
    or a printer — not the application, not the keyboard) is enabled, EXCEPT in exactly two kinds of
    quiescent states: the reader waits in a sub-loop with no key pending (finding D21), or no read is
    in progress and none has been requested (the message waits for the next read, as the property
    allows). -/
theorem C19_pending_message_no_deadlock (s : Sys) (h : Reach s) (hc : s.chan.isSome = true) :
    (∃ l, l.isEnv = false ∧ (step s l).isSome = true) ∨
    (s.epc = .sub ∧ s.keys = []) ∨ (s.epc = .outside ∧ s.reads = 0) := by
  have h1 := C19_pipe_chan s h
  have hw := (reach_inv h).2.woken
  have hlk := (reach_inv h).2.lock
  cases he : s.epc with
  | outside =>
    cases hr : s.reads with
    | zero => exact Or.inr (Or.inr ⟨rfl, rfl⟩)
    | succ r => exact Or.inl ⟨.eStoreTrue, rfl, by simp [step, he, hr]⟩
  | enabling => exact Or.inl ⟨.eMarkOn, rfl, by simp [step, he]⟩
  | drawing => exact Or.inl ⟨.ePrompt, rfl, by simp [step, he]⟩
  | woken =>
    have := hw he
    obtain ⟨p, hp⟩ : ∃ p, s.pipe = p + 1 := ⟨s.pipe - 1, by omega⟩
    exact Or.inl ⟨.eReadByte, rfl, by simp [step, he, hp]⟩
  | gotByte =>
    obtain ⟨m, hm⟩ := Option.isSome_iff_exists.mp hc
    exact Or.inl ⟨.eRecv, rfl, by simp [step, he, hm]⟩
  | showing m => exact Or.inl ⟨.eShow, rfl, by simp [step, he]⟩
  | finishing => exact Or.inl ⟨.eMarkOff, rfl, by simp [step, he]⟩
  | disabling => exact Or.inl ⟨.eStoreFalse, rfl, by simp [step, he]⟩
  | sub =>
    cases hk : s.keys with
    | nil => exact Or.inr (Or.inl ⟨rfl, rfl⟩)
    | cons k ks => exact Or.inl ⟨.eKey, rfl, by simp [step, he, hk]⟩
  | waiting =>
    cases hk : s.keys with
    | cons k ks => exact Or.inl ⟨.eKey, rfl, by simp [step, he, hk]⟩
    | nil =>
      cases hp : s.pipe with
      | succ p => exact Or.inl ⟨.eWake, rfl, by simp [step, he, hk, hp]⟩
      | zero =>
        obtain ⟨m, hm⟩ := Option.isSome_iff_exists.mp hc
        obtain ⟨t, _, _, hs⟩ := C19_blocked_pending_only_mid_print s h
          (by simp [Sys.blocked, he, hk, hp]) m hm
        exact Or.inl ⟨.pByte t, rfl, hs⟩

/-- The next reader steps show the pending message: in every reachable state where the reader is in
    the main loop with no key pending, a message `m` is in the channel and its `print` call has
    released the mutex, the editing thread's next four steps (`select` returns, byte read, `try_recv`,
    `external_print`) are all enabled in a row; they append exactly `shown m`, leave channel and pipe
    empty, the reader blocked again, and the edited text, the typed keys, the returned lines and all
    printer threads untouched. -/
theorem C19_pending_message_shown_by_next_reader_steps (s : Sys) (h : Reach s) (he : s.epc = .waiting)
    (hk : s.keys = []) (hl : s.wlock = none) (m : Msg) (hc : s.chan = some m) :
    ∃ s', run s [.eWake, .eReadByte, .eRecv, .eShow] = some s' ∧ s'.out = s.out ++ [.shown m] ∧
      s'.chan = none ∧ s'.pipe = 0 ∧ s'.epc = .waiting ∧ s'.blocked = true ∧
      s'.line = s.line ∧ s'.keys = s.keys ∧ s'.results = s.results ∧ s'.pr = s.pr := by
  have hp := (C19_message_wakes_reader s h he hk hl (by simp [hc])).1
  simp [run, step, he, hk, hp, hc, Sys.blocked]


/-- Nobody but the keyboard can take the delivery away from the reader: a step of any other thread
    (any printer, the application; `l ∉ edLabels`) never disables an enabled delivery step of the
    editing thread (`eWake`, `eReadByte`, `eRecv`, `eShow`); the single exception is a key ARRIVING
    while the reader is still in `select` ("tty first": the key is handled before the message). -/
theorem C19_delivery_not_disabled (s s1 : Sys) (l e : Label) (hs : step s l = some s1)
    (hl : l ∉ edLabels) (he : e ∈ [Label.eWake, .eReadByte, .eRecv, .eShow])
    (hk : e = .eWake → l ≠ .keyArrive) (hen : (step s e).isSome = true) :
    (step s1 e).isSome = true := by
  simp only [List.mem_cons, List.not_mem_nil, or_false] at he
  have hepc : s1.epc = s.epc ∧ s.pipe ≤ s1.pipe ∧ (s.chan.isSome → s1.chan = s.chan) ∧
      (l ≠ .keyArrive → s1.keys = s.keys) := by
    cases l with
    | eStoreTrue | eMarkOn | ePrompt | eKey | eWake | eReadByte | eRecv | eShow | eMarkOff | eStoreFalse =>
      simp [edLabels] at hl
    | _ =>
      simp only [step] at hs
      all_goals (try split at hs)
      all_goals (first | (cases hs) | skip)
      all_goals (simp_all)
  obtain ⟨h1, h2, h3, h4⟩ := hepc
  rcases he with rfl | rfl | rfl | rfl
  · have h4' := h4 (hk rfl)
    simp only [step, h1, h4'] at hen ⊢
    split at hen
    · rename_i p hw hkk hp
      obtain ⟨p', hp'⟩ : ∃ p', s1.pipe = p' + 1 := ⟨s1.pipe - 1, by omega⟩
      simp [hw, hkk, hp']
    · simp at hen
  · simp only [step, h1] at hen ⊢
    split at hen
    · rename_i p hw hp
      obtain ⟨p', hp'⟩ : ∃ p', s1.pipe = p' + 1 := ⟨s1.pipe - 1, by omega⟩
      simp [hw, hp']
    · simp at hen
  · simp only [step, h1] at hen ⊢
    split at hen
    · rename_i m hw hc
      simp [hw, h3 (by simp [hc]), hc]
    · rename_i hw hc
      simp [hw]
      cases s1.chan <;> simp
    · simp at hen
  · simp only [step, h1] at hen ⊢
    split at hen
    · simp
    · simp at hen

/-- The direct route is wait-free and keeps its message: a printer that loaded `raw = false` for
    message `id` can always perform its write (no lock, no channel), the write appends exactly
    `direct ⟨t,id⟩` and changes nothing else of the protocol state; and no step of any other thread
    or of the editor takes the message out of its hand before that. -/
theorem C19_cooked_print_never_blocked (s : Sys) (t id : Nat) (hpc : (s.pr t).pc = .cooked id) :
    (∃ s', step s (.pDirect t) = some s' ∧ s'.out = s.out ++ [.direct ⟨t, id⟩] ∧ (s'.pr t).pc = .idle ∧
        s'.chan = s.chan ∧ s'.pipe = s.pipe ∧ s'.line = s.line ∧ s'.epc = s.epc) ∧
    (∀ l s1, l ≠ .pDirect t → step s l = some s1 → (s1.pr t).pc = .cooked id) := by
  constructor
  · simp [step, hpc, Sys.setPr]
  · intro l s1 hne hs
    cases l with
    | eKey =>
      simp only [step] at hs; split at hs <;> cases hs
      · rename_i k ks _ _; cases k <;> simpa [keyMain] using hpc
      · rename_i k ks _ _; cases k <;> simpa [keySub] using hpc
    | issue u i =>
      simp only [step] at hs; cases hs
      by_cases hu : t = u
      · subst hu; simpa using hpc
      · simpa [hu] using hpc
    | pLoad u | pDirect u | pLock u | pSend u | pByte u | pUnlock u =>
      by_cases hu : t = u
      · subst hu
        simp only [step, hpc] at hs
        first | (exact absurd rfl hne) | (cases hs) | skip
        all_goals (try split at hs)
        all_goals (first | (cases hs) | skip)
        all_goals simp_all
      · simp only [step] at hs
        split at hs <;> cases hs
        all_goals (simpa [hu] using hpc)
    | _ =>
      simp only [step] at hs
      all_goals (try split at hs)
      all_goals (first | (cases hs) | skip)
      all_goals (simpa using hpc)

/-- D21 as the ONLY exception to "shown at the latest when a read next waits with no key pending":
    in every reachable state in which a message is in the channel, its `print` call has released the
    mutex, and the editing thread is asleep (none of its steps is enabled), either the thread sits in
    a sub-loop with no key pending (finding D21), or no read is in progress and none is requested.
    In particular a reader asleep in the MAIN loop never has a returned `print`'s message pending. -/
theorem C19_reader_asleep_with_pending_message_only_D21 (s : Sys) (h : Reach s)
    (hc : s.chan.isSome = true) (hl : s.wlock = none)
    (hs : ∀ e : Label, e.isEd = true → step s e = none) :
    (s.epc = .sub ∧ s.keys = []) ∨ (s.epc = .outside ∧ s.reads = 0) := by
  have hw := (reach_inv h).2.woken
  cases he : s.epc with
  | outside =>
    cases hr : s.reads with
    | zero => exact Or.inr ⟨rfl, rfl⟩
    | succ r => have := hs .eStoreTrue rfl; simp [step, he, hr] at this
  | enabling => have := hs .eMarkOn rfl; simp [step, he] at this
  | drawing => have := hs .ePrompt rfl; simp [step, he] at this
  | woken =>
    have := hw he
    obtain ⟨p, hp⟩ : ∃ p, s.pipe = p + 1 := ⟨s.pipe - 1, by omega⟩
    have := hs .eReadByte rfl; simp [step, he, hp] at this
  | gotByte =>
    obtain ⟨m, hm⟩ := Option.isSome_iff_exists.mp hc
    have := hs .eRecv rfl; simp [step, he, hm] at this
  | showing m => have := hs .eShow rfl; simp [step, he] at this
  | finishing => have := hs .eMarkOff rfl; simp [step, he] at this
  | disabling => have := hs .eStoreFalse rfl; simp [step, he] at this
  | sub =>
    cases hk : s.keys with
    | nil => exact Or.inl ⟨rfl, rfl⟩
    | cons k ks => have := hs .eKey rfl; simp [step, he, hk] at this
  | waiting =>
    cases hk : s.keys with
    | cons k ks => have := hs .eKey rfl; simp [step, he, hk] at this
    | nil =>
      have := (C19_message_wakes_reader s h he hk hl hc).2
      rw [hs .eWake rfl] at this; simp at this

/-- Liveness in the model, over ALL interleavings: start in any reachable state where the reader is
    in the main loop with no key pending, message `m` is in the channel and its `print` call has
    released the mutex.  Let the system run ANY sequence of steps `ls` — any number of printer threads
    making progress or starting new `print` calls, the application issuing messages and read requests,
    keys being written — in which no key ARRIVES.  Then
    (1) until `shown m` is on the terminal the editing thread always has a step enabled (it is never
        blocked and nobody can disable it), and
    (2) as soon as `ls` contains four steps of the editing thread, `shown m` has been appended to the
        terminal output (it is among the events written since the start state).
    (If a key does arrive first, `select` hands the key over first; the property allows that: "at the
    latest when a read next waits with no key pending".) -/
theorem C19_pending_message_shown_under_any_interleaving (s : Sys) (h : Reach s) (he : s.epc = .waiting)
    (hk : s.keys = []) (hl : s.wlock = none) (m : Msg) (hc : s.chan = some m)
    (ls : List Label) (s' : Sys) (hr : run s ls = some s') (hna : Label.keyArrive ∉ ls) :
    (Ev.shown m ∈ s'.out.drop s.out.length ∨ ∃ e : Label, e.isEd = true ∧ (step s' e).isSome = true) ∧
    (4 ≤ (ls.filter Label.isEd).length → Ev.shown m ∈ s'.out.drop s.out.length) := by
  have hp := (C19_message_wakes_reader s h he hk hl (by simp [hc])).1
  have hd : Deliv m s := Or.inl ⟨he, hk, by omega, hc⟩
  rcases deliv_run ls s s' hd hna hr with ⟨hd', hph⟩ | hsh
  · refine ⟨Or.inr (deliv_enabled hd'), fun h4 => ?_⟩
    have := dphase_le s
    have h0 : 1 ≤ dphase s' := by
      rcases hd' with ⟨e, _⟩ | ⟨e, _⟩ | ⟨e, _⟩ | e <;> simp [dphase, e]
    omega
  · exact ⟨Or.inl hsh, fun _ => hsh⟩

/-- The edited text is unaffected by the whole printer machinery, over arbitrary interleavings: along
    ANY run in which the editing thread reads no key (no `eKey` step) — whatever any number of printer
    threads do, however many messages are shown (`eWake`/`eReadByte`/`eRecv`/`eShow`), reads starting
    or ending — the line being edited and the lines returned so far stay exactly as they were; only
    keys typed by the user change the text. -/
theorem C19_text_changes_only_by_keys : ∀ (ls : List Label) (s s' : Sys), run s ls = some s' →
    Label.eKey ∉ ls → s'.line = s.line ∧ s'.results = s.results
  | [], s, s', h, _ => by simp [run] at h; subst h; exact ⟨rfl, rfl⟩
  | l :: ls, s, s', h, hk => by
    simp only [run] at h
    cases hl : step s l with
    | none => simp [hl] at h
    | some s1 =>
      rw [hl] at h
      simp only [Option.bind_some] at h
      have hk1 : l ≠ .eKey := fun e => hk (by simp [e])
      have hk2 : Label.eKey ∉ ls := fun e => hk (by simp [e])
      obtain ⟨h1, h2⟩ := C19_text_changes_only_by_keys ls s1 s' h hk2
      have : s1.line = s.line ∧ s1.results = s.results := by
        cases l with
        | eKey => exact absurd rfl hk1
        | _ =>
          simp only [step] at hl
          all_goals (try split at hl)
          all_goals (first | (cases hl) | skip)
          all_goals (simp [Sys.setPr])
      exact ⟨h1.trans this.1, h2.trans this.2⟩

/-! ## non-vacuity of the gap-filling theorems -/

/-- premises of `C19_pending_message_shown_under_any_interleaving` / `…_shown_by_next_reader_steps`
    hold after this run (reader waiting, no key, mutex free, message 7 of thread 0 in the channel);
    continuing with an interleaving of a second and third printer thread, a key being written (not yet
    arrived) and the four editor steps shows the message. -/
example :
    (run init [.cmdRead, .eStoreTrue, .eMarkOn, .ePrompt, .issue 0 7, .pLoad 0, .pLock 0, .pSend 0, .pByte 0,
        .pUnlock 0]).map (fun s => (s.epc, s.keys, s.wlock, s.chan)) =
      some (.waiting, [], none, some ⟨0, 7⟩) ∧
    (run init ([.cmdRead, .eStoreTrue, .eMarkOn, .ePrompt, .issue 0 7, .pLoad 0, .pLock 0, .pSend 0, .pByte 0,
        .pUnlock 0] ++
        [.issue 1 8, .eWake, .pLoad 1, .issue 2 9, .pLock 1, .eReadByte, .keyWrite .enter, .pLoad 2, .eRecv,
         .pSend 1, .eShow])).map (fun s => s.out) =
      some [.rawOn, .prompt, .shown ⟨0, 7⟩] := by
  constructor <;> rfl

/-- premises of `C19_blocked_pending_only_mid_print`: reader blocked, message in the channel, the
    printer between `send` and the wake-up byte -/
example :
    (run init [.cmdRead, .eStoreTrue, .eMarkOn, .ePrompt, .issue 3 7, .pLoad 3, .pLock 3, .pSend 3]).map
      (fun s => (s.blocked, s.chan, s.wlock)) = some (true, some ⟨3, 7⟩, some 3) := by rfl

/-- premises of `C19_print_between_reads_goes_direct` (after a complete read, thread 5) -/
example :
    (run init [.cmdRead, .eStoreTrue, .eMarkOn, .ePrompt, .keyWrite .enter, .keyArrive, .eKey, .eMarkOff,
        .eStoreFalse, .issue 5 1]).map (fun s => (s.epc, (s.pr 5).pc, (s.pr 5).queue)) =
      some (.outside, .idle, [1]) := by rfl

/-- both branches of `C19_load_route` occur: a load outside a read, a load inside one -/
example :
    (run init [.issue 0 1, .pLoad 0]).map (fun s => (s.pr 0).pc) = some (.cooked 1) ∧
    (run init [.cmdRead, .eStoreTrue, .issue 0 1, .pLoad 0]).map (fun s => (s.pr 0).pc) = some (.rawSeen 1) := by
  constructor <;> rfl

/-- the two exceptional states of `C19_reader_asleep_with_pending_message_only_D21` are both reachable:
    D21 is `C19_D21_reachable`; "between reads" is the state after the first 16 steps of
    `C19_inversion_run` (message 1 in the channel, no read active, none requested) -/
example :
    (run init (C19_inversion_run.take 16)).map (fun s => (s.epc, s.reads, s.chan, s.wlock)) =
      some (.outside, 0, some ⟨0, 1⟩, none) := by rfl
