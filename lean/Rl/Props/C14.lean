/-
  Property C14 — completion replaces only the word being completed and can always be backed out.
  Model: `completeLine`, `completeCircular` in Rl/Editor.lean; oracle: `Spec.oracleC14`.
-/
import Rl.Editor
import Rl.Spec.OracleComplete
import Rl.Lemmas.EditorLoops
open Rl Rl.Spec

/-- Circular order: Tab advances through candidates 0 … n-1, then the original text (index n),
    then wraps; the index always stays within 0 … n. -/
theorem C14_next_in_range (n i : Nat) : compNext n i ≤ n := by
  unfold compNext
  have : (i + 1) % (n + 1) < n + 1 := Nat.mod_lt _ (by omega)
  omega

theorem C14_prev_in_range (n i : Nat) (_h : i ≤ n) : compPrev n i ≤ n := by
  unfold compPrev
  split
  · omega
  · have : (i - 1) % (n + 1) < n + 1 := Nat.mod_lt _ (by omega)
    omega

/-- Shift-Tab is the inverse permutation of Tab. -/
theorem C14_prev_next (n i : Nat) (h : i ≤ n) : compPrev n (compNext n i) = i := by
  unfold compPrev compNext
  by_cases hi : i = n
  · subst hi; simp
  · have h1 : (i + 1) % (n + 1) = i + 1 := Nat.mod_eq_of_lt (by omega)
    rw [h1]
    have h2 : (i + 1 == 0) = false := by simp
    simp only [h2, Bool.false_eq_true, if_false, Nat.add_sub_cancel]
    exact Nat.mod_eq_of_lt (by omega)

theorem C14_next_prev (n i : Nat) (h : i ≤ n) : compNext n (compPrev n i) = i := by
  unfold compPrev compNext
  by_cases hi : i = 0
  · subst hi; simp
  · have h0 : (i == 0) = false := by simp [hi]
    simp only [h0, Bool.false_eq_true, if_false]
    have h1 : (i - 1) % (n + 1) = i - 1 := Nat.mod_eq_of_lt (by omega)
    rw [h1]
    have : i - 1 + 1 = i := by omega
    rw [this]
    exact Nat.mod_eq_of_lt (by omega)

/-- `k` Tabs from the first candidate -/
def tabs (n : Nat) : Nat → Nat
  | 0 => 0
  | k + 1 => compNext n (tabs n k)

/-- k Tabs from the first candidate show candidate `k mod (n+1)` (index n = the original text). -/
theorem C14_k_tabs (n k : Nat) : tabs n k = k % (n + 1) := by
  induction k with
  | zero => simp [tabs]
  | succ k ih =>
    simp only [tabs, ih, compNext]
    simp [Nat.add_mod]

/-- Spec: what is shown for a candidate leaves the text before `start` and after the cursor intact. -/
theorem C14_spec_span_only (st : CompSt) (c : Text) :
    (spliceCand st c).1 = takeB st.backup.1 st.start ++ c ++ st.tail ∧
    (spliceCand st c).2 = blen (takeB st.backup.1 st.start) + blen c := by
  simp [spliceCand]

/-- Statement as first written: Esc / C-g in the circular loop restores text and cursor.  As written
    it also quantifies over fixed-capacity line buffers whose text is already longer than their
    capacity (never the editor's: `initEd` makes both buffers growable); there `LineBuffer::update`
    cuts the restored text (see `C14_update_truncates_fixed_buffer`), so the statement needs the
    hypothesis "growable" — `C14_abort_restores` below. -/
def C14_abort_restores_statement : Prop :=
  ∀ (S : Segmenter) (U : UData) (cfg : EdCfg) (s s' : Ed) (fuel : Nat),
    completeLine S U cfg fuel s = .ok (none, s') → cfg.listCompletion = false →
    s'.line.buf = s.line.buf ∧ s'.line.pos = s.line.pos

/-- **Abort restores**: whenever circular completion ends without handing a command back (no
    candidates, or Esc / C-g after any number of Tab / Shift-Tab presses and whatever keys were
    decoded in between), the text and the cursor are exactly those from before the completion
    (and the buffer is still growable). -/
theorem C14_abort_restores (S : Segmenter) (U : UData) (cfg : EdCfg) (s s' : Ed) (fuel : Nat)
    (hrun : completeLine S U cfg fuel s = .ok (none, s')) (hcirc : cfg.listCompletion = false)
    (hg : s.line.canGrow = true) (hp : s.line.pos ≤ blen s.line.buf) :
    s'.line.buf = s.line.buf ∧ s'.line.pos = s.line.pos ∧ s'.line.canGrow = true := by
  have hw : wp (completeLine S U cfg fuel)
      (fun r s' => r = none → s'.line.buf = s.line.buf ∧ s'.line.pos = s.line.pos ∧ s'.line.canGrow = true)
      (fun _ _ => True) s := by
    unfold completeLine
    simp only [wp_bind, wp_getLine]
    split
    · simp only [wp_pure]; intro _; exact ⟨trivial, trivial, hg⟩
    · simp only [hcirc, Bool.not_false, if_true, wp_bind, wp_changesBegin]
      exact completeCircular_abort S U cfg _ _ _ _ _ hp fuel 0 _ hg
  exact wp_ok hw hrun rfl

/-- the reason for the hypothesis: on a fixed-capacity buffer `update` cuts the text to the capacity -/
theorem C14_update_truncates_fixed_buffer (S : Segmenter) (U : UData) :
    LB.update S U ['a', 'b'] 2 { buf := [], pos := 0, cap := 1, canGrow := false } =
      .ok ((), { buf := ['a'], pos := 1, cap := 1, canGrow := false },
           [.del 0 [] .forward, .insStr 0 ['a']]) := by
  rfl
