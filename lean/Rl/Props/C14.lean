/-
  Property C14 — completion replaces only the word being completed and can always be backed out.
  Model: `completeLine`, `completeCircular` in Rl/Editor.lean; oracle: `Spec.oracleC14`.
-/
import Rl.Editor
import Rl.Spec.OracleComplete
import Rl.Lemmas.EditorLoops
import Rl.Lemmas.CompleteLoop
import Rl.Lemmas.CompleteUndo
import Rl.Lemmas.CompleteList
import Rl.Lemmas.CompleteUndoCursor
open Rl Rl.Spec

/-- Circular order: Tab advances through candidates 0 … n-1, then the original text (index n),
    then wraps; the index always stays within 0 … n. -/
theorem C14_next_in_range (n i : Nat) : compNext n i ≤ n := by
  unfold compNext
  have : (i + 1) % (n + 1) < n + 1 := Nat.mod_lt _ (by omega)
  omega

theorem C14_prev_in_range (n i : Nat) (_h : i ≤ n) : compPrev n i ≤ n := by
  unfold compPrev
  split
  · omega
  · have : (i - 1) % (n + 1) < n + 1 := Nat.mod_lt _ (by omega)
    omega

/-- Shift-Tab is the inverse permutation of Tab. -/
theorem C14_prev_next (n i : Nat) (h : i ≤ n) : compPrev n (compNext n i) = i := by
  unfold compPrev compNext
  by_cases hi : i = n
  · subst hi; simp
  · have h1 : (i + 1) % (n + 1) = i + 1 := Nat.mod_eq_of_lt (by omega)
    rw [h1]
    have h2 : (i + 1 == 0) = false := by simp
    simp only [h2, Bool.false_eq_true, if_false, Nat.add_sub_cancel]
    exact Nat.mod_eq_of_lt (by omega)

theorem C14_next_prev (n i : Nat) (h : i ≤ n) : compNext n (compPrev n i) = i := by
  unfold compPrev compNext
  by_cases hi : i = 0
  · subst hi; simp
  · have h0 : (i == 0) = false := by simp [hi]
    simp only [h0, Bool.false_eq_true, if_false]
    have h1 : (i - 1) % (n + 1) = i - 1 := Nat.mod_eq_of_lt (by omega)
    rw [h1]
    have : i - 1 + 1 = i := by omega
    rw [this]
    exact Nat.mod_eq_of_lt (by omega)

/-- `k` Tabs from the first candidate -/
def tabs (n : Nat) : Nat → Nat
  | 0 => 0
  | k + 1 => compNext n (tabs n k)

/-- k Tabs from the first candidate show candidate `k mod (n+1)` (index n = the original text). -/
theorem C14_k_tabs (n k : Nat) : tabs n k = k % (n + 1) := by
  induction k with
  | zero => simp [tabs]
  | succ k ih =>
    simp only [tabs, ih, compNext]
    simp [Nat.add_mod]

/-- Spec: what is shown for a candidate leaves the text before `start` and after the cursor intact. -/
theorem C14_spec_span_only (st : CompSt) (c : Text) :
    (spliceCand st c).1 = takeB st.backup.1 st.start ++ c ++ st.tail ∧
    (spliceCand st c).2 = blen (takeB st.backup.1 st.start) + blen c := by
  simp [spliceCand]

/-- Statement as first written: Esc / C-g in the circular loop restores text and cursor.  As written
    it also quantifies over fixed-capacity line buffers whose text is already longer than their
    capacity (never the editor's: `initEd` makes both buffers growable); there `LineBuffer::update`
    cuts the restored text (see `C14_update_truncates_fixed_buffer`), so the statement needs the
    hypothesis "growable" — `C14_abort_restores` below. -/
def C14_abort_restores_statement : Prop :=
  ∀ (S : Segmenter) (U : UData) (cfg : EdCfg) (s s' : Ed) (fuel : Nat),
    completeLine S U cfg fuel s = .ok (none, s') → cfg.listCompletion = false →
    s'.line.buf = s.line.buf ∧ s'.line.pos = s.line.pos

/-- **Abort restores**: whenever circular completion ends without handing a command back (no
    candidates, or Esc / C-g after any number of Tab / Shift-Tab presses and whatever keys were
    decoded in between), the text and the cursor are exactly those from before the completion
    (and the buffer is still growable). -/
theorem C14_abort_restores (S : Segmenter) (U : UData) (cfg : EdCfg) (s s' : Ed) (fuel : Nat)
    (hrun : completeLine S U cfg fuel s = .ok (none, s')) (hcirc : cfg.listCompletion = false)
    (hg : s.line.canGrow = true) (hp : s.line.pos ≤ blen s.line.buf) :
    s'.line.buf = s.line.buf ∧ s'.line.pos = s.line.pos ∧ s'.line.canGrow = true := by
  have hw : wp (completeLine S U cfg fuel)
      (fun r s' => r = none → s'.line.buf = s.line.buf ∧ s'.line.pos = s.line.pos ∧ s'.line.canGrow = true)
      (fun _ _ => True) s := by
    unfold completeLine
    simp only [wp_bind, wp_getLine]
    split
    · simp only [wp_pure]; intro _; exact ⟨trivial, trivial, hg⟩
    · simp only [hcirc, Bool.not_false, if_true, wp_bind, wp_changesBegin]
      exact completeCircular_abort S U cfg _ _ _ _ _ hp fuel 0 _ hg
  exact wp_ok hw hrun rfl

/-- the reason for the hypothesis: on a fixed-capacity buffer `update` cuts the text to the capacity -/
theorem C14_update_truncates_fixed_buffer (S : Segmenter) (U : UData) :
    LB.update S U ['a', 'b'] 2 { buf := [], pos := 0, cap := 1, canGrow := false } =
      .ok ((), { buf := ['a'], pos := 1, cap := 1, canGrow := false },
           [.del 0 [] .forward, .insStr 0 ['a']]) := by
  rfl

/-! ### the model's loop against the spec (`Spec.shownFor` / `Spec.spliceCand`) -/

/-- `complete_line` in circular mode with at least one candidate is the circular loop started at
    index 0 after `begin` -/
theorem C14_completeLine_circular_eq (S : Segmenter) (U : UData) (cfg : EdCfg) (s : Ed) (fuel : Nat)
    (hcirc : cfg.listCompletion = false) (hne : (cfg.completer s.line.buf s.line.pos).2.isEmpty = false) :
    completeLine S U cfg fuel s =
      completeCircular S U cfg (cfg.completer s.line.buf s.line.pos).1 (cfg.completer s.line.buf s.line.pos).2
        s.changes.undos.length s.line.buf s.line.pos fuel 0 { s with changes := s.changes.begin.1 } := by
  unfold completeLine
  simp only [EM.bind_apply, getLine, hne, hcirc, Bool.false_eq_true, if_false, Bool.not_false, if_true]
  rfl

/-- **Every exit of circular completion shows what the spec prescribes** (clauses "Tab rewrites only the
    span", "Esc restores", "any other key keeps the shown candidate and is handed back").
    Hypotheses: circular mode; growable line buffer; the cursor and the completer's start are on
    character boundaries of the line and start ≤ cursor.  Whatever keys are decoded inside the loop,
    if `complete_line` returns then either it returns `none` with text and cursor exactly as before, or
    it returns `some cmd` where `cmd` is none of `Complete` / `CompleteBackward` / `Abort`, and for some
    index `j ≤ n` the line and cursor are `Spec.shownFor` of `j`: candidate `j` spliced over the span
    (`Spec.spliceCand`), or the original text for `j = n`. -/
theorem C14_circular_exit_shows_spec (S : Segmenter) (U : UData) (cfg : EdCfg) (s s' : Ed) (fuel : Nat)
    (r : Option Cmd)
    (hrun : completeLine S U cfg fuel s = .ok (r, s')) (hcirc : cfg.listCompletion = false)
    (hg : s.line.canGrow = true) (hpos : IsBoundary s.line.buf s.line.pos)
    (hstart : IsBoundary s.line.buf (cfg.completer s.line.buf s.line.pos).1)
    (hle : (cfg.completer s.line.buf s.line.pos).1 ≤ s.line.pos) :
    match r with
    | none => s'.line.buf = s.line.buf ∧ s'.line.pos = s.line.pos
    | some cmd => Cmd.endsCompletion cmd ∧ ∃ j, j ≤ (cfg.completer s.line.buf s.line.pos).2.length ∧
        (s'.line.buf, s'.line.pos) =
          shownFor (compSt (cfg.completer s.line.buf s.line.pos).1 (cfg.completer s.line.buf s.line.pos).2
            s.line.buf s.line.pos j) := by
  by_cases hne : (cfg.completer s.line.buf s.line.pos).2.isEmpty = true
  · unfold completeLine at hrun
    simp only [EM.bind_apply, getLine, hne, if_true] at hrun
    cases hrun
    exact ⟨rfl, rfl⟩
  · have hne' : (cfg.completer s.line.buf s.line.pos).2.isEmpty = false := by simpa using hne
    rw [C14_completeLine_circular_eq S U cfg s fuel hcirc hne'] at hrun
    obtain ⟨x, y, z, _, hbuf, hx, hp⟩ := split3_of_boundaries hstart hpos hle
    generalize (cfg.completer s.line.buf s.line.pos).1 = start at *
    generalize (cfg.completer s.line.buf s.line.pos).2 = cands at *
    subst hx
    have hw := completeCircular_shows S U cfg x y z cands
      s.changes.undos.length fuel 0 { s with changes := s.changes.begin.1 } (Nat.zero_le _) hg ⟨y, hbuf, hp⟩
    rw [hbuf, hp] at hrun ⊢
    have h := wp_ok hw hrun
    cases r with
    | none => exact h.2
    | some cmd =>
      obtain ⟨_, hc, j, hj, hsh⟩ := h
      exact ⟨hc, j, hj, hsh⟩

/-- **Accept rewrites only the span**: under the hypotheses of `C14_circular_exit_shows_spec`, after a
    completion that hands a command back the line is `before ++ c ++ after` where `before` is the
    original text up to the completer's start and `after` the original text from the cursor on. -/
theorem C14_accept_span_only (S : Segmenter) (U : UData) (cfg : EdCfg) (s s' : Ed) (fuel : Nat) (cmd : Cmd)
    (hrun : completeLine S U cfg fuel s = .ok (some cmd, s')) (hcirc : cfg.listCompletion = false)
    (hg : s.line.canGrow = true) (hpos : IsBoundary s.line.buf s.line.pos)
    (hstart : IsBoundary s.line.buf (cfg.completer s.line.buf s.line.pos).1)
    (hle : (cfg.completer s.line.buf s.line.pos).1 ≤ s.line.pos) :
    ∃ c, s'.line.buf = takeB s.line.buf (cfg.completer s.line.buf s.line.pos).1 ++ c ++ dropB s.line.buf s.line.pos ∧
         s'.line.pos = (cfg.completer s.line.buf s.line.pos).1 + blen c := by
  obtain ⟨x, y, z, _, hbuf, hx, hp⟩ := split3_of_boundaries hstart hpos hle
  obtain ⟨_, j, _, hsh⟩ := C14_circular_exit_shows_spec S U cfg s s' fuel (some cmd) hrun hcirc hg hpos hstart hle
  generalize (cfg.completer s.line.buf s.line.pos).1 = start at *
  generalize (cfg.completer s.line.buf s.line.pos).2 = cands at *
  subst hx
  rw [hbuf, hp] at hsh ⊢
  rw [shownFor_compSt] at hsh
  rw [dropB_append3, List.append_assoc x y z, takeB_append]
  cases hc : cands[j]? with
  | none =>
    rw [hc] at hsh
    simp only [Prod.mk.injEq] at hsh
    exact ⟨y, by rw [hsh.1], hsh.2⟩
  | some c =>
    rw [hc] at hsh
    simp only [Prod.mk.injEq] at hsh
    exact ⟨c, hsh.1, hsh.2⟩

/-- **Circular completion, key by key** (clauses "successive Tabs show each candidate in order, then the
    original text, then wrap; Shift-Tab in reverse" and "any other key keeps the shown candidate and is
    handed back").  `CircPath … fuel 0 s₀ ks (fuel'+1) i' sk` says: in the run of the model's loop from its
    first head (index 0, the state after `begin`), the commands decoded in the successive turns were `ks`
    (`true` = `Complete`/Tab, `false` = `CompleteBackward`/Shift-Tab) — `CircPath.run` shows that the
    loop from the first head IS the loop from the head reached.  Hypotheses: circular mode, at least
    one candidate, growable buffer, cursor and completer start on boundaries, start ≤ cursor.  Then
    (a) the index at that head is `compWalk n 0 ks` (each Tab is `compNext`, each Shift-Tab `compPrev`);
    (b) in the next turn the command is decoded while line and cursor are exactly `Spec.shownFor` of that
        index — so this holds at EVERY turn of the loop (every prefix of a path is a path);
    (c) if that command is not `Complete` / `CompleteBackward` / `Abort`, `complete_line` returns it and
        the line stays the shown one (only the undo group is closed). -/
theorem C14_circular_key_by_key (S : Segmenter) (U : UData) (cfg : EdCfg) (s : Ed) (fuel : Nat)
    (hcirc : cfg.listCompletion = false) (hne : (cfg.completer s.line.buf s.line.pos).2.isEmpty = false)
    (hg : s.line.canGrow = true) (hpos : IsBoundary s.line.buf s.line.pos)
    (hstart : IsBoundary s.line.buf (cfg.completer s.line.buf s.line.pos).1)
    (hle : (cfg.completer s.line.buf s.line.pos).1 ≤ s.line.pos)
    (ks : List Bool) (fuel' i' : Nat) (sk s1 : Ed) (cmd : Cmd)
    (hpath : CircPath S U cfg (cfg.completer s.line.buf s.line.pos).1 (cfg.completer s.line.buf s.line.pos).2
      s.line.buf s.line.pos fuel 0 { s with changes := s.changes.begin.1 } ks (fuel' + 1) i' sk)
    (hturn : circTurn S U cfg (cfg.completer s.line.buf s.line.pos).1 (cfg.completer s.line.buf s.line.pos).2
      s.line.buf s.line.pos fuel' i' sk = .ok (cmd, s1)) :
    i' = compWalk (cfg.completer s.line.buf s.line.pos).2.length 0 ks ∧
    (s1.line.buf, s1.line.pos) =
      shownFor (compSt (cfg.completer s.line.buf s.line.pos).1 (cfg.completer s.line.buf s.line.pos).2
        s.line.buf s.line.pos i') ∧
    (Cmd.endsCompletion cmd →
      completeLine S U cfg fuel s = .ok (some cmd, { s1 with changes := s1.changes.end_.1 })) := by
  have heq := C14_completeLine_circular_eq S U cfg s fuel hcirc hne
  obtain ⟨x, y, z, _, hbuf, hx, hp⟩ := split3_of_boundaries hstart hpos hle
  generalize (cfg.completer s.line.buf s.line.pos).1 = start at *
  generalize (cfg.completer s.line.buf s.line.pos).2 = cands at *
  subst hx
  rw [hbuf, hp] at hpath hturn heq ⊢
  obtain ⟨hi, _, hgk, hsk⟩ := hpath.inv S U cfg x y z cands (Nat.zero_le _) hg ⟨y, hbuf, hp⟩
  obtain ⟨hsh, _⟩ := circTurn_shows S U cfg x y z cands fuel' i' sk s1 cmd hgk hsk hturn
  refine ⟨hi, hsh, fun hc => ?_⟩
  obtain ⟨m', e⟩ := hpath.run S U cfg s.changes.undos.length
  rw [heq, e]
  exact completeCircular_accept S U cfg _ _ _ _ _ _ _ _ _ _ hc hturn

/-- after `k` Tabs (and nothing else) the index shown is `k mod (n + 1)` = `tabs n k` (index `n` = the
    original text): each candidate in order, then the original text, then wrap -/
theorem C14_k_tabs_walk (n k : Nat) : compWalk n 0 (List.replicate k true) = tabs n k := by
  rw [compWalk_tabs n k 0 (Nat.zero_le _), C14_k_tabs, Nat.zero_add]

/-- Shift-Tab undoes Tab on the index walk: `ks ++ [Tab, Shift-Tab]` ends where `ks` ends -/
theorem C14_walk_tab_backtab (n i : Nat) (ks : List Bool) (hi : i ≤ n) :
    compWalk n i (ks ++ [true, false]) = compWalk n i ks := by
  induction ks generalizing i with
  | nil => simp only [List.nil_append, compWalk]; exact C14_prev_next n i hi
  | cons k ks ih =>
    cases k
    · simp only [List.cons_append, compWalk]; exact ih _ (C14_prev_in_range n i hi)
    · simp only [List.cons_append, compWalk]; exact ih _ (C14_next_in_range n i)

/-! ### one Undo after an accepted completion (emacs mode) -/

/-- **One Undo after an accepted completion restores the pre-completion text** (emacs mode, circular
    completion).  Hypotheses: emacs mode; circular mode; growable buffer; no undo group open when Tab
    is pressed (`level = 0`: emacs mode between commands); the undo stack is an exact log of the line
    (it replays, oldest change first, from some text `t0` to the text of the line — the invariant
    `UndoLogInv` of C05/C17).  Then for EVERY key sequence inside the loop, if `complete_line` hands a
    command back:
    (a) the undo stack is the stack from before plus ONE closed group `End :: body ++ Begin :: …` with
        `body` non-empty and free of markers, no group is open, and the stack is again an exact log;
    (b) `Changeset::undo` with count 1 on the resulting state succeeds, leaves exactly the
        pre-completion text, and the undo stack from before the completion. -/
theorem C14_undo_after_accept (S : Segmenter) (U : UData) (cfg : EdCfg) (hvi : cfg.vi = false)
    (hcirc : cfg.listCompletion = false) (s s' : Ed) (fuel : Nat) (cmd : Cmd) (t0 : Text)
    (hrun : completeLine S U cfg fuel s = .ok (some cmd, s'))
    (hg : s.line.canGrow = true) (hl0 : s.changes.level = 0)
    (hlog : replayLog s.changes.undos.reverse t0 = some s.line.buf) :
    (∃ body, body ≠ [] ∧ (∀ ch ∈ body, ch.isMarker = false) ∧
      s'.changes.undos = .end_ :: body ++ .begin :: s.changes.undos ∧ s'.changes.level = 0 ∧
      replayLog s'.changes.undos.reverse t0 = some s'.line.buf) ∧
    ∃ c' lb' undone, s'.changes.undo S U s'.line 1 = .ok (c', lb', undone) ∧
      lb'.buf = s.line.buf ∧ c'.undos = s.changes.undos := by
  by_cases hne : (cfg.completer s.line.buf s.line.pos).2.isEmpty = true
  · unfold completeLine at hrun
    simp only [EM.bind_apply, getLine, hne, if_true] at hrun
    cases hrun
  · have hne' : (cfg.completer s.line.buf s.line.pos).2.isEmpty = false := by simpa using hne
    rw [C14_completeLine_circular_eq S U cfg s fuel hcirc hne'] at hrun
    have hpos : 0 < (cfg.completer s.line.buf s.line.pos).2.length := by
      cases h : (cfg.completer s.line.buf s.line.pos).2 with
      | nil => rw [h] at hne'; cases hne'
      | cons a l => simp
    have hw := completeCircular_accept_log S U cfg hvi s.changes t0 hl0
      (cfg.completer s.line.buf s.line.pos).1 (cfg.completer s.line.buf s.line.pos).2 s.line.buf s.line.pos
      fuel s.changes.undos.length 0 { s with changes := s.changes.begin.1 } []
      ⟨GroupLog.start s.changes, hg, (C05_log_markers s.changes t0 _ hlog).1⟩ (Or.inr hpos)
    obtain ⟨body, hb1, hb2, hb3, hb4, hb5⟩ := wp_ok hw hrun cmd rfl
    exact ⟨⟨body, hb1, hb2, hb3, hb4, hb5⟩, undo_one_group S U s'.changes body s.changes.undos t0 s.line.buf s'.line hb3 hb2 hb5 hlog⟩

/-! ### list mode -/

/-- **List mode rewrites the span to the longest common prefix, or nothing** (model level, every exit).
    Hypotheses: list mode, at least one candidate, cursor and completer start on character boundaries,
    start ≤ cursor.  Whatever follows the first Tab (another key handed back, or a second Tab that lists
    the candidates — the cursor goes to the end and comes back), when `complete_line` returns the line
    and cursor are: `Spec.spliceCand` of the prefix `lcp` that the model's `lcpChars` returns, when
    `blen lcp > cursor − start` or there is exactly one candidate; the original line and cursor otherwise.
    Text before the start and after the cursor is intact in both cases (`C14_spec_span_only`). -/
theorem C14_list_lcp (S : Segmenter) (U : UData) (cfg : EdCfg) (s s' : Ed) (fuel : Nat) (r : Option Cmd)
    (hrun : completeLine S U cfg fuel s = .ok (r, s')) (hlist : cfg.listCompletion = true)
    (hne : (cfg.completer s.line.buf s.line.pos).2.isEmpty = false)
    (hpos : IsBoundary s.line.buf s.line.pos)
    (hstart : IsBoundary s.line.buf (cfg.completer s.line.buf s.line.pos).1)
    (hle : (cfg.completer s.line.buf s.line.pos).1 ≤ s.line.pos) :
    (s'.line.buf, s'.line.pos) =
      match lcpChars (cfg.completer s.line.buf s.line.pos).2 with
      | some lcp =>
        if blen lcp > s.line.pos - (cfg.completer s.line.buf s.line.pos).1 ||
            (cfg.completer s.line.buf s.line.pos).2.length == 1 then
          spliceCand (compSt (cfg.completer s.line.buf s.line.pos).1 (cfg.completer s.line.buf s.line.pos).2
            s.line.buf s.line.pos 0) lcp
        else (s.line.buf, s.line.pos)
      | none => (s.line.buf, s.line.pos) := by
  obtain ⟨x, y, z, _, hbuf, hx, hp⟩ := split3_of_boundaries hstart hpos hle
  have hc : cfg.completer s.line.buf s.line.pos = (blen x, (cfg.completer s.line.buf s.line.pos).2) := by
    rw [← hx]
  have hw := completeLine_list S U cfg x y z (cfg.completer s.line.buf s.line.pos).2 fuel s hlist hne hbuf hp hc
  have h := wp_ok hw hrun
  rw [h]
  generalize (cfg.completer s.line.buf s.line.pos).1 = start at *
  generalize (cfg.completer s.line.buf s.line.pos).2 = cands at *
  subst hx
  unfold listShown
  rw [hbuf, hp]
  have hsub : blen x + blen y - blen x = blen y := by omega
  cases lcpChars cands with
  | none => rfl
  | some lcp => simp only [hsub, spliceCand_compSt]

/-- the model's prefix is the spec's `lcpOf` (for two or more candidates, when non-empty; the single
    candidate itself for one), and `lcpOf` is a prefix of EVERY candidate -/
theorem C14_lcp_is_common_prefix (cands : List Text) (p : Text) (h : lcpChars cands = some p) :
    p = lcpOf cands ∧ ∀ c ∈ cands, p <+: c := by
  have hp : p = lcpOf cands := by
    rw [lcpChars_spec] at h
    match cands, h with
    | [c], h => simp only [Option.some.injEq] at h; rw [← h]; rfl
    | c :: d :: cs, h =>
      simp only [] at h
      by_cases he : (lcpOf (c :: d :: cs)).isEmpty = true
      · rw [if_pos he] at h; cases h
      · rw [if_neg he] at h; exact (Option.some.inj h).symm
  exact ⟨hp, fun c hc => by rw [hp]; exact lcpOf_prefix cands c hc⟩

/-- **List mode against the oracle's formula.**  Under the hypotheses of `C14_list_lcp` and unless the
    only candidate is the empty string, the line after list-mode completion is what `Spec.oracleC14`
    prescribes: with `lcp = lcpOf cands`, `spliceCand lcp` when `lcp` is non-empty and
    (`blen lcp > cursor − start` or there is one candidate), the original line otherwise. -/
theorem C14_list_matches_oracle (S : Segmenter) (U : UData) (cfg : EdCfg) (s s' : Ed) (fuel : Nat) (r : Option Cmd)
    (hrun : completeLine S U cfg fuel s = .ok (r, s')) (hlist : cfg.listCompletion = true)
    (hne : (cfg.completer s.line.buf s.line.pos).2.isEmpty = false)
    (hnot : (cfg.completer s.line.buf s.line.pos).2 ≠ [[]])
    (hpos : IsBoundary s.line.buf s.line.pos)
    (hstart : IsBoundary s.line.buf (cfg.completer s.line.buf s.line.pos).1)
    (hle : (cfg.completer s.line.buf s.line.pos).1 ≤ s.line.pos) :
    (s'.line.buf, s'.line.pos) =
      if (!(lcpOf (cfg.completer s.line.buf s.line.pos).2).isEmpty &&
          (blen (lcpOf (cfg.completer s.line.buf s.line.pos).2) > s.line.pos - (cfg.completer s.line.buf s.line.pos).1 ||
           (cfg.completer s.line.buf s.line.pos).2.length == 1)) = true then
        spliceCand (compSt (cfg.completer s.line.buf s.line.pos).1 (cfg.completer s.line.buf s.line.pos).2
          s.line.buf s.line.pos 0) (lcpOf (cfg.completer s.line.buf s.line.pos).2)
      else (s.line.buf, s.line.pos) := by
  rw [C14_list_lcp S U cfg s s' fuel r hrun hlist hne hpos hstart hle]
  generalize (cfg.completer s.line.buf s.line.pos).1 = start at *
  generalize (cfg.completer s.line.buf s.line.pos).2 = cands at *
  rw [lcpChars_spec]
  match cands, hne, hnot with
  | [c], _, hnot =>
    have hc : c.isEmpty = false := by
      cases c with
      | nil => exact absurd rfl hnot
      | cons a l => rfl
    simp [lcpOf, hc]
  | c :: d :: cs, _, _ =>
    by_cases he : (lcpOf (c :: d :: cs)).isEmpty = true
    · simp [he]
    · simp [he]

/-! ### concrete runs: non-vacuity, regression examples, and the clauses that are false as written -/

/-- witness data: one cluster per character (`charSeg`), width = number of chars -/
def C14_wit_udata : UData :=
  { alnum := Char.isAlphanum, ws := Char.isWhitespace, upper := fun c => [c], lower := fun c => [c],
    width := List.length }

/-- emacs mode, circular completion, a completer that offers "foo" and "fu" for the word starting at byte 3 -/
def C14_wit_cfg : EdCfg :=
  { vi := false, hasHelper := true, hasCompleter := true, completer := (fun _ _ => (3, [['f','o','o'], ['f','u']])) }

/-- line "ls f x" with the cursor after the "f" (byte 4), empty undo log, pending input `keys` -/
def C14_wit_state (keys : List (List UInt8)) : Ed :=
  { line := { buf := ['l','s',' ','f',' ','x'], pos := 4, cap := 64, canGrow := true },
    saved := { buf := [], pos := 0, cap := 64, canGrow := true },
    changes := Changeset.new, ring := KillRing.new 60, histIdx := 0,
    inp := {}, hint := none, highlightChar := false, defaultPrompt := true,
    input := { buf := [], avail := [], future := keys }, obs := [], validatorCalls := [] }

/-- the hypotheses of `C14_circular_exit_shows_spec` / `C14_circular_key_by_key` / `C14_undo_after_accept`
    hold of the witness state (non-vacuity) -/
example (keys : List (List UInt8)) :
    C14_wit_cfg.listCompletion = false ∧ C14_wit_cfg.vi = false ∧
    (C14_wit_state keys).line.canGrow = true ∧ (C14_wit_state keys).changes.level = 0 ∧
    IsBoundary (C14_wit_state keys).line.buf (C14_wit_state keys).line.pos ∧
    IsBoundary (C14_wit_state keys).line.buf
      (C14_wit_cfg.completer (C14_wit_state keys).line.buf (C14_wit_state keys).line.pos).1 ∧
    (C14_wit_cfg.completer (C14_wit_state keys).line.buf (C14_wit_state keys).line.pos).1 ≤ (C14_wit_state keys).line.pos ∧
    replayLog (C14_wit_state keys).changes.undos.reverse ['l','s',' ','f',' ','x'] = some (C14_wit_state keys).line.buf :=
  ⟨rfl, rfl, rfl, rfl, ⟨['l','s',' ','f'], [' ','x'], rfl, rfl⟩, ⟨['l','s',' '], ['f',' ','x'], rfl, rfl⟩,
    (by show 3 ≤ 4; omega), rfl⟩

/-- a whole run: Tab was pressed; inside the loop Tab, Tab, Tab (second candidate, original text, wrap to
    the first candidate), then `x`: the loop hands `SelfInsert x` back with "ls foo x", cursor after "foo";
    text before byte 3 and after the original cursor is intact -/
example :
    (completeLine charSeg C14_wit_udata C14_wit_cfg 8 (C14_wit_state [[0x09], [0x09], [0x09], [0x78]])).toOption.map
      (fun r => (r.1 == some (.selfInsert 1 'x'), r.2.line.buf, r.2.line.pos)) =
    some (true, ['l','s',' ','f','o','o',' ','x'], 6) := by decide +kernel

/-- … and one Undo on the result gives the pre-completion text back, with the log from before -/
example :
    (match completeLine charSeg C14_wit_udata C14_wit_cfg 8 (C14_wit_state [[0x09], [0x09], [0x09], [0x78]]) with
     | .ok (_, s) => (match s.changes.undo charSeg C14_wit_udata s.line 1 with
                      | .ok (c, l, _) => some (l.buf, c.undos)
                      | .error _ => none)
     | .error _ => none) = some (['l','s',' ','f',' ','x'], []) := by decide +kernel

/-- Esc after two candidates: nothing is handed back, text, cursor and undo log are as before -/
example :
    (completeLine charSeg C14_wit_udata C14_wit_cfg 8 (C14_wit_state [[0x09], [0x07]])).toOption.map
      (fun r => (r.1.isNone, r.2.line.buf, r.2.line.pos, r.2.changes.undos, r.2.changes.level)) =
    some (true, ['l','s',' ','f',' ','x'], 4, [], 0) := by decide +kernel

/-- "One Undo after an accepted completion restores the pre-completion text" for EVERY mode and log
    state (the hypotheses `emacs mode` and `no group open` of `C14_undo_after_accept` dropped) -/
def C14_undo_after_accept_statement : Prop :=
  ∀ (S : Segmenter) (U : UData) (cfg : EdCfg) (s s' : Ed) (fuel : Nat) (cmd : Cmd) (t0 : Text),
    cfg.listCompletion = false → completeLine S U cfg fuel s = .ok (some cmd, s') →
    s.line.canGrow = true → replayLog s.changes.undos.reverse t0 = some s.line.buf →
    ∃ c' lb' undone, s'.changes.undo S U s'.line 1 = .ok (c', lb', undone) ∧ lb'.buf = s.line.buf

/-- vi insert mode with the insert session's group open (`[Insert(0,"ab"), Begin]`, level 1), line "ab",
    one candidate "abc" -/
def C14_wit_vi_cfg : EdCfg :=
  { vi := true, hasHelper := true, hasCompleter := true, completer := (fun _ _ => (0, [['a','b','c']])) }

def C14_wit_vi_state : Ed :=
  { line := { buf := ['a','b'], pos := 2, cap := 64, canGrow := true },
    saved := { buf := [], pos := 0, cap := 64, canGrow := true },
    changes := { level := 1, undos := [.insert 0 ['a','b'], .begin], redos := [] }, ring := KillRing.new 60, histIdx := 0,
    inp := {}, hint := none, highlightChar := false, defaultPrompt := true,
    input := { buf := [], avail := [], future := [[0x78]] }, obs := [], validatorCalls := [] }

/-- vi insert mode: accepting the completion (`changes.end()` closes ALL open groups) also closes the
    insert session's group, so one Undo afterwards takes back the whole session — the line is "" and not
    the pre-completion "ab" (as in vi, where `u` undoes an insert session as a whole) -/
theorem C14_vi_undo_after_accept_takes_session :
    (match completeLine charSeg C14_wit_udata C14_wit_vi_cfg 8 C14_wit_vi_state with
     | .ok (r, s) => (match s.changes.undo charSeg C14_wit_udata s.line 1 with
                      | .ok (_, l, _) => some (r.isSome, s.line.buf, l.buf)
                      | .error _ => none)
     | .error _ => none) = some (true, ['a','b','c'], []) := by decide +kernel

/-- **the undo clause without "emacs mode, no group open" is false** (witness above; benign: vi semantics) -/
theorem C14_undo_after_accept_statement_false : ¬ C14_undo_after_accept_statement := by
  intro h
  have w := C14_vi_undo_after_accept_takes_session
  cases hr : completeLine charSeg C14_wit_udata C14_wit_vi_cfg 8 C14_wit_vi_state with
  | error e => rw [hr] at w; cases w
  | ok r =>
    obtain ⟨o, s'⟩ := r
    rw [hr] at w
    cases o with
    | none =>
      simp only [] at w
      split at w <;> simp at w
    | some cmd =>
      obtain ⟨c', lb', u, hu, hb⟩ := h charSeg C14_wit_udata C14_wit_vi_cfg C14_wit_vi_state s' 8 cmd [] rfl hr rfl rfl
      simp only [hu, Option.some.injEq, Prod.mk.injEq] at w
      rw [hb] at w
      exact absurd w.2.2 (by decide)

/-- list mode, ONE candidate which is the empty string, word "f" before the cursor -/
def C14_wit_list_cfg : EdCfg :=
  { vi := false, listCompletion := true, hasHelper := true, hasCompleter := true, completer := (fun _ _ => (3, [[]])) }

/-- **list mode with the empty string as the only candidate deletes the word**: `longest_common_prefix`
    returns the single candidate as it is and `candidates.len() == 1` forces the replacement, so "ls f x"
    becomes "ls  x" — the span does not "become the longest common prefix when that extends it", and
    `Spec.oracleC14` (which asks for a non-empty prefix) prescribes the unchanged line here.  This is the
    case excluded by `hnot` in `C14_list_matches_oracle`; model and `src/lib.rs:153-158` agree. -/
theorem C14_list_single_empty_candidate_deletes_span :
    (completeLine charSeg C14_wit_udata C14_wit_list_cfg 8 (C14_wit_state [])).toOption.map
      (fun r => (r.1.isNone, r.2.line.buf, r.2.line.pos)) = some (true, ['l','s',' ',' ','x'], 3) ∧
    (if (!(lcpOf [([] : Text)]).isEmpty && (blen (lcpOf [([] : Text)]) > 4 - 3 || [([] : Text)].length == 1)) = true
     then spliceCand (compSt 3 [[]] ['l','s',' ','f',' ','x'] 4 0) (lcpOf [[]])
     else ((['l','s',' ','f',' ','x'] : Text), 4)) = (['l','s',' ','f',' ','x'], 4) := by
  constructor
  · decide +kernel
  · rfl

/-- non-vacuity of the path hypothesis of `C14_circular_key_by_key`: on the witness state with the
    pending keys Tab, `x` there is a one-Tab path from the first loop head to the head with index 1, and
    the turn there reads `SelfInsert x` -/
example :
    ∃ s1 s2,
      CircPath charSeg C14_wit_udata C14_wit_cfg 3 [['f','o','o'], ['f','u']] ['l','s',' ','f',' ','x'] 4 8 0
        { C14_wit_state [[0x09], [0x78]] with changes := (C14_wit_state [[0x09], [0x78]]).changes.begin.1 }
        [true] (6 + 1) 1 s1 ∧
      circTurn charSeg C14_wit_udata C14_wit_cfg 3 [['f','o','o'], ['f','u']] ['l','s',' ','f',' ','x'] 4 6 1 s1 =
        .ok (.selfInsert 1 'x', s2) := by
  have w : (match circTurn charSeg C14_wit_udata C14_wit_cfg 3 [['f','o','o'], ['f','u']] ['l','s',' ','f',' ','x'] 4 7 0
        { C14_wit_state [[0x09], [0x78]] with changes := (C14_wit_state [[0x09], [0x78]]).changes.begin.1 } with
      | .ok (c1, s1) =>
        (match circTurn charSeg C14_wit_udata C14_wit_cfg 3 [['f','o','o'], ['f','u']] ['l','s',' ','f',' ','x'] 4 6 1 s1 with
         | .ok (c2, _) => some (c1, c2)
         | .error _ => none)
      | .error _ => none) = some (Cmd.complete, Cmd.selfInsert 1 'x') := by decide +kernel
  cases h1 : circTurn charSeg C14_wit_udata C14_wit_cfg 3 [['f','o','o'], ['f','u']] ['l','s',' ','f',' ','x'] 4 7 0
      { C14_wit_state [[0x09], [0x78]] with changes := (C14_wit_state [[0x09], [0x78]]).changes.begin.1 } with
  | error e => rw [h1] at w; cases w
  | ok r1 =>
    obtain ⟨c1, s1⟩ := r1
    rw [h1] at w
    simp only [] at w
    cases h2 : circTurn charSeg C14_wit_udata C14_wit_cfg 3 [['f','o','o'], ['f','u']] ['l','s',' ','f',' ','x'] 4 6 1 s1 with
    | error e => rw [h2] at w; cases w
    | ok r2 =>
      obtain ⟨c2, s2⟩ := r2
      rw [h2] at w
      simp only [Option.some.injEq, Prod.mk.injEq] at w
      obtain ⟨rfl, rfl⟩ := w
      exact ⟨s1, s2, CircPath.tab h1 (CircPath.nil _ _ _), h2⟩

/-! ### one Undo after an accepted completion: the cursor; dispatch of the command handed back -/

/-- **One Undo after an accepted completion restores the pre-completion text AND cursor** (emacs mode,
    circular completion).  Hypotheses: those of `C14_undo_after_accept` (emacs mode; circular mode;
    growable buffer; no undo group open; the undo stack is an exact log of the line) plus the ones the
    other circular theorems use: the cursor and the completer's start are on character boundaries of
    the line and start ≤ cursor.  What the model (`Changeset::undo` → `Change::undo`) does to the cursor:
    every `Change::undo` step sets it (`Replace idx old new` ↦ `idx + old.len()`), so after one Undo of
    the group it is where the undo step of the group's OLDEST change puts it.  Proved, for EVERY key
    sequence inside the loop, if `complete_line` hands a command back:
    (a) the group logged by the completion is `End :: pre ++ [Replace start y n] ++ Begin :: log before`
        where `y` is the ORIGINAL text between the completer's start and the cursor (`pre` marker-free;
        the first candidate shown is logged as this `Replace`, later ones are merged into it or pushed above);
    (b) `Changeset::undo` with count 1 succeeds and leaves the pre-completion text, the cursor at
        `start + |y|`, which IS the pre-completion cursor `s.line.pos`, and the undo stack from before. -/
theorem C14_undo_after_accept_cursor (S : Segmenter) (U : UData) (cfg : EdCfg) (hvi : cfg.vi = false)
    (hcirc : cfg.listCompletion = false) (s s' : Ed) (fuel : Nat) (cmd : Cmd) (t0 : Text)
    (hrun : completeLine S U cfg fuel s = .ok (some cmd, s'))
    (hg : s.line.canGrow = true) (hl0 : s.changes.level = 0)
    (hlog : replayLog s.changes.undos.reverse t0 = some s.line.buf)
    (hpos : IsBoundary s.line.buf s.line.pos)
    (hstart : IsBoundary s.line.buf (cfg.completer s.line.buf s.line.pos).1)
    (hle : (cfg.completer s.line.buf s.line.pos).1 ≤ s.line.pos) :
    (∃ pre n y, (∀ ch ∈ pre, ch.isMarker = false) ∧
      s.line.buf = takeB s.line.buf (cfg.completer s.line.buf s.line.pos).1 ++ y ++ dropB s.line.buf s.line.pos ∧
      (cfg.completer s.line.buf s.line.pos).1 + blen y = s.line.pos ∧
      s'.changes.undos = .end_ :: (pre ++ [.replace (cfg.completer s.line.buf s.line.pos).1 y n])
        ++ .begin :: s.changes.undos) ∧
    ∃ c' lb' undone, s'.changes.undo S U s'.line 1 = .ok (c', lb', undone) ∧
      lb'.buf = s.line.buf ∧ lb'.pos = s.line.pos ∧ c'.undos = s.changes.undos := by
  obtain ⟨⟨body, _, hb2, hb3, _, hb5⟩, _⟩ :=
    C14_undo_after_accept S U cfg hvi hcirc s s' fuel cmd t0 hrun hg hl0 hlog
  by_cases hne : (cfg.completer s.line.buf s.line.pos).2.isEmpty = true
  · unfold completeLine at hrun
    simp only [EM.bind_apply, getLine, hne, if_true] at hrun
    cases hrun
  · have hne' : (cfg.completer s.line.buf s.line.pos).2.isEmpty = false := by simpa using hne
    rw [C14_completeLine_circular_eq S U cfg s fuel hcirc hne'] at hrun
    have hlen : 0 < (cfg.completer s.line.buf s.line.pos).2.length := by
      cases h : (cfg.completer s.line.buf s.line.pos).2 with
      | nil => rw [h] at hne'; cases hne'
      | cons a l => simp
    obtain ⟨x, y, z, _, hbuf, hx, hp⟩ := split3_of_boundaries hstart hpos hle
    generalize (cfg.completer s.line.buf s.line.pos).1 = start at *
    generalize (cfg.completer s.line.buf s.line.pos).2 = cands at *
    subst hx
    have hrun' := hrun
    rw [hbuf, hp] at hrun'
    have hw := completeCircular_accept_oldest S U cfg hvi s.changes.undos x y z cands fuel
      s.changes.undos.length 0 { s with changes := s.changes.begin.1 }
      (Or.inl ⟨hg, hbuf, hp, rfl, hlen⟩)
    obtain ⟨pre, n, hR⟩ := wp_ok hw hrun' cmd rfl
    -- the two descriptions of the stack agree: `body = pre' ++ [Replace …]`
    have hcancel : Change.end_ :: body = pre ++ [.replace (blen x) y n] := by
      have e : (Change.end_ :: body) ++ (Change.begin :: s.changes.undos)
          = (pre ++ [.replace (blen x) y n]) ++ (Change.begin :: s.changes.undos) := by
        rw [← hb3, hR]; simp
      exact List.append_cancel_right e
    cases pre with
    | nil => simp at hcancel
    | cons p pre' =>
      simp only [List.cons_append, List.cons.injEq] at hcancel
      obtain ⟨_, hbody⟩ := hcancel
      subst hbody
      have hmp : ∀ ch ∈ pre', ch.isMarker = false := fun ch hch => hb2 ch (List.mem_append_left _ hch)
      have hu : s'.changes.undos = .end_ :: (pre' ++ [.replace (blen x) y n]) ++ .begin :: s.changes.undos := hb3
      refine ⟨⟨pre', n, y, hmp, ?_, hp.symm, hu⟩, ?_⟩
      · rw [hp]
        conv => rhs; rw [hbuf]
        rw [dropB_append3, List.append_assoc x y z, takeB_append]
        exact hbuf
      · obtain ⟨c', lb', undone, h1, h2, h3, h4⟩ :=
          undo_one_group_cursor S U s'.changes pre' s.changes.undos (blen x) y n t0 s.line.buf s'.line hu hmp hb5 hlog
        exact ⟨c', lb', undone, h1, h2, by rw [h3, hp], h4⟩

/-- the whole run of the witness (Tab, then Tab Tab Tab `x` inside the loop): one Undo gives back the
    pre-completion text, the pre-completion CURSOR (byte 4) and the log from before -/
example :
    (match completeLine charSeg C14_wit_udata C14_wit_cfg 8 (C14_wit_state [[0x09], [0x09], [0x09], [0x78]]) with
     | .ok (_, s) => (match s.changes.undo charSeg C14_wit_udata s.line 1 with
                      | .ok (c, l, _) => some (l.buf, l.pos, c.undos)
                      | .error _ => none)
     | .error _ => none) = some (['l','s',' ','f',' ','x'], 4, []) := by decide +kernel

/-- **The command that ends a completion is then executed normally** (clause "any other key keeps the
    shown candidate and is then executed"; mirror of `C08_exit_command_dispatched`): with a helper
    configured, the dispatcher `preCmds` on `Complete` runs `complete_line` and feeds the command it
    hands back to itself again, on the state the completion left, exactly as if it had been typed there.
    No hypothesis besides the run itself (any mode, circular or list). -/
theorem C14_accept_command_dispatched (S : Segmenter) (U : UData) (cfg : EdCfg) (s s' : Ed) (fuel : Nat) (cmd : Cmd)
    (hh : cfg.hasHelper = true)
    (hrun : completeLine S U cfg fuel s = .ok (some cmd, s')) :
    preCmds S U cfg (fuel + 1) .complete s = preCmds S U cfg fuel cmd s' := by
  have h1 : (Cmd.complete == Cmd.complete && cfg.hasHelper) = true := by
    rw [hh]; decide
  conv => lhs; unfold preCmds
  simp only [h1, if_true, EM.bind_apply, hrun]

/-- … and when `complete_line` hands nothing back (Esc, no candidates, list shown) the dispatcher
    returns to the main loop with no command -/
theorem C14_abort_nothing_dispatched (S : Segmenter) (U : UData) (cfg : EdCfg) (s s' : Ed) (fuel : Nat)
    (hh : cfg.hasHelper = true)
    (hrun : completeLine S U cfg fuel s = .ok (none, s')) :
    preCmds S U cfg (fuel + 1) .complete s = .ok (none, s') := by
  have h1 : (Cmd.complete == Cmd.complete && cfg.hasHelper) = true := by
    rw [hh]; decide
  conv => lhs; unfold preCmds
  simp only [h1, if_true, EM.bind_apply, hrun]
  rfl

/-- **Any other key keeps the shown candidate and is then executed** (circular mode, key by key).
    Under the hypotheses of `C14_circular_key_by_key` (the turn of the loop that decodes `cmd` on the
    state `s1` showing index `i'`), if `cmd` is none of `Complete` / `CompleteBackward` / `Abort`, then the
    dispatcher started on the Tab (`preCmds … Complete`) continues as `preCmds … cmd` on `s1` with only
    the undo group closed — a state whose line and cursor are exactly `Spec.shownFor` of `i'`; and if
    moreover `cmd` needs no extra input (it is not `ReverseSearchHistory`) the dispatcher returns `cmd`
    on that very state, which is what `mainLoop` then passes to `execute`. -/
theorem C14_other_key_keeps_candidate_and_executes (S : Segmenter) (U : UData) (cfg : EdCfg) (s : Ed) (fuel : Nat)
    (hh : cfg.hasHelper = true)
    (hcirc : cfg.listCompletion = false) (hne : (cfg.completer s.line.buf s.line.pos).2.isEmpty = false)
    (hg : s.line.canGrow = true) (hpos : IsBoundary s.line.buf s.line.pos)
    (hstart : IsBoundary s.line.buf (cfg.completer s.line.buf s.line.pos).1)
    (hle : (cfg.completer s.line.buf s.line.pos).1 ≤ s.line.pos)
    (ks : List Bool) (fuel' i' : Nat) (sk s1 : Ed) (cmd : Cmd)
    (hpath : CircPath S U cfg (cfg.completer s.line.buf s.line.pos).1 (cfg.completer s.line.buf s.line.pos).2
      s.line.buf s.line.pos fuel 0 { s with changes := s.changes.begin.1 } ks (fuel' + 1) i' sk)
    (hturn : circTurn S U cfg (cfg.completer s.line.buf s.line.pos).1 (cfg.completer s.line.buf s.line.pos).2
      s.line.buf s.line.pos fuel' i' sk = .ok (cmd, s1))
    (hend : Cmd.endsCompletion cmd) :
    let s2 : Ed := { s1 with changes := s1.changes.end_.1 }
    (s2.line.buf, s2.line.pos) =
      shownFor (compSt (cfg.completer s.line.buf s.line.pos).1 (cfg.completer s.line.buf s.line.pos).2
        s.line.buf s.line.pos i') ∧
    preCmds S U cfg (fuel + 1) .complete s = preCmds S U cfg fuel cmd s2 ∧
    (cmd ≠ .reverseSearchHistory → ∀ f, fuel = f + 1 → preCmds S U cfg (fuel + 1) .complete s = .ok (some cmd, s2)) := by
  obtain ⟨_, hsh, hc⟩ := C14_circular_key_by_key S U cfg s fuel hcirc hne hg hpos hstart hle ks fuel' i' sk s1 cmd hpath hturn
  have hrun := hc hend
  have hd := C14_accept_command_dispatched S U cfg s _ fuel cmd hh hrun
  refine ⟨hsh, hd, fun hr f hf => ?_⟩
  rw [hd, hf]
  unfold preCmds
  have h1 : (cmd == Cmd.complete && cfg.hasHelper) = false := by
    have : (cmd == Cmd.complete) = false := by
      cases h : cmd == Cmd.complete with
      | false => rfl
      | true => exact absurd (by simpa using h) hend.1
    rw [this]; rfl
  have h2 : (cmd == Cmd.reverseSearchHistory) = false := by
    cases h : cmd == Cmd.reverseSearchHistory with
    | false => rfl
    | true => exact absurd (by simpa using h) hr
  simp only [h1, h2, Bool.false_eq_true, if_false]
  rfl

/-- non-vacuity of the dispatch theorems on the witness: a helper is configured, and the dispatcher
    started on Tab with `Tab`, `x` pending returns `SelfInsert x` on the line showing the second
    candidate "fu" (cursor after it) -/
example : C14_wit_cfg.hasHelper = true := rfl
example :
    (preCmds charSeg C14_wit_udata C14_wit_cfg 9 .complete (C14_wit_state [[0x09], [0x78]])).toOption.map
      (fun r => (r.1 == some (.selfInsert 1 'x'), r.2.line.buf, r.2.line.pos)) =
    some (true, ['l','s',' ','f','u',' ','x'], 5) := by decide +kernel
