/-
  Property C12 — a torn or foreign history file never crashes the load and never invents entries.
  Model: Rl/HistFile.lean (transliteration of `load_from` of src/history.rs after the repair of
  D19: a backslash left dangling at the end of a line is dropped, the unescaped prefix is kept).
  Spec (oracle on the implementation): Rl/Spec/HistFile.lean.  Lemmas: Rl/Lemmas/HistFile.lean.

  In the model every slice / index of the unescape loop is an `Option` (`hfSliceTo`, `byteAt`,
  `hfSliceFrom`), a `none` is reported as status `panic`; so "never panics" is a theorem about the
  byte arithmetic, not a consequence of totality.
-/
import Rl.HistFile
import Rl.Lemmas.HistFile
import Rl.Lemmas.HistFileGap
open Rl

/-- The unescape loop never slices off a character boundary and never indexes out of range, on
    any line whatsoever: after a backslash only one ASCII byte is skipped, and the index is
    guarded. -/
theorem C12_unescape_total (line : Text) : ∃ r, unescape line = some r :=
  ⟨_, unescape_eq line⟩

/-- Loading arbitrary bytes (any list of atoms: invalid UTF-8, lone backslashes, CR/LF mixes, empty
    file, header only …) into any history never panics: the status is ok, invalid-data — never
    `panic` (and `io` is not produced by the reader either). -/
theorem C12_no_panic (ws : Char → Bool) (f : List Atom) (h : FileHist) :
    (loadFrom ws f h).status = .ok ∨ (loadFrom ws f h).status = .invalidData := by
  have key : ∀ v2 ls h app, (loadLines ws v2 ls h app).status = .ok ∨
      (loadLines ws v2 ls h app).status = .invalidData := by
    intro v2 ls
    induction ls with
    | nil => intro h app; simp [loadLines]
    | cons l ls ih =>
      intro h app
      obtain ⟨l, term⟩ := l
      simp only [loadLines]
      split
      · simp
      · split
        · exact ih _ _
        · cases v2
          · simp only [Bool.false_eq_true, if_false]; exact ih _ _
          · simp only [if_true, unescape_eq]; exact ih _ _
  unfold loadFrom
  split
  · simp
  · split
    · simp
    · split
      · exact key _ _ _ _
      · exact key _ _ _ _

/-- Whatever the file and whatever the outcome, the history afterwards is the history before with
    some lines added through `add` — nothing is cleared, replaced or altered, so the store
    invariants of C09 (size bound, order) keep holding and the history stays usable. -/
theorem C12_load_only_adds (ws : Char → Bool) (f : List Atom) (h : FileHist) :
    ∃ added, (loadFrom ws f h).h.mem = (addAll ws h added).mem := by
  unfold loadFrom
  split
  · exact ⟨[], rfl⟩
  · split
    · exact ⟨[], rfl⟩
    · split
      · exact loadLines_only_adds ws _ _ _ _
      · rename_i line _ _
        obtain ⟨a, ha⟩ := loadLines_only_adds ws false _ (h.add ws line).1 false
        exact ⟨line :: a, by simpa [addAll] using ha⟩

/-- An error keeps what was loaded before it: if the file consists of complete lines `good` that
    load without error, followed by a line `b` that is not valid UTF-8, followed by anything, then
    the load returns invalid-data and the history holds exactly what loading `good` alone gives. -/
theorem C12_error_keeps_loaded (ws : Char → Bool) (good b rest : List Atom) (h : FileHist)
    (hgood : good = [] ∨ ∃ g, good = g ++ [Atom.chr '\n'])
    (hb : lineText b = none) (hbnl : Atom.chr '\n' ∉ b)
    (hrest : rest = [] ∨ ∃ r, rest = Atom.chr '\n' :: r)
    (hok : (loadFrom ws good h).status = .ok) :
    (loadFrom ws (good ++ b ++ rest) h).status = .invalidData ∧
    (loadFrom ws (good ++ b ++ rest) h).h.mem = (loadFrom ws good h).h.mem := by
  have hbne : b ≠ [] := by intro h'; subst h'; simp [lineText] at hb
  -- the bad line as a `lines()` item
  obtain ⟨term, L2, hbl⟩ : ∃ term L2, splitLines (b ++ rest) = (b, term) :: L2 := by
    rcases hrest with h' | ⟨r, h'⟩
    · subst h'; exact ⟨false, [], by rw [List.append_nil]; exact splitLines_last b hbnl hbne⟩
    · subst h'; exact ⟨true, splitLines r, splitLines_line b hbnl r⟩
  rcases hgood with h' | ⟨g, h'⟩
  · subst h'
    simp only [List.nil_append]
    unfold loadFrom
    rw [hbl]
    simp [decodeLine, hb, splitLines]
  · subst h'
    have hsplit : splitLines (g ++ [Atom.chr '\n'] ++ b ++ rest)
        = splitLines (g ++ [Atom.chr '\n']) ++ (b, term) :: L2 := by
      have := splitLines_complete g (b ++ rest)
      rw [hbl] at this
      simpa [List.append_assoc] using this
    unfold loadFrom at hok ⊢
    rw [hsplit]
    cases hs : splitLines (g ++ [Atom.chr '\n']) with
    | nil => simp [decodeLine, hb]
    | cons first L1 =>
      obtain ⟨fl, ft⟩ := first
      rw [hs] at hok
      simp only [List.cons_append] at hok ⊢
      cases hd : decodeLine fl ft with
      | none => simp [hd] at hok
      | some line =>
        simp only [hd] at hok ⊢
        split
        · rename_i hh
          simp only [hh, if_true] at hok
          have := loadLines_bad_line ws true L1 b term L2 hb h true
          exact ⟨this.2 hok, this.1⟩
        · rename_i hh
          simp only [hh, if_false] at hok
          have := loadLines_bad_line ws false L1 b term L2 hb (h.add ws line).1 false
          exact ⟨this.2 hok, this.1⟩

/-- Torn file: for every storable entry list, every configuration and EVERY cut offset `k ≥ 4`
    (bytes, so cuts inside multi-byte characters and inside escapes are included), loading the
    first `k` bytes of the written file into a fresh history gives status ok or invalid-data (the
    latter exactly when a character was cut), and the entries are the written entries in order:
    the first `j` complete and identical, then at most one more, which is a prefix of the `j`-th
    written entry.  Nothing else: no entry altered, duplicated or invented.  And nothing complete
    is lost: every entry whose line lies entirely within the first `k` bytes is among the `j`. -/
theorem C12_prefix (ws : Char → Bool) (max : Nat) (isp idp : Bool) (es : List Text)
    (hs : Storable ws max isp idp es) (k : Nat) (h4 : 4 ≤ k) :
    ((loadFrom ws (cutAtoms (atomsOf (fileOf es)) k) (FileHist.new max isp idp)).status = .ok ∨
     (loadFrom ws (cutAtoms (atomsOf (fileOf es)) k) (FileHist.new max isp idp)).status = .invalidData) ∧
    ∃ j, j ≤ es.length ∧
      (∀ m, m ≤ es.length → blen (fileOf (es.take m)) ≤ k → m ≤ j) ∧
      (loadFrom ws (cutAtoms (atomsOf (fileOf es)) k) (FileHist.new max isp idp)).h.mem.entries.take j = es.take j ∧
      ((loadFrom ws (cutAtoms (atomsOf (fileOf es)) k) (FileHist.new max isp idp)).h.mem.entries.length = j ∨
       ((loadFrom ws (cutAtoms (atomsOf (fileOf es)) k) (FileHist.new max isp idp)).h.mem.entries.length = j + 1 ∧
        ∃ e g, es[j]? = some e ∧
          (loadFrom ws (cutAtoms (atomsOf (fileOf es)) k) (FileHist.new max isp idp)).h.mem.entries[j]? = some g ∧
          g <+: e)) := by
  obtain ⟨k', rfl⟩ : ∃ k', k = k' + 4 := ⟨k - 4, by omega⟩
  obtain ⟨p, bads, hp, hcut, hbads⟩ := cutAtoms_atomsOf (linesOf es) k'
  obtain ⟨j, q, hj, hpq, hq⟩ := prefix_linesOf es p hp
  have hfile : cutAtoms (atomsOf (fileOf es)) (k' + 4)
      = atomsOf (fileOf (es.take j)) ++ (atomsOf q ++ bads) := by
    rw [cutAtoms_fileOf, hcut, hpq]
    simp [fileOf, atomsOf]
  have hmax : ∀ m, m ≤ es.length → blen (fileOf (es.take m)) ≤ k' + 4 → m ≤ j := by
    intro m _ hb
    have hb' : blen (linesOf (es.take m)) ≤ k' := by
      have : blen (fileOf (es.take m)) = 4 + blen (linesOf (es.take m)) := by
        simp only [fileOf, header, blen_cons, List.cons_append, List.nil_append]
        rw [show ('#' : Char).utf8Size = 1 from rfl, show ('V' : Char).utf8Size = 1 from rfl,
          show ('2' : Char).utf8Size = 1 from rfl, show ('\n' : Char).utf8Size = 1 from rfl]
        omega
      omega
    have hpre : linesOf (es.take m) <+: linesOf es := by
      conv => rhs; rw [← List.take_append_drop m es, linesOf_append]
      exact List.prefix_append _ _
    have h1 := cutAtoms_prefix_max _ _ _ hpre hb'
    rw [hcut, hpq] at h1
    have h2 := h1.sublist.count_le (Atom.chr '\n')
    have hq0 : (atomsOf q).count (Atom.chr '\n') = 0 := by
      apply count_nl_atomsOf_of_not_mem
      rcases hq with hq | ⟨e, _, hq⟩
      · subst hq; simp
      · exact fun h' => esc_no_nl e (hq.subset h')
    have hb0 : bads.count (Atom.chr '\n') = 0 := by
      rw [List.count_eq_zero]
      intro h'
      obtain ⟨b, hb⟩ := hbads _ h'
      simp at hb
    rw [count_nl_linesOf, List.count_append, atomsOf_append, List.count_append, count_nl_linesOf, hq0, hb0] at h2
    simp at h2
    omega
  have hsj := hs.take j
  have hlenj : (es.take j).length = j := by simp; omega
  have hA := addAll_storable ws (es.take j) [] (FileHist.new max isp idp) rfl
    (by simpa [FileHist.new, MemHist.new] using hsj)
  rw [hfile, loadFrom_fileOf ws (es.take j) hsj.nonempty]
  generalize hAdef : addAll ws (FileHist.new max isp idp) (List.take j es) = A at hA
  generalize acceptAll ws (FileHist.new max isp idp) (List.take j es) = app
  obtain ⟨hAe, _, hAmax, _, _⟩ := hA
  simp only [List.nil_append] at hAe
  by_cases htail : atomsOf q ++ bads = []
  · -- cut exactly at the end of a line
    rw [htail]
    simp only [splitLines, loadLines]
    exact ⟨by simp, j, hj, hmax, by rw [hAe, List.take_take, Nat.min_self], Or.inl (by simp [hAe, hlenj])⟩
  · have hnonl : Atom.chr '\n' ∉ atomsOf q ++ bads := by
      intro hmem
      rcases List.mem_append.mp hmem with h1 | h1
      · rw [mem_atomsOf] at h1
        rcases hq with hq | ⟨e, _, hq⟩
        · subst hq; simp at h1
        · exact esc_no_nl e (hq.subset h1)
      · obtain ⟨b, hb⟩ := hbads _ h1
        simp at hb
    rw [splitLines_last _ hnonl htail]
    simp only [loadLines, decodeLine, lineText_bads q bads hbads, Bool.false_eq_true, if_false]
    by_cases hb0 : bads = []
    · subst hb0
      have hqne : q ≠ [] := by intro h'; subst h'; simp [atomsOf] at htail
      rcases hq with hq | ⟨e, hej, hq⟩
      · exact absurd hq hqne
      · obtain ⟨e', he', hu⟩ := unescChars_esc_prefix e q hq
        have hjlt : j < es.length := by
          rcases Nat.lt_or_ge j es.length with h' | h'
          · exact h'
          · rw [List.getElem?_eq_none h'] at hej; simp at hej
        have hlt : A.mem.entries.length < A.mem.maxLen := by
          rw [hAe, hlenj, hAmax]; simp [FileHist.new, MemHist.new]; have := hs.1; omega
        simp only [if_true, Option.map_some, List.isEmpty_iff, hqne, if_false, unescape_eq, hu,
          Option.getD_some]
        refine ⟨by simp, j, hj, hmax, ?_⟩
        rcases add_entries ws A e' hlt with h1 | h1
        · rw [h1, hAe]
          exact ⟨by rw [List.take_take, Nat.min_self], Or.inl hlenj⟩
        · rw [h1, hAe]
          refine ⟨by simp [hlenj], Or.inr ⟨by simp [hlenj], e, e', hej, ?_, he'⟩⟩
          rw [List.getElem?_append_right (by simp [hlenj])]
          simp [hlenj]
    · simp only [hb0, if_false, Option.map_none]
      exact ⟨by simp, j, hj, hmax, by rw [hAe, List.take_take, Nat.min_self], Or.inl (by simp [hAe, hlenj])⟩

/-- loading an empty file changes no entry -/
theorem C12_empty_file (ws : Char → Bool) (h : FileHist) :
    (loadFrom ws [] h).status = .ok ∧ (loadFrom ws [] h).h.mem = h.mem := by
  simp [loadFrom, splitLines]

/-! Non-vacuity and the D19 witnesses (kernel-evaluated): the entry "\n" is written as `\n`; the
    file cut after the backslash (offset 5) yields no entry (before the repair: the invented entry
    "\"); `x⏎y\z` cut inside its second escape yields the prefix `x⏎y`; a cut inside `é` gives
    invalid-data and keeps the complete entry before it. -/
example :
    (loadFrom (fun c => c == ' ') (cutAtoms (atomsOf (fileOf ["\n".toList])) 5) (FileHist.new 9 false false)).h.mem.entries = [] ∧
    (loadFrom (fun c => c == ' ') (cutAtoms (atomsOf (fileOf ["x\ny\\z".toList])) 9) (FileHist.new 9 false false)).h.mem.entries
      = ["x\ny".toList] ∧
    (loadFrom (fun c => c == ' ') (cutAtoms (atomsOf (fileOf ["ab".toList, "é".toList])) 8) (FileHist.new 9 false false)).status
      = .invalidData ∧
    (loadFrom (fun c => c == ' ') (cutAtoms (atomsOf (fileOf ["ab".toList, "é".toList])) 8) (FileHist.new 9 false false)).h.mem.entries
      = ["ab".toList] ∧
    cutAtoms (atomsOf (fileOf ["ab".toList, "é".toList])) 8 = atomsOf "#V2\nab\n".toList ++ [Atom.bad 195] := by
  decide

/-! ### Gap filling (package S): exact error condition, whole sessions, appended files, torn header -/

/-- Exact outcome of a load of ARBITRARY bytes, into any history: the load reports invalid-data
    if and only if the file contains a byte that is not part of a validly encoded character, and
    succeeds if and only if it contains none.  (So lone backslashes, unknown escapes, CR/LF mixes,
    empty lines, a missing or repeated header … can never make a load fail, let alone panic.) -/
theorem C12_status_exact (ws : Char → Bool) (f : List Atom) (h : FileHist) :
    ((loadFrom ws f h).status = .invalidData ↔ ∃ b, Atom.bad b ∈ f) ∧
    ((loadFrom ws f h).status = .ok ↔ ∀ b, Atom.bad b ∉ f) := by
  have h1 := loadFrom_status_iff ws f h
  refine ⟨h1, ?_⟩
  rcases C12_no_panic ws f h with h2 | h2
  · rw [h2] at h1 ⊢
    simp only [reduceCtorEq, false_iff, not_exists] at h1
    simpa using h1
  · rw [h2] at h1 ⊢
    simp only [true_iff] at h1
    obtain ⟨b, hb⟩ := h1
    constructor
    · intro h'; cases h'
    · intro hall; exact absurd hb (hall b)

/-- No panic anywhere in a whole session.  From ANY world (any history, any file content, stale
    or not) and for EVERY sequence of operations — adds, saves, appends (fast path and re-read
    path), loads into the current or a fresh history, and outside events that truncate the file
    at any byte offset, replace it by arbitrary bytes or remove it — no call ever reports the
    status `panic`: each save / append / load ends with ok, invalid-data or (file missing) io. -/
theorem C12_session_never_panics (ws : Char → Bool) (ops : List FOp) (w : World) :
    ∀ o ∈ (World.run ws w ops).2, o ≠ FObs.status HfStatus.panic := by
  have hsave : ∀ w : World, w.save.2 = .ok := by
    intro w; simp only [World.save]; split <;> rfl
  have hnp : ∀ f h, (loadFrom ws f h).status ≠ .panic := by
    intro f h; rcases C12_no_panic ws f h with h' | h' <;> simp [h']
  have hload : ∀ w : World, (w.load ws).2 ≠ .panic := by
    intro w
    simp only [World.load]
    repeat' split
    all_goals first | exact hnp _ _ | simp
  have happ : ∀ w : World, (w.append ws).2 ≠ .panic := by
    intro w
    simp only [World.append]
    repeat' split
    all_goals first | exact hnp _ _ | (rw [hsave]; simp) | simp
  induction ops generalizing w with
  | nil => simp [World.run]
  | cons op ops ih =>
    intro o ho
    simp only [World.run, List.mem_cons] at ho
    rcases ho with ho | ho
    · subst ho
      cases op with
      | add l => simp [World.step]
      | save => simp [World.step, hsave]
      | append => simpa [World.step] using happ w
      | fresh => simp [World.step]
      | freshLoad => simpa [World.step] using hload _
      | load => simpa [World.step] using hload w
      | raw => simp [World.step]
      | dump => simp [World.step]
      | rm => simp [World.step]
      | cut k =>
        simp only [World.step]
        repeat' split
        all_goals simp
      | put f => simp [World.step]
    · exact ih _ o ho

/-- The conclusion of the torn-file theorem, for a load result `r` of a file that was cut after `k`
    bytes, relative to the written entry list `es`: status ok or invalid-data; the first `j` entries
    are complete and identical, every entry whose line lies within the first `k` bytes is among
    them, and there is at most one more entry, which is a prefix of the `j`-th written one. -/
def C12_TornOutcome (es : List Text) (k : Nat) (r : LoadRes) : Prop :=
  (r.status = .ok ∨ r.status = .invalidData) ∧
  ∃ j, j ≤ es.length ∧
    (∀ m, m ≤ es.length → blen (fileOf (es.take m)) ≤ k → m ≤ j) ∧
    r.h.mem.entries.take j = es.take j ∧
    (r.h.mem.entries.length = j ∨
     (r.h.mem.entries.length = j + 1 ∧
      ∃ e g, es[j]? = some e ∧ r.h.mem.entries[j]? = some g ∧ g <+: e))

/-- Torn file after `save` + any number of `append`s: the file that `save` wrote for `es` and that
    was then extended by the fast path of `append` with the batches `bs` (any number of batches,
    each any list of entries), cut at EVERY byte offset `k ≥ 4` — inside the saved part, inside any
    appended batch, inside a multi-byte character, between a backslash and its escape letter —
    loads without panic as the entries `es ++ bs.flatten` in order, the last one possibly cut
    short, nothing altered, duplicated or invented (hypothesis: the combined list fits the
    settings, which is what the fast path checks). -/
theorem C12_prefix_appended (ws : Char → Bool) (max : Nat) (isp idp : Bool) (es : List Text)
    (bs : List (List Text)) (hs : Storable ws max isp idp (es ++ bs.flatten)) (k : Nat) (h4 : 4 ≤ k) :
    C12_TornOutcome (es ++ bs.flatten) k
      (loadFrom ws (cutAtoms (appendedFile es bs) k) (FileHist.new max isp idp)) := by
  rw [appendedFile_eq]
  exact C12_prefix ws max isp idp _ hs k h4

example : Storable (fun c => c == ' ') 9 false false (["a\n".toList] ++ [["é".toList], ["\r".toList, "z".toList]].flatten) ∧
    appendedFile ["a\n".toList] [["é".toList], ["\r".toList, "z".toList]]
      = atomsOf "#V2\na\\n\né\n\\r\nz\n".toList := by
  refine ⟨⟨by decide, ?_, by simp⟩, by decide⟩
  intro e he
  simp only [List.flatten_cons, List.flatten_nil, List.append_nil, List.cons_append, List.nil_append,
    List.mem_cons, List.not_mem_nil, or_false] at he
  rcases he with rfl | rfl | rfl | rfl <;> exact ⟨by decide, by simp⟩

/-- Torn HEADER (the case the property excludes, stated so that the boundary is exact): a cut at
    offset `k < 4` never fails, and the load yields nothing for `k = 0` and `k = 3` (`#V2` without
    its line feed is still recognised), but for `k = 1` / `k = 2` the fragment `#` / `#V` is taken
    for a legacy file and handed to `add` as an ENTRY.  The hypothesis `4 ≤ k` of the torn-file
    theorem is therefore necessary: see the witness below. -/
theorem C12_header_cut (ws : Char → Bool) (max : Nat) (isp idp : Bool) (es : List Text) (k : Nat)
    (hk : k < 4) :
    (loadFrom ws (cutAtoms (atomsOf (fileOf es)) k) (FileHist.new max isp idp)).status = .ok ∧
    (loadFrom ws (cutAtoms (atomsOf (fileOf es)) k) (FileHist.new max isp idp)).h.mem
      = (addAll ws (FileHist.new max isp idp)
          (if k = 1 then [['#']] else if k = 2 then [['#', 'V']] else [])).mem := by
  have h1 : ('#' : Char).utf8Size = 1 := rfl
  have h2 : ('V' : Char).utf8Size = 1 := rfl
  have h3 : ('2' : Char).utf8Size = 1 := rfl
  have hk' : k = 0 ∨ k = 1 ∨ k = 2 ∨ k = 3 := by omega
  rcases hk' with rfl | rfl | rfl | rfl <;>
    simp [fileOf, header, atomsOf, cutAtoms, h1, h2, h3, loadFrom, splitLines, decodeLine, lineText,
      loadLines, addAll]

/-- witness: a history file torn inside its header makes the next load invent the entry `#` -/
theorem C12_header_cut_invents_entry :
    (loadFrom (fun c => c == ' ') (cutAtoms (atomsOf (fileOf ["ab".toList])) 1) (FileHist.new 9 false false)).h.mem.entries
      = ["#".toList] ∧
    (loadFrom (fun c => c == ' ') (cutAtoms (atomsOf (fileOf ["ab".toList])) 2) (FileHist.new 9 false false)).h.mem.entries
      = ["#V".toList] := by
  decide

/-- When exactly a torn file gives an error.  For EVERY entry list (storable or not), every
    history loaded into and EVERY cut offset `k` (header included): loading the first `k` bytes of
    the written file reports invalid-data if and only if the cut falls strictly inside the file and
    not on a character boundary (it splits a multi-byte character); in every other case — a cut on
    a character boundary anywhere: inside the header, between a backslash and its escape letter,
    in the middle of a line — the load succeeds. -/
theorem C12_torn_status_exact (ws : Char → Bool) (es : List Text) (h : FileHist) (k : Nat) :
    ((loadFrom ws (cutAtoms (atomsOf (fileOf es)) k) h).status = .invalidData ↔
      (k < blen (fileOf es) ∧ ¬ ∃ p, p <+: fileOf es ∧ blen p = k)) ∧
    ((loadFrom ws (cutAtoms (atomsOf (fileOf es)) k) h).status = .ok ↔
      (blen (fileOf es) ≤ k ∨ ∃ p, p <+: fileOf es ∧ blen p = k)) := by
  have h1 := (C12_status_exact ws (cutAtoms (atomsOf (fileOf es)) k) h).1
  rw [cutAtoms_bad_iff] at h1
  refine ⟨h1, ?_⟩
  rcases C12_no_panic ws (cutAtoms (atomsOf (fileOf es)) k) h with h2 | h2
  · rw [h2] at h1 ⊢
    simp only [reduceCtorEq, false_iff, not_and, true_iff] at h1 ⊢
    rcases Nat.lt_or_ge k (blen (fileOf es)) with hk | hk
    · exact Or.inr (Classical.not_not.mp (h1 hk))
    · exact Or.inl hk
  · rw [h2] at h1 ⊢
    simp only [true_iff, reduceCtorEq, false_iff, not_or, Nat.not_le] at h1 ⊢
    exact h1

/-- both outcomes occur: `é` occupies offsets 4–5 of the file of `["é"]` -/
example :
    (loadFrom (fun c => c == ' ') (cutAtoms (atomsOf (fileOf ["é".toList])) 5) (FileHist.new 9 false false)).status = .invalidData ∧
    (loadFrom (fun c => c == ' ') (cutAtoms (atomsOf (fileOf ["é".toList])) 6) (FileHist.new 9 false false)).status = .ok := by
  decide

/-- The torn-file theorem as a SESSION: in any world whose file is what `save` wrote for `es`
    followed by any `append` batches `bs`, the outside event "the file is truncated to its first
    `k` bytes" (any `k ≥ 4`, also beyond the end of the file, where nothing happens) followed by a
    new session that loads the file reports a status `st` and leaves a history such that the
    torn-file outcome holds: ok or invalid-data, the written entries in order, the last one
    possibly cut short, nothing altered, duplicated or invented. -/
theorem C12_session_torn (ws : Char → Bool) (w : World) (es : List Text) (bs : List (List Text))
    (hf : w.file = some (appendedFile es bs))
    (hs : Storable ws w.sess.fh.mem.maxLen w.sess.fh.mem.ignoreSpace w.sess.fh.mem.ignoreDups
            (es ++ bs.flatten)) (k : Nat) (h4 : 4 ≤ k) :
    ∃ st, (World.run ws w [.cut k, .freshLoad]).2 = [.unit, .status st] ∧
      C12_TornOutcome (es ++ bs.flatten) k
        { h := (World.run ws w [.cut k, .freshLoad]).1.sess.fh, status := st, appendable := false } := by
  have hp := C12_prefix_appended ws _ _ _ es bs hs k h4
  obtain ⟨w1, hw1, hfile1, hsess1⟩ : ∃ w1, w.step ws (.cut k) = (w1, .unit) ∧
      w1.file = some (cutAtoms (appendedFile es bs) k) ∧ w1.sess = w.sess := by
    simp only [World.step, hf]
    split
    · exact ⟨_, rfl, rfl, rfl⟩
    · exact ⟨_, rfl, by rw [hf, cutAtoms_of_size_le _ _ (by omega)], rfl⟩
  have hl := World.load_some ws { w1 with sess := { fh := freshHist w1.sess.fh, pathSize := none } } _ hfile1
  have hrun : World.run ws w [.cut k, .freshLoad]
      = ((w1.step ws .freshLoad).1, [.unit, (w1.step ws .freshLoad).2]) := by
    simp only [World.run]; rw [hw1]
  rw [hrun]
  simp only [World.step]
  refine ⟨_, rfl, ?_⟩
  unfold C12_TornOutcome at hp ⊢
  simp only [hsess1, freshHist] at hl ⊢
  simp only [hl.1, hl.2]
  exact hp
