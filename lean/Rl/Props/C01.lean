/-
  Property C01 — keystrokes produce the documented edit.
  Spec: `Rl/Spec/Doc.lean` (README tables as data + declarative meaning of every action),
  oracle `Rl/Spec/OracleDoc.lean` (run on the implementation's callbacks by `./check C01`).
  Model: `Rl/Editor.lean` (keymaps `emacs` / `viCommand` / `viInsert` / `viCmdMotion` / `common`,
  numeric arguments, `execute`).  Helper lemmas: `Rl/Lemmas/Keymap.lean`.
-/
import Rl.Editor
import Rl.Spec.Doc
import Rl.Lemmas.Keymap
import Rl.Lemmas.KeymapVi
import Rl.Lemmas.ExecRefines
import Rl.Lemmas.ExecRefines2
import Rl.Lemmas.ExecRefines3
import Rl.Props.C07
import Rl.Lemmas.EditorFrame
import Rl.Lemmas.LineBuffer
import Rl.Lemmas.LineBufferSafe
import Rl.Lemmas.EditorM
import Rl.Lemmas.EditorOps
import Rl.Props.C03
import Rl.Lemmas.ArgKeys
open Rl Rl.Spec Rl.Spec.Doc

/-! ### C01_binding_table — every (key, action) of the README tables is what the keymap returns

  For every entry of the table of a mode whose action needs no further key, every state, every
  pending count `n` and direction `p`: the model's keymap function returns the `Cmd` that denotes
  the action resolved with the GNU count / direction conventions (`DocAction.resolve`,
  `Act.toCmd`), and leaves the text alone.  Entries that read more keys (operators, `f t F T r`,
  `C-v`, digit arguments) are covered by `C01_vi_operator_motion`, `C01_numeric_argument` and the
  correspondence; entries judged by other properties (`other`) denote no command here. -/

set_option maxHeartbeats 1600000 in
/-- Emacs mode, the mode's own table. -/
theorem C01_binding_table_emacs (S : Segmenter) (U : UData) (cfg : EdCfg) (hvi : cfg.vi = false)
    (hb : cfg.binds = []) (fuel : Nat) (s : Ed) (e : KeyEvent × DocAction) (he : e ∈ emacsTable) (cmd : Cmd)
    (hc : (e.2.resolve (countOf s.inp.numArgs).1 (countOf s.inp.numArgs).2 s.line.buf.isEmpty false).toCmd = some cmd)
    (hr : ¬ (e.1 = key .right ∧ s.hint.isSome = true ∧ s.line.pos = blen s.line.buf)) :
    ∃ s', emacs S U cfg fuel e.1 s = .ok (cmd, s') ∧ s'.line = s.line := by
  obtain ⟨k, a⟩ := e
  simp only [emacsTable, List.mem_cons, List.not_mem_nil, or_false, Prod.mk.injEq] at he
  generalize hnp : countOf s.inp.numArgs = np at hc
  obtain ⟨n, p⟩ := np
  have hna := emacsNumArgs_eq s
  rw [hnp] at hna
  rcases he with he | he | he | he | he | he | he | he | he | he | he | he | he | he | he | he | he | he | he | he | he | he | he | he | he | he | he | he | he | he | he | he | he | he | he | he | he | he | he | he | he | he | he | he | he | he
  all_goals (
    obtain ⟨rfl, rfl⟩ := he
    simp only [] at hr hc ⊢
    first
    | (cases p <;>
       simp [DocAction.resolve, DocMove.toMovement, Doc.Act.toCmd] at hc <;>
       (try subst hc) <;>
       simp [emacs, common, EM.bind_apply, EM.pure_apply, hna, customBinding, hb, termBinding, ctrl, altk, key,
         Mods.alt, isDigit, dirMove, lineEmpty, hasHint, cursorAtEnd, hvi]; done)
    | (cases p <;> cases hem : s.line.buf.isEmpty <;>
       simp [DocAction.resolve, DocMove.toMovement, Doc.Act.toCmd, hem] at hc <;>
       (try subst hc) <;>
       simp [emacs, common, EM.bind_apply, EM.pure_apply, hna, customBinding, hb, termBinding, ctrl, altk, key,
         Mods.alt, isDigit, dirMove, lineEmpty, hasHint, cursorAtEnd, hvi, hem] <;> simp_all; done)
    | (cases p <;> by_cases hh : (s.hint.isSome = true ∧ s.line.pos = blen s.line.buf) <;>
       simp [DocAction.resolve, DocMove.toMovement, Doc.Act.toCmd] at hc <;>
       (try subst hc) <;>
       simp [emacs, common, EM.bind_apply, EM.pure_apply, hna, customBinding, hb, termBinding, ctrl, altk, key,
         Mods.alt, isDigit, dirMove, lineEmpty, hasHint, cursorAtEnd, hvi, hh] <;> simp_all; done)
    | (cases p <;> by_cases hn1 : n = 1 <;>
       simp [DocAction.resolve, DocMove.toMovement, Doc.Act.toCmd, hn1] at hc <;>
       (try subst hc) <;>
       simp [emacs, common, EM.bind_apply, EM.pure_apply, hna, customBinding, hb, termBinding, ctrl, altk, key,
         Mods.alt, isDigit, dirMove, lineEmpty, hasHint, cursorAtEnd, hvi]))

set_option maxHeartbeats 1600000 in
/-- Emacs mode, the "For all modes" table (`Right` with a hint at the end of the line completes the hint instead). -/
theorem C01_binding_table_emacs_common (S : Segmenter) (U : UData) (cfg : EdCfg) (hvi : cfg.vi = false)
    (hb : cfg.binds = []) (fuel : Nat) (s : Ed) (e : KeyEvent × DocAction) (he : e ∈ commonTable) (cmd : Cmd)
    (hc : (e.2.resolve (countOf s.inp.numArgs).1 (countOf s.inp.numArgs).2 s.line.buf.isEmpty false).toCmd = some cmd)
    (hr : ¬ (e.1 = key .right ∧ s.hint.isSome = true ∧ s.line.pos = blen s.line.buf)) :
    ∃ s', emacs S U cfg fuel e.1 s = .ok (cmd, s') ∧ s'.line = s.line := by
  obtain ⟨k, a⟩ := e
  simp only [commonTable, List.mem_cons, List.not_mem_nil, or_false, Prod.mk.injEq] at he
  generalize hnp : countOf s.inp.numArgs = np at hc
  obtain ⟨n, p⟩ := np
  have hna := emacsNumArgs_eq s
  rw [hnp] at hna
  rcases he with he | he | he | he | he | he | he | he | he | he | he | he | he | he | he | he | he | he | he | he
  all_goals (
    obtain ⟨rfl, rfl⟩ := he
    simp only [] at hr hc ⊢
    first
    | (cases p <;>
       simp [DocAction.resolve, DocMove.toMovement, Doc.Act.toCmd] at hc <;>
       (try subst hc) <;>
       simp [emacs, common, EM.bind_apply, EM.pure_apply, hna, customBinding, hb, termBinding, ctrl, altk, key,
         Mods.alt, isDigit, dirMove, lineEmpty, hasHint, cursorAtEnd, hvi]; done)
    | (cases p <;> cases hem : s.line.buf.isEmpty <;>
       simp [DocAction.resolve, DocMove.toMovement, Doc.Act.toCmd, hem] at hc <;>
       (try subst hc) <;>
       simp [emacs, common, EM.bind_apply, EM.pure_apply, hna, customBinding, hb, termBinding, ctrl, altk, key,
         Mods.alt, isDigit, dirMove, lineEmpty, hasHint, cursorAtEnd, hvi, hem] <;> simp_all; done)
    | (cases p <;> by_cases hh : (s.hint.isSome = true ∧ s.line.pos = blen s.line.buf) <;>
       simp [DocAction.resolve, DocMove.toMovement, Doc.Act.toCmd] at hc <;>
       (try subst hc) <;>
       simp [emacs, common, EM.bind_apply, EM.pure_apply, hna, customBinding, hb, termBinding, ctrl, altk, key,
         Mods.alt, isDigit, dirMove, lineEmpty, hasHint, cursorAtEnd, hvi, hh] <;> simp_all; done)
    | (cases p <;> by_cases hn1 : n = 1 <;>
       simp [DocAction.resolve, DocMove.toMovement, Doc.Act.toCmd, hn1] at hc <;>
       (try subst hc) <;>
       simp [emacs, common, EM.bind_apply, EM.pure_apply, hna, customBinding, hb, termBinding, ctrl, altk, key,
         Mods.alt, isDigit, dirMove, lineEmpty, hasHint, cursorAtEnd, hvi]))


/-- vi command mode: every entry of the mode's table and of the "For all modes" table that needs
    no further key, every state, every pending count `n` (vi counts are never negative): `viCommand`
    returns the `Cmd` denoting the documented action, the line is untouched.  (Chunk lemmas in
    Rl/Lemmas/KeymapVi.lean.) -/
theorem C01_binding_table_vi_command (S : Segmenter) (U : UData) (cfg : EdCfg) (hb : cfg.binds = [])
    (fuel : Nat) (s : Ed) (h0 : 0 ≤ s.inp.numArgs) (e : KeyEvent × DocAction) (he : e ∈ table .viCommand) (cmd : Cmd)
    (hc : (e.2.resolve (countOf s.inp.numArgs).1 true s.line.buf.isEmpty true).toCmd = some cmd) :
    ∃ s', viCommand S U cfg fuel e.1 s = .ok (cmd, s') ∧ s'.line = s.line := by
  simp only [table, List.mem_append] at he
  rcases he with he | he
  · rw [viCommandTable_split] at he
    simp only [List.mem_append] at he
    rcases he with he | he | he
    · exact viCommand_table_1 S U cfg hb fuel s h0 e he cmd hc
    · exact viCommand_table_2 S U cfg hb fuel s h0 e he cmd hc
    · exact viCommand_table_3 S U cfg hb fuel s h0 e he cmd hc
  · exact viCommand_table_common S U cfg hb fuel s h0 e he cmd hc

/-- vi insert mode (count 1, as `viInsert` hands to `common`): the mode's table and the "For all
    modes" table; `Right` with a hint at the end of the line completes the hint instead. -/
theorem C01_binding_table_vi_insert (S : Segmenter) (U : UData) (cfg : EdCfg) (hb : cfg.binds = [])
    (fuel : Nat) (s : Ed) (e : KeyEvent × DocAction) (he : e ∈ table .viInsert) (cmd : Cmd)
    (hc : (e.2.resolve 1 true s.line.buf.isEmpty true).toCmd = some cmd)
    (hr : ¬ (e.1 = key .right ∧ s.hint.isSome = true ∧ s.line.pos = blen s.line.buf)) :
    ∃ s', viInsert S U cfg fuel e.1 s = .ok (cmd, s') ∧ s'.line = s.line :=
  viInsert_table S U cfg hb fuel s e he cmd hc hr

/-! ### C01_vi_operator_motion — `d` / `c` / `y` + [count] motion

  `docMotion` (Rl/Lemmas/KeymapVi.lean) is the documented movement of a `viMotionTable` entry:
  `operatorMovement` for the plain motions (`e`/`E` inclusive, `cw` = `ce`), the character search
  for `f t F T` + char, the remembered search for `;` `,`.  The count is the count typed before the
  operator (`n0`) times the count typed before the motion. -/

/-- every operator, every argument-free entry of the motion table, no count before the motion -/
theorem C01_vi_operator_motion (S : Segmenter) (U : UData) (cfg : EdCfg) (fuel : Nat) (op : KeyEvent)
    (hop : isOperatorKey op) (n0 : Nat) (s s1 : Ed) (e : KeyEvent × DocAction) (he : e ∈ viMotionTable)
    (hcs : ∀ k, e.2 ≠ .charSearch k) (hk : nextKey false s = .ok (e.1, s1)) :
    viCmdMotion S U cfg fuel op n0 s =
      .ok (docMotion e.2 n0 (op == plain 'c') s1.inp.lastCharSearch none, s1) :=
  viCmdMotion_plain S U cfg fuel op hop n0 s s1 e he hcs hk

/-- with a count `c₂` between operator and motion: count `min (c₂ · n0) 65535` -/
theorem C01_vi_operator_motion_counts (S : Segmenter) (U : UData) (cfg : EdCfg) (fuel : Nat) (op : KeyEvent)
    (hop : isOperatorKey op) (n0 : Nat) (s s1 s2 : Ed) (d : Char) (hd1 : '1' ≤ d) (hd9 : d ≤ '9')
    (e : KeyEvent × DocAction) (he : e ∈ viMotionTable) (hcs : ∀ k, e.2 ≠ .charSearch k)
    (hk : nextKey false s = .ok (⟨.char d, 0⟩, s1))
    (hdig : viArgDigit S U cfg fuel d s1 = .ok (e.1, s2)) (h0 : 0 ≤ s2.inp.numArgs) :
    viCmdMotion S U cfg fuel op n0 s =
      .ok (docMotion e.2 (min ((countOf s2.inp.numArgs).1 * n0) 65535) (op == plain 'c') s2.inp.lastCharSearch none,
           { s2 with inp := { s2.inp with numArgs := 0 } }) :=
  viCmdMotion_count S U cfg fuel op hop n0 s s1 s2 d hd1 hd9 e he hcs hk hdig h0

/-- `f t F T` + a plain character as the motion: the documented search, which is also remembered -/
theorem C01_vi_operator_char_search (S : Segmenter) (U : UData) (cfg : EdCfg) (fuel : Nat) (op : KeyEvent)
    (hop : isOperatorKey op) (n0 : Nat) (s s1 s2 : Ed) (k : KeyEvent) (kind ch : Char)
    (he : (k, DocAction.charSearch kind) ∈ viMotionTable)
    (hk : nextKey false s = .ok (k, s1)) (hk2 : nextKey false s1 = .ok (⟨.char ch, 0⟩, s2)) :
    viCmdMotion S U cfg fuel op n0 s =
      .ok (docMotion (.charSearch kind) n0 (op == plain 'c') s1.inp.lastCharSearch (some ch),
           { s2 with inp := { s2.inp with lastCharSearch := some (charSearchOf kind ch) } }) :=
  viCmdMotion_charSearch S U cfg fuel op hop n0 s s1 s2 k kind ch he hk hk2

/-- the operator key typed twice (`dd` `cc` `yy`) is the whole line -/
theorem C01_vi_operator_doubled (S : Segmenter) (U : UData) (cfg : EdCfg) (fuel : Nat) (op : KeyEvent)
    (n0 : Nat) (s s1 : Ed) (hk : nextKey false s = .ok (op, s1)) :
    viCmdMotion S U cfg fuel op n0 s = .ok (some .wholeLine, s1) :=
  viCmdMotion_doubled S U cfg fuel op n0 s s1 hk

/-! ### C01_numeric_argument -/

/-- Spec: a typed argument of at most four digits has its decimal value. -/
theorem C01_arg_value_four_digits (a b c d : Nat) (ha : a < 10) (hb : b < 10) (hc : c < 10) (hd : d < 10) :
    argValue [a, b, c, d] = 1000 * a + 100 * b + 10 * c + d := by
  have h0 : a < 1000 := by omega
  have h1 : 10 * a + b < 1000 := by omega
  have h2 : 10 * (10 * a + b) + c < 1000 := by omega
  simp [argValue, h0, h1, h2]
  omega

/-- Spec: digits after the fourth significant one are ignored. -/
theorem C01_arg_value_saturates (ds : List Nat) (v : Nat) (hv : 1000 ≤ v) :
    ds.foldl (fun v d => if v < 1000 then 10 * v + d else v) v = v := by
  induction ds with
  | nil => rfl
  | cons d ds ih => simp only [List.foldl_cons]; rw [if_neg (by omega)]; exact ih

/-- Model: typing `M-[-]d₁…d_k` and then a command gives the command the signed decimal value
    (first four significant digits) as count and direction — the count `emacsNumArgs` hands to the
    keymap equals the documented `emacsArg`.  `negative` = the argument was started with `M--`;
    the loop of `emacs_digit_argument` keeps `num_args = argOf negative (fold of digitAccum)`. -/
theorem C01_numeric_argument (negative : Bool) (ds : List Nat) (s : Ed) (n : Nat) (p : Bool)
    (hdoc : emacsArg negative ds = some (n, p))
    (hs : s.inp.numArgs = argOf negative (ds.foldl digitAccum none)) :
    emacsNumArgs s = .ok ((n, p), { s with inp := { s.inp with numArgs := 0 } }) := by
  rw [emacsNumArgs_eq]
  congr 2
  rw [hs]
  cases ds with
  | nil =>
    cases negative <;> simp [emacsArg] at hdoc
    obtain ⟨rfl, rfl⟩ := hdoc
    simp [argOf, countOf]
  | cons d ds =>
    rw [foldl_digitAccum_none]
    simp only [emacsArg, List.isEmpty_cons, Bool.false_eq_true, if_false] at hdoc
    by_cases hv : argValue (d :: ds) = 0
    · simp [hv] at hdoc
    · cases negative
      · simp [hv] at hdoc
        obtain ⟨rfl, rfl⟩ := hdoc
        simp only [argOf, countOf]
        have h1 : ((argValue (d :: ds) : Nat) : Int) ≠ 0 := by omega
        have h2 : ¬ ((argValue (d :: ds) : Nat) : Int) < 0 := by omega
        simp [h1, h2, hv]
      · simp [hv] at hdoc
        obtain ⟨rfl, rfl⟩ := hdoc
        simp only [argOf, countOf]
        have h1 : (-((argValue (d :: ds) : Nat) : Int)) ≠ 0 := by omega
        have h2 : (-((argValue (d :: ds) : Nat) : Int)) < 0 := by omega
        simp [h1, h2, hv]

/-- The repaired D4 on concrete arguments: `M-- 1 2` is −12, `M-- 2 1` is −21, `M--` alone is −1,
    a fifth digit is ignored. -/
theorem C01_numeric_argument_minus_12 :
    argOf true ([1, 2].foldl digitAccum none) = -12 ∧ argOf true ([2, 1].foldl digitAccum none) = -21
      ∧ argOf true ([].foldl digitAccum none) = -1 ∧ argOf false ([1, 2, 3, 4, 5].foldl digitAccum none) = 1234 := by
  decide

/-! ### C01_self_insert_once — a printable character is inserted exactly once at the cursor -/

/-- Statement as first written: `execute (SelfInsert 1 c)` on a growable buffer with the cursor on a
    boundary inserts `c` exactly once at the cursor, puts the cursor just after it, and proceeds.
    It quantifies over every helper, including a hinter that panics when it is asked for the hint of
    the new text (`cfg.hinterPanicAt`, the scripted panic of property C17): for that helper the read
    ends with the panic outcome, so the statement in this form is FALSE (counter-example below); the
    theorem is `C01_self_insert_once` with the hinter's panic excluded. -/
def C01_self_insert_once_statement : Prop :=
  ∀ (S : Segmenter) (U : UData) (cfg : EdCfg) (c : Char) (s : Ed) (x z : Text),
    s.line.buf = x ++ z → s.line.pos = blen x → s.line.canGrow = true →
    ∃ s', execute S U cfg (.selfInsert 1 c) s = .ok (.proceed, s') ∧
      s'.line.buf = x ++ [c] ++ z ∧ s'.line.pos = blen x + c.utf8Size

/-- **A printable character is inserted exactly once at the cursor**, with or without a helper
    (hinter, highlighter, fast path or full refresh): the only excluded case is a hinter scripted to
    panic.  The new text is the old one with `c` at the cursor, the cursor is just after it, and the
    command proceeds (no submit, no exit). -/
theorem C01_self_insert_once (S : Segmenter) (U : UData) (cfg : EdCfg)
    (hh : cfg.hasHelper = false ∨ cfg.hinterPanicAt = none)
    (c : Char) (s : Ed) (x z : Text)
    (hb : s.line.buf = x ++ z) (hp : s.line.pos = blen x) (hg : s.line.canGrow = true) :
    ∃ s', execute S U cfg (.selfInsert 1 c) s = .ok (.proceed, s') ∧
      s'.line.buf = x ++ [c] ++ z ∧ s'.line.pos = blen x + c.utf8Size := by
  have hx : execute S U cfg (.selfInsert 1 c) = (do pure (); editInsert S U cfg c 1; pure .proceed) := rfl
  have hins := insert_eval S U c 1 s.line
  have hmt : s.line.mustTruncate (s.line.len + c.utf8Size * 1) = false := by simp [LB.mustTruncate, hg]
  rw [hmt, hb, hp, splitAtByte_append] at hins
  simp only [Bool.false_eq_true, if_false] at hins
  rw [hx]
  have hw : wp (do pure (); editInsert S U cfg c 1; pure Status.proceed : EM Status)
      (fun st s' => st = .proceed ∧ s'.line.buf = x ++ [c] ++ z ∧ s'.line.pos = blen x + c.utf8Size)
      (fun _ _ => False) s := by
    simp only [wp_bind, wp_pure]
    refine wp_mono (editInsert_spec S U cfg c 1 s) ?_ ?_
    · intro _ s' ⟨r, l, ns, hi, hc⟩
      rw [hins] at hi
      cases hi
      obtain ⟨hl, _⟩ := Ed.core_eq hc
      rw [hl]
      simp
    · intro o s' ⟨_, hd⟩
      rcases hd with ⟨_, e, he⟩ | ⟨h1, h2⟩
      · rw [hins] at he; cases he
      · rcases hh with hh | hh
        · rw [hh] at h1; cases h1
        · exact h2 hh
  obtain ⟨st, s', h1, h2, h3⟩ := returns_iff_wp.mpr hw
  subst h2
  exact ⟨s', h1, h3⟩

/-- the special case without a helper -/
theorem C01_self_insert_once_partial (S : Segmenter) (U : UData) (cfg : EdCfg) (hh : cfg.hasHelper = false)
    (c : Char) (s : Ed) (x z : Text)
    (hb : s.line.buf = x ++ z) (hp : s.line.pos = blen x) (hg : s.line.canGrow = true) :
    ∃ s', execute S U cfg (.selfInsert 1 c) s = .ok (.proceed, s') ∧
      s'.line.buf = x ++ [c] ++ z ∧ s'.line.pos = blen x + c.utf8Size :=
  C01_self_insert_once S U cfg (.inl hh) c s x z hb hp hg

/-- the helper of the counter-example: installed, its hinter panics at the first call -/
def C01_cexU : UData :=
  { alnum := fun _ => true, ws := fun _ => false, upper := fun c => [c], lower := fun c => [c],
    width := fun t => t.length, cwidth := fun _ => 1 }
def C01_cexCfg : EdCfg := { vi := false, hasHelper := true, hinterPanicAt := some 1 }
def C01_cexEd : Ed := initEd C01_cexCfg (KillRing.new 60) { buf := [], avail := [], future := [] }

/-- The unrestricted statement is false: with a hinter that panics, typing `a` on the empty line
    does not return (the model exits with the panic outcome — what `catch_unwind` shows in the
    harness for `ed17` requests with a panicking helper). -/
theorem C01_self_insert_once_counterexample : ¬ C01_self_insert_once_statement := by
  intro h
  obtain ⟨s', hs, _⟩ := h charSeg C01_cexU C01_cexCfg 'a' C01_cexEd [] [] rfl rfl rfl
  have hk : (execute charSeg C01_cexU C01_cexCfg (.selfInsert 1 'a') C01_cexEd).isOk = false := by rfl
  rw [hs] at hk
  cases hk

/-! ### C01_motion_pure — no command documented as a motion changes the text -/

/-- Statement: no `Move` command changes the text, for every movement, every state, whether the
    command returns or exits. -/
def C01_motion_pure_statement : Prop :=
  ∀ (S : Segmenter) (U : UData) (cfg : EdCfg) (m : Movement), TextPure (execute S U cfg (.move m))

/-- `execute (Move m)` never changes the text (lifted from the `PosOnly` lemmas behind
    `C03_motion_copy_pure`; `^` is two chained motions with a branch on the first character). -/
theorem C01_motion_pure : C01_motion_pure_statement := by
  intro S U cfg m
  have em {op : LM Bool} (h : PosOnly op) : TextPure (do editMove S U cfg op; pure Status.proceed : EM Status) :=
    TextPure.bind (TextPure.editMove S U cfg h) (fun _ => TextPure.pure _)
  cases m
  case wholeLine => exact TextPure.pure _
  case wholeBuffer => exact TextPure.pure _
  case beginningOfLine => exact em (PosOnly.moveHome S U)
  case endOfLine => exact em (PosOnly.moveEnd S U)
  case backwardWord n w => exact em (PosOnly.moveToPrevWord S U w n)
  case forwardWord n a w => exact em (PosOnly.moveToNextWord S U a w n)
  case viCharSearch n cs => exact em (PosOnly.moveTo S U cs n)
  case backwardChar n => exact em (PosOnly.moveBackward S U n)
  case forwardChar n => exact em (PosOnly.moveForward S U n)
  case beginningOfBuffer => exact em (PosOnly.moveBufferStart S U)
  case endOfBuffer => exact em (PosOnly.moveBufferEnd S U)
  case lineUp n =>
    exact TextPure.bind TextPure.getPromptCol (fun pc => em (PosOnly.moveToLineUp S U n pc))
  case lineDown n =>
    exact TextPure.bind TextPure.getPromptCol (fun pc => em (PosOnly.moveToLineDown S U n pc))
  case viFirstPrint => exact em (PosOnly.moveToFirstPrint S U)

/-- in particular: a step that returns keeps the text -/
theorem C01_motion_pure_ok (S : Segmenter) (U : UData) (cfg : EdCfg) (m : Movement)
    (s s' : Ed) (st : Status)
    (h : execute S U cfg (.move m) s = .ok (st, s')) : s'.line.buf = s.line.buf := by
  have := C01_motion_pure S U cfg m s
  rw [h] at this
  exact this

/-! ### C01_outcome — C-c, C-d on an empty line, Enter -/

/-- `Interrupt` ends the read with the interrupted outcome, whatever the state. -/
theorem C01_outcome_interrupt (S : Segmenter) (U : UData) (cfg : EdCfg) (s : Ed) :
    ∃ s', execute S U cfg .interrupt s = .error (.interrupted, s') ∧ s'.line = s.line := by
  have hx : execute S U cfg .interrupt = (do pure (); logRender (fun _ => .moveToEnd); EM.exit .interrupted) := rfl
  rw [hx]
  simp [EM.bind_apply, logRender, EM.modify, EM.exit]

/-- **Step level** (one command, any state): `Interrupt` exits with the interrupted outcome;
    `EndOfFile` on the empty line exits with end-of-file; Enter (`AcceptOrInsertLine`) on a text the
    validator accepts — or with no helper installed (`verdictOf`) — submits; in all three the line is
    the one the command found. -/
theorem C01_outcome_step (S : Segmenter) (U : UData) (cfg : EdCfg) (s : Ed) :
    wp (execute S U cfg .interrupt) (fun _ _ => False) (fun o s' => o = .interrupted ∧ s'.line = s.line) s ∧
    (s.line.buf = [] →
      wp (execute S U cfg .endOfFile) (fun _ _ => False) (fun o s' => o = .eof ∧ s'.line = s.line) s) ∧
    (∀ m, verdictOf cfg s.line.buf = .valid m →
      wp (execute S U cfg (.acceptOrInsertLine true)) (fun st s' => st = .submit ∧ s'.line = s.line) (fun _ _ => False) s) := by
  refine ⟨?_, ?_, ?_⟩
  · have hx : execute S U cfg .interrupt = (do logRender (fun _ => .moveToEnd); EM.exit .interrupted) := rfl
    rw [hx]
    simp only [wp_bind, wp_logRender, wp_exit]
    constructor <;> first | rfl | trivial
  · intro he
    rw [execute_endOfFile]
    refine wp_withPreAccept S U cfg fun s1 hc => ?_
    obtain ⟨hl, _⟩ := Ed.core_eq hc
    simp only [wp_bind, wp_lineEmpty, hl, he, List.isEmpty_nil, if_true, wp_exit]
    constructor <;> first | exact hl | rfl | trivial
  · intro m hv
    rw [execute_acceptOrInsertLine]
    refine wp_withPreAccept S U cfg fun s1 hc => ?_
    obtain ⟨hl, _⟩ := Ed.core_eq hc
    have hv1 : verdictOf cfg s1.line.buf = .valid m := by rw [hl]; exact hv
    have hact : acceptActOf U cfg true s1 = .submit := by
      simp [acceptActOf, hv1, Verdict.isValid, acceptDecision]
    refine wp_mono (execAccept_spec S U cfg true s1) ?_ ?_
    · intro st s2 ⟨_, _, _, _, _, h⟩
      rw [hact] at h
      exact ⟨h.1, h.2.trans hl⟩
    · intro o s2 h
      rcases h with ⟨_, h | h | h⟩ | h
      · have := h.2.2; simp [verdictOf, h.2.1] at hv1; rw [this] at hv1; cases hv1
      · have := h.2.2; simp [verdictOf, h.2.1] at hv1; rw [this] at hv1; cases hv1
      · rw [hact] at h; exact absurd h.2.2.1 (by simp)
      · rw [hact] at h; exact absurd h.2.2.2 (by simp)


/-- **Loop level**: whatever key sequence made the keymap hand the main loop `Interrupt`,
    `EndOfFile` (empty line) or Enter's `AcceptOrInsertLine` (text accepted by the validator, or no
    helper), that iteration ends the read with the interrupted / end-of-file outcome, resp. returns
    from the loop, and the line is exactly the one the `Event::Any` handler was shown for that key
    (`s1`, the state after the keymap).  `C01_outcome_readline` then gives the value of the read. -/
def C01_outcome_statement : Prop :=
  ∀ (S : Segmenter) (U : UData) (cfg : EdCfg) (fuel : Nat) (s s1 : Ed) (cmd : Cmd),
    nextCmd S U cfg (fuel + 1) false false s = .ok (cmd, s1) →
    (cmd = .interrupt → ∃ s', mainLoop S U cfg (fuel + 2) s = .error (.interrupted, s') ∧ s'.line = s1.line) ∧
    (cmd = .endOfFile → s1.line.buf = [] →
      ∃ s', mainLoop S U cfg (fuel + 2) s = .error (.eof, s') ∧ s'.line = s1.line) ∧
    (cmd = .acceptOrInsertLine true → (∃ m, verdictOf cfg s1.line.buf = .valid m) →
      ∃ s', mainLoop S U cfg (fuel + 2) s = .ok ((), s') ∧ s'.line = s1.line)

theorem C01_outcome : C01_outcome_statement := by
  intro S U cfg fuel s s1 cmd hnext
  refine ⟨?_, ?_, ?_⟩
  · rintro rfl
    rw [mainLoop_step S U cfg fuel s s1 _ hnext (by simp) (by simp) (by simp) (by simp)]
    have h := (C01_outcome_step S U cfg { s1 with ring := s1.ring.reset }).1
    simp only [Cmd.shouldResetKillRing, if_true, EM.bind_apply]
    unfold wp at h
    split at h
    · exact h.elim
    · rename_i o s' heq
      rw [heq]; obtain ⟨rfl, h2⟩ := h; exact ⟨s', rfl, h2⟩
  · rintro rfl he
    rw [mainLoop_step S U cfg fuel s s1 _ hnext (by simp) (by simp) (by simp) (by simp)]
    have h := (C01_outcome_step S U cfg { s1 with ring := s1.ring.reset }).2.1 he
    simp only [Cmd.shouldResetKillRing, if_true, EM.bind_apply]
    unfold wp at h
    split at h
    · exact h.elim
    · rename_i o s' heq
      rw [heq]; obtain ⟨rfl, h2⟩ := h; exact ⟨s', rfl, h2⟩
  · rintro rfl ⟨m, hv⟩
    rw [mainLoop_step S U cfg fuel s s1 _ hnext (by simp) (by simp) (by simp) (by simp)]
    have h := (C01_outcome_step S U cfg { s1 with ring := s1.ring.reset }).2.2 m hv
    simp only [Cmd.shouldResetKillRing, if_true, EM.bind_apply]
    unfold wp at h
    split at h
    · rename_i st s' heq
      rw [heq]; obtain ⟨rfl, h2⟩ := h; exact ⟨s', rfl, h2⟩
    · exact h.elim

/-- **Key level, emacs mode**: a key press that decodes to an entry of the "For all modes" table
    documented as C-c / C-d / Enter (C-j, C-m) ends the read as documented — interrupted; end of file
    when the line is empty; returned from the loop when the validator accepts the text (or no helper
    is installed) — and the line is the one in place when the key was read.  (Table theorem +
    `C01_outcome`.) -/
theorem C01_outcome_emacs_keys (S : Segmenter) (U : UData) (cfg : EdCfg) (hvi : cfg.vi = false) (hb : cfg.binds = [])
    (fuel : Nat) (s s0 : Ed) (e : KeyEvent × DocAction) (he : e ∈ commonTable)
    (hk : nextKey false s = .ok (e.1, s0)) :
    (e.2 = .interrupt → ∃ s', mainLoop S U cfg (fuel + 2) s = .error (.interrupted, s') ∧ s'.line = s0.line) ∧
    (e.2 = .deleteOrEof → s0.line.buf = [] →
      ∃ s', mainLoop S U cfg (fuel + 2) s = .error (.eof, s') ∧ s'.line = s0.line) ∧
    (e.2 = .accept → (∃ m, verdictOf cfg s0.line.buf = .valid m) →
      ∃ s', mainLoop S U cfg (fuel + 2) s = .ok ((), s') ∧ s'.line = s0.line) := by
  have hnr : ∀ a, e.2 = a → a ≠ .move .charRight → ¬ (e.1 = key .right ∧ s0.hint.isSome = true ∧ s0.line.pos = blen s0.line.buf) :=
    fun a ha hne h => hne (ha ▸ commonTable_right e he h.1)
  have tbl := fun cmd hc hr => C01_binding_table_emacs_common S U cfg hvi hb (fuel + 1) s0 e he cmd hc hr
  refine ⟨?_, ?_, ?_⟩
  · intro ha
    obtain ⟨s1, h1, h2⟩ := tbl .interrupt (by rw [ha]; rfl) (hnr _ ha (by simp))
    have hn := nextCmd_emacs S U cfg hvi (fuel + 1) s s0 s1 _ _ hk h1 (by simp)
    obtain ⟨s', h3, h4⟩ := (C01_outcome S U cfg fuel s s1 _ hn).1 rfl
    exact ⟨s', h3, h4.trans h2⟩
  · intro ha hem
    obtain ⟨s1, h1, h2⟩ := tbl .endOfFile (by rw [ha]; simp [DocAction.resolve, hem, Doc.Act.toCmd]) (hnr _ ha (by simp))
    have hn := nextCmd_emacs S U cfg hvi (fuel + 1) s s0 s1 _ _ hk h1 (by simp)
    obtain ⟨s', h3, h4⟩ := (C01_outcome S U cfg fuel s s1 _ hn).2.1 rfl (by rw [h2]; exact hem)
    exact ⟨s', h3, h4.trans h2⟩
  · intro ha hv
    obtain ⟨s1, h1, h2⟩ := tbl (.acceptOrInsertLine true) (by rw [ha]; rfl) (hnr _ ha (by simp))
    have hn := nextCmd_emacs S U cfg hvi (fuel + 1) s s0 s1 _ _ hk h1 (by simp)
    obtain ⟨s', h3, h4⟩ := (C01_outcome S U cfg fuel s s1 _ hn).2.2 rfl (by rw [h2]; exact hv)
    exact ⟨s', h3, h4.trans h2⟩

/-- **Key level, vi modes**: the same from vi insert / replace mode and from vi command mode (the
    mode is the one in force when the key has been read). -/
theorem C01_outcome_vi_keys (S : Segmenter) (U : UData) (cfg : EdCfg) (hvi : cfg.vi = true) (hb : cfg.binds = [])
    (fuel : Nat) (s s0 : Ed) (e : KeyEvent × DocAction)
    (hk : nextKey false s = .ok (e.1, s0))
    (hmode : (s0.inp.inputMode ≠ .command ∧ e ∈ table .viInsert) ∨
             (s0.inp.inputMode = .command ∧ e ∈ table .viCommand ∧ 0 ≤ s0.inp.numArgs)) :
    (e.2 = .interrupt → ∃ s', mainLoop S U cfg (fuel + 2) s = .error (.interrupted, s') ∧ s'.line = s0.line) ∧
    (e.2 = .deleteOrEof → s0.line.buf = [] →
      ∃ s', mainLoop S U cfg (fuel + 2) s = .error (.eof, s') ∧ s'.line = s0.line) ∧
    (e.2 = .accept → (∃ m, verdictOf cfg s0.line.buf = .valid m) →
      ∃ s', mainLoop S U cfg (fuel + 2) s = .ok ((), s') ∧ s'.line = s0.line) := by
  -- the keymap step, for either mode
  have step : ∀ cmd, (∀ n, (e.2.resolve n true s0.line.buf.isEmpty true).toCmd = some cmd) → (∀ m t, cmd ≠ .replace m t) →
      e.2 ≠ .move .charRight →
      ∃ s1, nextCmd S U cfg (fuel + 1) false false s = .ok (cmd, s1) ∧ s1.line = s0.line := by
    intro cmd hc hnr hne
    rcases hmode with ⟨hm, he⟩ | ⟨hm, he, h0⟩
    · obtain ⟨s1, h1, h2⟩ := C01_binding_table_vi_insert S U cfg hb (fuel + 1) s0 e he cmd (hc 1)
        (fun h => hne (viInsertTable_right e he h.1))
      exact ⟨s1, nextCmd_vi_insert S U cfg hvi (fuel + 1) s s0 s1 _ _ hk hm h1 hnr, h2⟩
    · obtain ⟨s1, h1, h2⟩ := C01_binding_table_vi_command S U cfg hb (fuel + 1) s0 h0 e he cmd (hc _)
      exact ⟨s1, nextCmd_vi_command S U cfg hvi (fuel + 1) s s0 s1 _ _ hk hm h1 hnr, h2⟩
  refine ⟨?_, ?_, ?_⟩
  · intro ha
    obtain ⟨s1, hn, h2⟩ := step .interrupt (fun n => by rw [ha]; rfl) (by simp) (by rw [ha]; simp)
    obtain ⟨s', h3, h4⟩ := (C01_outcome S U cfg fuel s s1 _ hn).1 rfl
    exact ⟨s', h3, h4.trans h2⟩
  · intro ha hem
    obtain ⟨s1, hn, h2⟩ := step .endOfFile (fun n => by rw [ha]; simp [DocAction.resolve, hem, Doc.Act.toCmd]) (by simp)
      (by rw [ha]; simp)
    obtain ⟨s', h3, h4⟩ := (C01_outcome S U cfg fuel s s1 _ hn).2.1 rfl (by rw [h2]; exact hem)
    exact ⟨s', h3, h4.trans h2⟩
  · intro ha hv
    obtain ⟨s1, hn, h2⟩ := step (.acceptOrInsertLine true) (fun n => by rw [ha]; rfl) (by simp) (by rw [ha]; simp)
    obtain ⟨s', h3, h4⟩ := (C01_outcome S U cfg fuel s s1 _ hn).2.2 rfl (by rw [h2]; exact hv)
    exact ⟨s', h3, h4.trans h2⟩

/-- the final `edit_move_buffer_end` returns and keeps the text -/
theorem C01_editMove_bufferEnd (S : Segmenter) (U : UData) (cfg : EdCfg) (s : Ed) (h : WF s.line) :
    ∃ s', editMove S U cfg (LB.moveBufferEnd S U) s = .ok ((), s') ∧ s'.line.buf = s.line.buf := by
  obtain ⟨r, lb', h1, _, h3⟩ := C03_moveBufferEnd_total_wf S U s.line h
  unfold editMove
  rw [EM.bind_apply, lbQuiet_ok h1]
  cases r with
  | false => exact ⟨_, rfl, h3⟩
  | true =>
    obtain ⟨s', h4, h5⟩ := moveCursor_returns S U cfg { s with line := lb' }
    refine ⟨s', by simpa using h4, ?_⟩
    have := (Ed.core_eq h5).1
    rw [this]; exact h3


/-- **The value of the read**: when the main loop returns (a submit) in state `s'`, `readline`
    returns exactly the text of `s'` (the final move to the buffer end does not change it). -/
theorem C01_outcome_readline (S : Segmenter) (U : UData) (cfg : EdCfg) (ring : KillRing) (left right : Text) (inp : Input) (s' : Ed)
    (h : (do if !(left.isEmpty && right.isEmpty) then lb S U (LB.update S U (left ++ right) (blen left))
             refreshLine S U cfg
             mainLoop S U cfg (inp.size + 2) : EM Unit) (initEd cfg ring inp) = .ok ((), s'))
    (hwf : WF s'.line) : (readline S U cfg ring left right inp).1 = .line s'.line.buf := by
  obtain ⟨s'', h1, h2⟩ := C01_editMove_bufferEnd S U cfg s' hwf
  unfold readline
  by_cases hc : (!(left.isEmpty && right.isEmpty)) = true
  · simp only [hc, if_true] at h ⊢
    have hp : (do lb S U (LB.update S U (left ++ right) (blen left)); refreshLine S U cfg
                  mainLoop S U cfg (inp.size + 2); editMove S U cfg (LB.moveBufferEnd S U) : EM Unit) =
        ((do lb S U (LB.update S U (left ++ right) (blen left)); refreshLine S U cfg
             mainLoop S U cfg (inp.size + 2) : EM Unit) >>= fun _ => editMove S U cfg (LB.moveBufferEnd S U)) := by
      simp only [EM.bind_assoc']
    rw [hp, EM.bind_apply, h]
    simp only [h1, h2]
  · simp only [hc, Bool.false_eq_true, if_false] at h ⊢
    have hp : (do refreshLine S U cfg
                  mainLoop S U cfg (inp.size + 2); editMove S U cfg (LB.moveBufferEnd S U) : EM Unit) =
        ((do refreshLine S U cfg
             mainLoop S U cfg (inp.size + 2) : EM Unit) >>= fun _ => editMove S U cfg (LB.moveBufferEnd S U)) := by
      simp only [EM.bind_assoc']
    rw [hp, EM.bind_apply, h]
    simp only [h1, h2]

/-! ### C01_custom_binding — a custom-bound key runs the bound command, not the documented one -/

/-- emacs mode: a key with a `Simple` binding (and not the start of a numeric argument) yields
    exactly the bound command — a repeatable one with the pending count in place of its own
    (`Cmd::redo`) — whatever the tables say about the key; the `Event::Any` handler is not called
    and only the pending argument is consumed. -/
theorem C01_custom_binding_emacs (S : Segmenter) (U : UData) (cfg : EdCfg) (fuel : Nat) (k : KeyEvent) (ks : List KeyEvent) (c : Cmd)
    (hfind : cfg.binds.find? (fun b => b.1 == [k]) = some (ks, c))
    (hk : ∀ d, k = ⟨.char d, 4⟩ → ¬ (d = '-' ∨ isDigit d = true)) (s : Ed) :
    emacs S U cfg fuel k s =
      (if c.isRepeatable then redoCmd c (some (countOf s.inp.numArgs).1) else pure c)
        { s with inp := { s.inp with numArgs := 0 } } := by
  obtain ⟨code, mods⟩ := k
  have hna := emacsNumArgs_eq s
  cases code <;> try (simp [emacs, EM.bind_apply, hna, customBinding, hfind]; done)
  case char d =>
    by_cases hm : mods = 4
    · subst hm
      have := hk d rfl
      simp only [not_or] at this
      simp [emacs, EM.bind_apply, hna, customBinding, hfind, this.1, this.2, Mods.alt]
    · simp [emacs, EM.bind_apply, hna, customBinding, hfind, hm, Mods.alt]

/-- vi command mode: the same; the bound command keeps its own count when no count was typed -/
theorem C01_custom_binding_vi_command (S : Segmenter) (U : UData) (cfg : EdCfg) (fuel : Nat) (k : KeyEvent) (ks : List KeyEvent) (c : Cmd)
    (hfind : cfg.binds.find? (fun b => b.1 == [k]) = some (ks, c))
    (hk : ∀ d, k = ⟨.char d, 0⟩ → ¬ ('1' ≤ d ∧ d ≤ '9')) (s : Ed) (h0 : 0 ≤ s.inp.numArgs) :
    viCommand S U cfg fuel k s =
      (if c.isRepeatable then redoCmd c (if s.inp.numArgs = 0 then none else some (countOf s.inp.numArgs).1) else pure c)
        { s with inp := { s.inp with numArgs := 0 } } := by
  obtain ⟨code, mods⟩ := k
  have hna := viNumArgs_eq s h0
  cases code <;> try (simp [viCommand, EM.bind_apply, EM.bind_read, hna, customBinding, hfind]; done)
  case char d =>
    by_cases hm : mods = 0
    · subst hm
      have := hk d rfl
      simp [viCommand, EM.bind_apply, EM.bind_read, hna, customBinding, hfind, this]
    · simp [viCommand, EM.bind_apply, EM.bind_read, hna, customBinding, hfind, hm]

/-- vi insert / replace mode: the bound command as it is -/
theorem C01_custom_binding_vi_insert (S : Segmenter) (U : UData) (cfg : EdCfg) (fuel : Nat) (k : KeyEvent) (ks : List KeyEvent) (c : Cmd)
    (hfind : cfg.binds.find? (fun b => b.1 == [k]) = some (ks, c)) (s : Ed) :
    viInsert S U cfg fuel k s = (if c.isRepeatable then redoCmd c none else pure c) s := by
  simp [viInsert, EM.bind_apply, customBinding, hfind]

/-- what "runs the bound command" evaluates to: a non-repeatable command is returned as it is; a
    `Move` / `Kill` gets the typed count (`Movement::redo`) -/
theorem C01_custom_binding_runs (c : Cmd) (new : Option Nat) (s : Ed) :
    (c.isRepeatable = false → (if c.isRepeatable then redoCmd c new else pure c) s = .ok (c, s)) ∧
    (∀ m, c = .move m → (if c.isRepeatable then redoCmd c new else pure c) s = .ok (.move (m.redo new), s)) ∧
    (∀ m, c = .kill m → (if c.isRepeatable then redoCmd c new else pure c) s = .ok (.kill (m.redo new), s)) := by
  refine ⟨fun h => by simp [h], ?_, ?_⟩
  · rintro m rfl
    simp [Cmd.isRepeatable, redoCmd, lastInsert, EM.bind_apply, EM.liftP, Cmd.redo]
  · rintro m rfl
    simp [Cmd.isRepeatable, Cmd.isRepeatableChange, redoCmd, lastInsert, EM.bind_apply, EM.liftP, Cmd.redo]


/-- two-key sequences (`custom_seq_binding`): after a key that starts a bound sequence the second key
    is read; a bound pair yields its command, a key that completes nothing yields no command (after
    the repair of D35: no panic) and both keys are consumed -/
theorem C01_custom_seq_binding (cfg : EdCfg) (fuel : Nat) (k1 k2 : KeyEvent) (n : Nat) (p : Bool) (s s1 : Ed)
    (hd : hasDescendant cfg [k1] = true) (hk : nextKey true s = .ok (k2, s1)) :
    (∀ ks c, cfg.binds.find? (fun b => b.1 == [k1, k2]) = some (ks, c) →
      customSeqBinding cfg (fuel + 1) [k1] n p s = .ok ((some c, [k1, k2]), s1)) ∧
    (cfg.binds.find? (fun b => b.1 == [k1, k2]) = none → hasDescendant cfg [k1, k2] = false →
      customSeqBinding cfg (fuel + 2) [k1] n p s = .ok ((none, [k1, k2]), s1)) := by
  constructor
  · intro ks c hf
    simp [customSeqBinding, hd, EM.bind_apply, hk, hf]
  · intro hf hnd
    simp [customSeqBinding, hd, EM.bind_apply, hk, hf, hnd]

/-- … and for an otherwise unbound first key (the `common` fall-back) the bound command is what the
    keymap returns; a pair that completes nothing is `Unknown` -/
theorem C01_custom_seq_binding_fallback (cfg : EdCfg) (fuel : Nat) (k1 k2 : KeyEvent) (n : Nat) (p : Bool) (s s1 : Ed)
    (hd : hasDescendant cfg [k1] = true) (hk : nextKey true s = .ok (k2, s1)) :
    (∀ ks c, cfg.binds.find? (fun b => b.1 == [k1, k2]) = some (ks, c) →
      common.fallback cfg (fuel + 1) [k1] n p s = .ok (c, s1)) ∧
    (cfg.binds.find? (fun b => b.1 == [k1, k2]) = none → hasDescendant cfg [k1, k2] = false →
      common.fallback cfg (fuel + 2) [k1] n p s = .ok (.unknown, s1)) := by
  obtain ⟨h1, h2⟩ := C01_custom_seq_binding cfg fuel k1 k2 n p s s1 hd hk
  constructor
  · intro ks c hf
    simp [common.fallback, EM.bind_apply, h1 ks c hf]
  · intro hf hnd
    simp [common.fallback, EM.bind_apply, h2 hf hnd]

/-! ### C01_execute_refines — executing the denoted command has the documented effect

  `Want.holds w l`: the text and cursor components `Act.apply` judges are those of the line `l`
  (`holdsText`: the text component).  All theorems are `wp` statements with the exit condition
  `False`: from the stated hypotheses the command returns.  Lemmas: Rl/Lemmas/ExecRefines.lean
  (on top of C03's totality and C04's target / span theorems). -/

/-- **Motions**: every movement (`^` included since the repair of D46) except the `BeforeEnd` word targets (known
    finding F-C04-vi-e-count): the text is untouched and the cursor is on the
    documented target, or stays where the documentation has no target. -/
theorem C01_execute_refines_move (S : Segmenter) (U : UData) (cfg : EdCfg) (hS : S.Stable) (mode : Mode)
    (m : Movement) (s : Ed) (hwf : WF s.line) (hbe : ∀ n w, m ≠ .forwardWord n .beforeEnd w) :
    wp (execute S U cfg (.move m)) (Refined S U (.move m) mode s) (fun _ _ => False) s :=
  execute_move_refines S U cfg hS mode m s hwf hbe

/-- **Kills** (incl. the character deletes C-d, C-h, `x`, `X`), every movement: exactly the
    documented span is removed and the cursor is at its start; with nothing to kill, text and cursor
    are unchanged (`kill_nothing_keeps_cursor`: for every movement a kill that leaves the text alone
    leaves the cursor alone — the former `KillCaveat` is gone). -/
theorem C01_execute_refines_kill (S : Segmenter) (U : UData) (cfg : EdCfg) (hS : S.Stable) (hnl : S.NlAlone)
    (hnp : cfg.hinterPanicAt = none) (mode : Mode) (m : Movement) (s : Ed) (hwf : WF s.line) (hr : RingOK s.ring) :
    wp (execute S U cfg (.kill m)) (Refined S U (.kill m) mode s) (fun _ _ => False) s :=
  execute_kill_refines S U cfg hS hnl hnp mode m s hwf hr

/-- **Change** (vi `c`+motion, `s`, `S`, `C`): the same removal. -/
theorem C01_execute_refines_change (S : Segmenter) (U : UData) (cfg : EdCfg) (hS : S.Stable) (hnl : S.NlAlone)
    (hnp : cfg.hinterPanicAt = none) (mode : Mode) (m : Movement) (s : Ed) (hwf : WF s.line) (hr : RingOK s.ring) :
    wp (execute S U cfg (.replace m none)) (Refined S U (.change m) mode s) (fun _ _ => False) s :=
  execute_change_refines S U cfg hS hnl hnp mode m s hwf hr

/-- **Yank over a movement** (vi `y`+motion): the line is not touched. -/
theorem C01_execute_refines_yank (S : Segmenter) (U : UData) (cfg : EdCfg) (mode : Mode) (m : Movement) (s : Ed)
    (hwf : WF s.line) (hr : RingOK s.ring) :
    wp (execute S U cfg (.viYankTo m))
      (fun st s' => st = .proceed ∧ s'.line = s.line ∧
        ((Act.yankOnly m).apply S U mode s.line.buf s.line.pos).holds s'.line) (fun _ _ => False) s :=
  execute_yank_refines S U cfg mode m s hwf hr

/-- **Self-insert with a count**: `n` copies at the cursor, the cursor after them. -/
theorem C01_execute_refines_insert (S : Segmenter) (U : UData) (cfg : EdCfg) (hnp : cfg.hinterPanicAt = none)
    (mode : Mode) (n : Nat) (c : Char) (s : Ed) (hwf : WF s.line) (hg : s.line.canGrow = true) :
    wp (execute S U cfg (.selfInsert n c)) (Refined S U (.insert n c) mode s) (fun _ _ => False) s :=
  execute_insert_refines S U cfg hnp mode n c s hwf hg

/-- **vi `r`** with a count: in the situations `Act.apply` judges (`JudgedReplace`: `n ≥ 1` clusters
    to replace, `n ≤ 65535`, and one cluster back from the end of the inserted copies is the start of
    the last copy) the `n` clusters are replaced by `n` copies and the cursor is on the last one. -/
theorem C01_execute_refines_replace_char (S : Segmenter) (U : UData) (cfg : EdCfg) (hS : S.Stable)
    (hnp : cfg.hinterPanicAt = none) (mode : Mode) (n : Nat) (c : Char) (s : Ed) (hwf : WF s.line)
    (hg : s.line.canGrow = true) (hj : JudgedReplace S s.line.buf s.line.pos n c) :
    wp (execute S U cfg (.replaceChar n c)) (Refined S U (.replaceChar n c) mode s) (fun _ _ => False) s :=
  execute_replaceChar_refines S U cfg hS hnp mode n c s hwf hg hj

/-- **M-u / M-l / M-c**: `edit_word` is `editWordWant` — the first alphanumeric run at or after the
    cursor is case-mapped (capitalize: first cluster upper, rest lower), the cursor ends after the
    replacement; without a word nothing changes.  Stable segmenter; no further side condition. -/
theorem C01_execute_refines_case (S : Segmenter) (U : UData) (cfg : EdCfg) (hS : S.Stable)
    (hnp : cfg.hinterPanicAt = none) (mode : Mode) (a : WordAction) (s : Ed) (hwf : WF s.line) :
    wp (execute S U cfg (wordCmd a)) (Refined S U (.editWord a) mode s) (fun _ _ => False) s :=
  execute_case_refines S U cfg hS hnp mode a s hwf

/-- **C-t** in the situations of `JudgedTranspose` (nothing to transpose; or the cursor strictly
    inside the text between clusters `g1 | g2`, and `g1` still a cluster when the text after `g2`
    follows it directly): the clusters are exchanged, the cursor ends after the pair. -/
theorem C01_execute_refines_transpose (S : Segmenter) (U : UData) (cfg : EdCfg)
    (hnp : cfg.hinterPanicAt = none) (mode : Mode) (s : Ed) (hwf : WF s.line) (hg : s.line.canGrow = true)
    (hj : JudgedTranspose S s.line.buf s.line.pos) :
    wp (execute S U cfg .transposeChars) (Refined S U .transposeChars mode s) (fun _ _ => False) s :=
  execute_transpose_refines S U cfg hnp mode s hwf hg hj

/-- **Summary over `Act`** (`CoveredFull`: insert, move, kill, change, yank, case changes, C-t and vi `r`
    where judged, the vi mode switches, no-op): executing `a.toCmd` returns with status `proceed` and the line (text and
    cursor, unconditionally) `Act.apply` documents. -/
theorem C01_execute_refines (S : Segmenter) (U : UData) (cfg : EdCfg) (hS : S.Stable) (hnl : S.NlAlone)
    (hnp : cfg.hinterPanicAt = none) (mode : Mode) (a : Act) (c : Cmd) (hc : a.toCmd = some c)
    (s : Ed) (hcov : CoveredFull S a s.line.buf s.line.pos) (hwf : WF s.line) (hg : s.line.canGrow = true)
    (hr : RingOK s.ring) :
    wp (execute S U cfg c) (RefinedAct S U a mode s) (fun _ _ => False) s :=
  execute_refines_full S U cfg hS hnl hnp mode a c hc s hcov hwf hg hr

/-! ### C01_key_to_effect — from the decoded key to the effect on (text, cursor) -/

/-- emacs mode: a key of the README tables, the pending count and direction: reading it through the
    keymap and executing the result has the effect `Act.apply` documents for the resolved action. -/
theorem C01_key_to_effect_emacs (S : Segmenter) (U : UData) (cfg : EdCfg) (hvi : cfg.vi = false)
    (hb : cfg.binds = []) (hS : S.Stable) (hnl : S.NlAlone) (hnp : cfg.hinterPanicAt = none)
    (fuel : Nat) (s : Ed) (hwf : WF s.line) (hg : s.line.canGrow = true) (hrg : RingOK s.ring)
    (e : KeyEvent × DocAction) (he : e ∈ table .emacs) (a : Act) (c : Cmd)
    (ha : a = e.2.resolve (countOf s.inp.numArgs).1 (countOf s.inp.numArgs).2 s.line.buf.isEmpty false)
    (hc : a.toCmd = some c) (hcov : CoveredFull S a s.line.buf s.line.pos)
    (hr : ¬ (e.1 = key .right ∧ s.hint.isSome = true ∧ s.line.pos = blen s.line.buf)) :
    wp (do let cmd ← emacs S U cfg fuel e.1; execute S U cfg cmd) (RefinedAct S U a .emacs s) (fun _ _ => False) s := by
  subst ha
  simp only [table, List.mem_append] at he
  obtain ⟨s1, h1, h2⟩ : ∃ s', emacs S U cfg fuel e.1 s = .ok (c, s') ∧ s'.line = s.line := by
    rcases he with he | he
    · exact C01_binding_table_emacs S U cfg hvi hb fuel s e he c hc hr
    · exact C01_binding_table_emacs_common S U cfg hvi hb fuel s e he c hc hr
  have hk := (Ed.core_eq ((keeps_emacs S U cfg fuel e.1).ok h1)).2.2.2.1
  exact key_to_effect_full S U cfg hS hnl hnp .emacs _ c hc s s1 hcov hwf hg hrg h1 h2 hk

/-- vi command mode -/
theorem C01_key_to_effect_vi_command (S : Segmenter) (U : UData) (cfg : EdCfg)
    (hb : cfg.binds = []) (hS : S.Stable) (hnl : S.NlAlone) (hnp : cfg.hinterPanicAt = none)
    (fuel : Nat) (s : Ed) (h0 : 0 ≤ s.inp.numArgs) (hwf : WF s.line) (hg : s.line.canGrow = true) (hrg : RingOK s.ring)
    (e : KeyEvent × DocAction) (he : e ∈ table .viCommand) (a : Act) (c : Cmd)
    (ha : a = e.2.resolve (countOf s.inp.numArgs).1 true s.line.buf.isEmpty true)
    (hc : a.toCmd = some c) (hcov : CoveredFull S a s.line.buf s.line.pos) :
    wp (do let cmd ← viCommand S U cfg fuel e.1; execute S U cfg cmd) (RefinedAct S U a .viCommand s) (fun _ _ => False) s := by
  subst ha
  obtain ⟨s1, h1, h2⟩ := C01_binding_table_vi_command S U cfg hb fuel s h0 e he c hc
  have hk := (Ed.coreNC_eq ((keeps_viCommand S U cfg fuel e.1).ok h1)).2.2.1
  exact key_to_effect_full S U cfg hS hnl hnp .viCommand _ c hc s s1 hcov hwf hg hrg h1 h2 hk

/-- vi insert mode -/
theorem C01_key_to_effect_vi_insert (S : Segmenter) (U : UData) (cfg : EdCfg)
    (hb : cfg.binds = []) (hS : S.Stable) (hnl : S.NlAlone) (hnp : cfg.hinterPanicAt = none)
    (fuel : Nat) (s : Ed) (hwf : WF s.line) (hg : s.line.canGrow = true) (hrg : RingOK s.ring)
    (e : KeyEvent × DocAction) (he : e ∈ table .viInsert) (a : Act) (c : Cmd)
    (ha : a = e.2.resolve 1 true s.line.buf.isEmpty true)
    (hc : a.toCmd = some c) (hcov : CoveredFull S a s.line.buf s.line.pos)
    (hr : ¬ (e.1 = key .right ∧ s.hint.isSome = true ∧ s.line.pos = blen s.line.buf)) :
    wp (do let cmd ← viInsert S U cfg fuel e.1; execute S U cfg cmd) (RefinedAct S U a .viInsert s) (fun _ _ => False) s := by
  subst ha
  obtain ⟨s1, h1, h2⟩ := C01_binding_table_vi_insert S U cfg hb fuel s e he c hc hr
  have hk := (Ed.coreNC_eq ((keeps_viInsert S U cfg fuel e.1).ok h1)).2.2.1
  exact key_to_effect_full S U cfg hS hnl hnp .viInsert _ c hc s s1 hcov hwf hg hrg h1 h2 hk

/-! ### C01_history_keys — the history keys denote the commands whose effect C07 proves -/

/-- the history keys of emacs mode and the commands they denote -/
def C01_histKeysEmacs : List (KeyEvent × Cmd) :=
  [(ctrl 'P', .previousHistory), (ctrl 'N', .nextHistory), (altk '<', .beginningOfHistory), (altk '>', .endOfHistory),
   (key .up, .lineUpOrPreviousHistory 1), (key .down, .lineDownOrNextHistory 1)]

set_option maxHeartbeats 800000 in
/-- emacs mode: the history keys denote the history commands (the README tables list them as
    judged by C07), the state untouched -/
theorem C01_history_keys_denote (S : Segmenter) (U : UData) (cfg : EdCfg) (hvi : cfg.vi = false) (hb : cfg.binds = [])
    (fuel : Nat) (s : Ed) (e : KeyEvent × Cmd) (he : e ∈ C01_histKeysEmacs) :
    ∃ s', emacs S U cfg fuel e.1 s = .ok (e.2, s') ∧ s'.core = s.core := by
  have hna := emacsNumArgs_eq s
  generalize countOf s.inp.numArgs = np at hna
  obtain ⟨n, p⟩ := np
  have hk := fun k => keeps_emacs S U cfg fuel k
  obtain ⟨k, c⟩ := e
  simp [C01_histKeysEmacs] at he
  have key : ∃ s', emacs S U cfg fuel k s = .ok (c, s') := by
    rcases he with he | he | he | he | he | he
    all_goals (
      obtain ⟨rfl, rfl⟩ := he
      cases p <;>
      simp [emacs, common, EM.bind_apply, EM.pure_apply, hna, customBinding, hb, termBinding, ctrl, altk, key,
        Mods.alt, isDigit, hvi])
  obtain ⟨s', h1⟩ := key
  exact ⟨s', h1, (hk k).ok h1⟩

theorem C01_navOf_core {s1 s : Ed} (h : s1.core = s.core) : navOf s1 = navOf s := by
  obtain ⟨h1, h2, _, _, h5, _⟩ := Ed.core_eq h
  simp [navOf, h1, h2, h5]

theorem C01_navOK_core {cfg : EdCfg} {s1 s : Ed} (h : s1.core = s.core) (hn : NavOK cfg s) : NavOK cfg s1 := by
  obtain ⟨h1, h2, _, _, h5, _⟩ := Ed.core_eq h
  exact ⟨h1 ▸ hn.lineGrow, h2 ▸ hn.savedGrow, h1 ▸ hn.linePos, h2 ▸ hn.savedPos, h5 ▸ hn.idx⟩

/-- **C-p / C-n / M-< / M->** from the key to the effect C07 proves: previous / next / first / last
    entry of the store (`navPrevS` …), the in-progress line saved and restored as C07 states -/
theorem C01_history_keys (S : Segmenter) (U : UData) (cfg : EdCfg) (hvi : cfg.vi = false) (hb : cfg.binds = [])
    (hnp : cfg.hinterPanicAt = none) (hst : StoreOK (storeOf cfg)) (fuel : Nat) (s : Ed) (hnav : NavOK cfg s) :
    (∃ s', (do let cmd ← emacs S U cfg fuel (ctrl 'P'); execute S U cfg cmd) s = .ok (.proceed, s') ∧
        navOf s' = navPrevS (storeOf cfg) (navOf s) ∧ NavOK cfg s') ∧
    (∃ s', (do let cmd ← emacs S U cfg fuel (ctrl 'N'); execute S U cfg cmd) s = .ok (.proceed, s') ∧
        navOf s' = navNextS (storeOf cfg) (navOf s) ∧ NavOK cfg s') ∧
    (∃ s', (do let cmd ← emacs S U cfg fuel (altk '<'); execute S U cfg cmd) s = .ok (.proceed, s') ∧
        navOf s' = navFirstS (storeOf cfg) (navOf s) ∧ NavOK cfg s') ∧
    (∃ s', (do let cmd ← emacs S U cfg fuel (altk '>'); execute S U cfg cmd) s = .ok (.proceed, s') ∧
        navOf s' = navLastS (storeOf cfg) (navOf s) ∧ NavOK cfg s') := by
  have km := fun e he => C01_history_keys_denote S U cfg hvi hb fuel s e he
  refine ⟨?_, ?_, ?_, ?_⟩
  · obtain ⟨s1, h1, hc⟩ := km (ctrl 'P', .previousHistory) (by simp [C01_histKeysEmacs])
    obtain ⟨s', h2, h3, h4⟩ := C07_prev_refines_store S U cfg hnp hst s1 (C01_navOK_core hc hnav)
    refine ⟨s', ?_, by rw [h3, C01_navOf_core hc], h4⟩
    have hx : execute S U cfg .previousHistory = (do editHistoryNext S U cfg true; pure .proceed) := rfl
    simp only [EM.bind_apply, h1, hx, h2]; rfl
  · obtain ⟨s1, h1, hc⟩ := km (ctrl 'N', .nextHistory) (by simp [C01_histKeysEmacs])
    obtain ⟨s', h2, h3, h4⟩ := C07_next_refines_store S U cfg hnp hst s1 (C01_navOK_core hc hnav)
    refine ⟨s', ?_, by rw [h3, C01_navOf_core hc], h4⟩
    have hx : execute S U cfg .nextHistory = (do editHistoryNext S U cfg false; pure .proceed) := rfl
    simp only [EM.bind_apply, h1, hx, h2]; rfl
  · obtain ⟨s1, h1, hc⟩ := km (altk '<', .beginningOfHistory) (by simp [C01_histKeysEmacs])
    obtain ⟨s', h2, h3, h4⟩ := C07_first_refines_store S U cfg hnp hst s1 (C01_navOK_core hc hnav)
    refine ⟨s', ?_, by rw [h3, C01_navOf_core hc], h4⟩
    have hx : execute S U cfg .beginningOfHistory = (do editHistory S U cfg true; pure .proceed) := rfl
    simp only [EM.bind_apply, h1, hx, h2]; rfl
  · obtain ⟨s1, h1, hc⟩ := km (altk '>', .endOfHistory) (by simp [C01_histKeysEmacs])
    obtain ⟨s', h2, h3, h4⟩ := C07_last_refines_store S U cfg hnp s1 (C01_navOK_core hc hnav)
    refine ⟨s', ?_, by rw [h3, C01_navOf_core hc], h4⟩
    have hx : execute S U cfg .endOfHistory = (do editHistory S U cfg false; pure .proceed) := rfl
    simp only [EM.bind_apply, h1, hx, h2]; rfl

/-! ### non-vacuity -/

/-- the vi tables do denote commands: `x` is `Kill(ForwardChar n)`, `C` is `Replace(EndOfLine)`,
    `dw`'s span is the start of the n-th next word, `cw` is `ce`, `de` includes the end -/
example : ((lookup (table .viCommand) (plain 'x')).map (fun a => (a.resolve 3 true false true).toCmd)) =
      some (some (.kill (.forwardChar 3)))
    ∧ ((lookup (table .viCommand) (plain 'C')).map (fun a => (a.resolve 1 true false true).toCmd)) =
      some (some (.replace .endOfLine none))
    ∧ docMotion (.move (.wordRight .start .vi)) 6 false none none = some (.forwardWord 6 .start .vi)
    ∧ docMotion (.move (.wordRight .start .vi)) 6 true none none = some (.forwardWord 6 .afterEnd .vi)
    ∧ docMotion (.move (.wordRight .beforeEnd .big)) 2 false none none = some (.forwardWord 2 .afterEnd .big) := by
  decide

/-- the refinement theorems are not vacuous: `M-DEL` on `ab cd|` is documented to leave `ab |`, `M-f`
    from the start goes to 2; the action is covered (charSeg is stable
    and keeps the line break alone: `charSeg_stable`, `charSeg_nlAlone`) -/
example : ((Act.kill (.backwardWord 1 .emacs)).apply charSeg C04_exU .emacs "ab cd".toList 5).text = some "ab ".toList
    ∧ ((Act.kill (.backwardWord 1 .emacs)).apply charSeg C04_exU .emacs "ab cd".toList 5).pos = some 3
    ∧ ((Act.move (.forwardWord 1 .afterEnd .emacs)).apply charSeg C04_exU .emacs "ab cd".toList 0).pos = some 2
    ∧ Covered (Act.kill (.backwardWord 1 .emacs)) := by
  exact ⟨by decide, by decide, by decide, by simp [Covered]⟩

/-! ### C01_numeric_argument_keys — `M-[-]d₀ d₁ … dₙ k` for arbitrary digit sequences (gap filling) -/

/-- **A numeric argument typed key by key, any number of digits.**  Emacs mode, helper without a
    scripted hinter panic.  The user presses `M-d0` (`d0` a digit or `-`), then keys that decode
    (`next_key` on the terminal input, `ReadsArg`) to the digits `ds`, then a key `k` that is neither a
    digit nor `-`.  Then the keymap behaves EXACTLY as if `k` alone had been pressed in a state `s1`
    that differs from the start only in display fields, has consumed the input up to and including
    `k`, and holds as pending count / direction the documented value `emacsArg` of the signed decimal
    number typed (first four significant digits, `M--` alone is −1): `countOf s1.inp.numArgs = (n, p)`.
    `C01_numeric_argument` assumed the pending argument; this theorem derives it from the keys.
    Hypotheses: `hnp` (no scripted hinter panic: the argument prompt refreshes the line at every
    digit), enough fuel for the digits, the documented value is defined (non-zero). -/
theorem C01_numeric_argument_keys (S : Segmenter) (U : UData) (cfg : EdCfg) (hnp : cfg.hinterPanicAt = none)
    (fuel : Nat) (d0 : Char) (hd0 : (d0 == '-' || isDigit d0) = true) (s : Ed) (ds : List Nat) (k : KeyEvent)
    (i' : Input) (hr : ReadsArg s.input ds k i') (hf : ds.length < fuel) (n : Nat) (p : Bool)
    (hdoc : emacsArg (d0 == '-') (argDigits d0 ds) = some (n, p)) :
    ∃ s1, s1.core = s.core ∧ s1.input = i' ∧ countOf s1.inp.numArgs = (n, p) ∧
      s1.inp = { s.inp with numArgs := s1.inp.numArgs } ∧
      emacs S U cfg fuel ⟨.char d0, Mods.alt⟩ s = emacs S U cfg fuel k s1 := by
  obtain ⟨s1, h1, h2, h3, h4⟩ := emacs_arg_keys S U cfg hnp fuel d0 hd0 s ds k i' hr hf
  refine ⟨s1, h1, h2, ?_, ?_, h4⟩
  · have ha := C01_numeric_argument (d0 == '-') (argDigits d0 ds) s1 n p hdoc (by rw [h3])
    rw [emacsNumArgs_eq] at ha
    injection ha with ha
    exact (Prod.mk.inj ha).1
  · rw [h3]

/-- non-vacuity: the bytes `2 3 x` decode to the digits 2, 3 and then the key `x`; after `M-1` the
    documented argument is +123 -/
example : ReadsArg { buf := [], avail := [50, 51, 120], future := [] } [2, 3] ⟨.char 'x', 0⟩
      { buf := [], avail := [], future := [] } ∧ emacsArg ('1' == '-') (argDigits '1' [2, 3]) = some (123, true) :=
  ⟨.digit (k := ⟨.char '2', 0⟩) (i1 := { buf := [51, 120], avail := [], future := [] }) (by rfl) (by rfl)
    (.digit (k := ⟨.char '3', 0⟩) (i1 := { buf := [120], avail := [], future := [] }) (by rfl) (by rfl)
      (.done (by rfl) (by rfl))), by decide⟩

/-- no key of the emacs table is `Right` (it lives in the common table) -/
theorem C01_emacsTable_no_right (e : KeyEvent × DocAction) (he : e ∈ emacsTable) : e.1 ≠ key .right := by
  simp only [emacsTable, List.mem_cons, List.not_mem_nil, or_false] at he
  rcases he with he | he | he | he | he | he | he | he | he | he | he | he | he | he | he | he | he | he | he | he | he | he | he | he | he | he | he | he | he | he | he | he | he | he | he | he | he | he | he | he | he | he | he | he | he | he
  all_goals (subst he; decide)

/-- **`M-[-]d₀ d₁ … dₙ` followed by a key of the emacs binding table yields the documented command
    with the typed count and direction**, for every digit sequence: the README action of the key,
    resolved (`DocAction.resolve`) with the count `n` and direction `p` the digits denote
    (`emacsArg`), is the command the keymap hands to the main loop, and the text is untouched.
    (Composition of `C01_numeric_argument_keys` with `C01_binding_table_emacs`; no custom bindings,
    no scripted hinter panic.) -/
theorem C01_numeric_argument_keys_table (S : Segmenter) (U : UData) (cfg : EdCfg) (hvi : cfg.vi = false)
    (hb : cfg.binds = []) (hnp : cfg.hinterPanicAt = none)
    (fuel : Nat) (d0 : Char) (hd0 : (d0 == '-' || isDigit d0) = true) (s : Ed) (ds : List Nat)
    (e : KeyEvent × DocAction) (he : e ∈ emacsTable)
    (i' : Input) (hr : ReadsArg s.input ds e.1 i') (hf : ds.length < fuel) (n : Nat) (p : Bool)
    (hdoc : emacsArg (d0 == '-') (argDigits d0 ds) = some (n, p)) (cmd : Cmd)
    (hc : (e.2.resolve n p s.line.buf.isEmpty false).toCmd = some cmd) :
    ∃ s', emacs S U cfg fuel ⟨.char d0, Mods.alt⟩ s = .ok (cmd, s') ∧ s'.line = s.line := by
  obtain ⟨s1, h1, h2, h3, _, h5⟩ := C01_numeric_argument_keys S U cfg hnp fuel d0 hd0 s ds e.1 i' hr hf n p hdoc
  have hl := (Ed.core_eq h1).1
  obtain ⟨s', h6, h7⟩ := C01_binding_table_emacs S U cfg hvi hb fuel s1 e he cmd (by rw [h3, hl]; exact hc)
    (fun h => C01_emacsTable_no_right e he h.1)
  exact ⟨s', h5.trans h6, h7.trans hl⟩

/-! ### C01_outcome_readline_exit — the value of a read that ends without a line -/

/-- **The value of the read, EOF / interrupt side**: when the edit loop of a read ends early with
    an outcome `o` (for `C-c`: `interrupted`, for `C-d` on the empty line: `eof` — `C01_outcome`,
    `C01_outcome_emacs_keys`, `C01_outcome_vi_keys` give exactly these exits of `mainLoop`), then
    `readline` returns that outcome and no line, whatever keys came before and whatever the text
    was.  Companion of `C01_outcome_readline` (the Enter side); no hypothesis besides the exit. -/
theorem C01_outcome_readline_exit (S : Segmenter) (U : UData) (cfg : EdCfg) (ring : KillRing) (left right : Text)
    (inp : Input) (o : Rl.Outcome) (s' : Ed)
    (h : (do if !(left.isEmpty && right.isEmpty) then lb S U (LB.update S U (left ++ right) (blen left))
             refreshLine S U cfg
             mainLoop S U cfg (inp.size + 2) : EM Unit) (initEd cfg ring inp) = .error (o, s')) :
    (readline S U cfg ring left right inp).1 = o := by
  unfold readline
  by_cases hc : (!(left.isEmpty && right.isEmpty)) = true
  · simp only [hc, if_true] at h ⊢
    have hp : (do lb S U (LB.update S U (left ++ right) (blen left)); refreshLine S U cfg
                  mainLoop S U cfg (inp.size + 2); editMove S U cfg (LB.moveBufferEnd S U) : EM Unit) =
        ((do lb S U (LB.update S U (left ++ right) (blen left)); refreshLine S U cfg
             mainLoop S U cfg (inp.size + 2) : EM Unit) >>= fun _ => editMove S U cfg (LB.moveBufferEnd S U)) := by
      simp only [EM.bind_assoc']
    rw [hp, EM.bind_apply, h]
  · simp only [hc, Bool.false_eq_true, if_false] at h ⊢
    have hp : (do refreshLine S U cfg
                  mainLoop S U cfg (inp.size + 2); editMove S U cfg (LB.moveBufferEnd S U) : EM Unit) =
        ((do refreshLine S U cfg
             mainLoop S U cfg (inp.size + 2) : EM Unit) >>= fun _ => editMove S U cfg (LB.moveBufferEnd S U)) := by
      simp only [EM.bind_assoc']
    rw [hp, EM.bind_apply, h]

/-- non-vacuity of `C01_numeric_argument_keys_table`: `C-f` is an entry of the emacs table and ends
    an argument; `M-1 2 3 C-f` is documented as "forward 123 characters", `M-- 1 2 C-f` as "backward
    12 characters" -/
example : (ctrl 'F', DocAction.move .charRight) ∈ emacsTable
    ∧ ((DocAction.move .charRight).resolve 123 true false false).toCmd = some (.move (.forwardChar 123))
    ∧ ((DocAction.move .charRight).resolve 12 false false false).toCmd = some (.move (.backwardChar 12))
    ∧ isArgKey (ctrl 'F') = false ∧ emacsArg ('-' == '-') (argDigits '-' [1, 2]) = some (12, false) := by
  refine ⟨by simp [emacsTable], by decide, by decide, by decide, by decide⟩
