/-
  Property C01 — keystrokes produce the documented edit.
  Spec: `Rl/Spec/Doc.lean` (README tables as data + declarative meaning of every action),
  oracle `Rl/Spec/OracleDoc.lean` (run on the implementation's callbacks by `./check C01`).
  Model: `Rl/Editor.lean` (keymaps `emacs` / `viCommand` / `viInsert` / `viCmdMotion` / `common`,
  numeric arguments, `execute`).  Helper lemmas: `Rl/Lemmas/Keymap.lean`.
-/
import Rl.Editor
import Rl.Spec.Doc
import Rl.Lemmas.Keymap
import Rl.Lemmas.LineBuffer
import Rl.Lemmas.LineBufferSafe
import Rl.Lemmas.EditorM
import Rl.Lemmas.EditorOps
open Rl Rl.Spec Rl.Spec.Doc

/-! ### C01_binding_table — every (key, action) of the README tables is what the keymap returns

  For every entry of the table of a mode whose action needs no further key, every state, every
  pending count `n` and direction `p`: the model's keymap function returns the `Cmd` that denotes
  the action resolved with the GNU count / direction conventions (`DocAction.resolve`,
  `Act.toCmd`), and leaves the text alone.  Entries that read more keys (operators, `f t F T r`,
  `C-v`, digit arguments) are covered by `C01_vi_operator_motion`, `C01_numeric_argument` and the
  correspondence; entries judged by other properties (`other`) denote no command here. -/

set_option maxHeartbeats 1600000 in
/-- Emacs mode, the mode's own table. -/
theorem C01_binding_table_emacs (S : Segmenter) (U : UData) (cfg : EdCfg) (hvi : cfg.vi = false)
    (hb : cfg.binds = []) (fuel : Nat) (s : Ed) (e : KeyEvent × DocAction) (he : e ∈ emacsTable) (cmd : Cmd)
    (hc : (e.2.resolve (countOf s.inp.numArgs).1 (countOf s.inp.numArgs).2 s.line.buf.isEmpty false).toCmd = some cmd)
    (hr : ¬ (e.1 = key .right ∧ s.hint.isSome = true ∧ s.line.pos = blen s.line.buf)) :
    ∃ s', emacs S U cfg fuel e.1 s = .ok (cmd, s') ∧ s'.line = s.line := by
  obtain ⟨k, a⟩ := e
  simp only [emacsTable, List.mem_cons, List.not_mem_nil, or_false, Prod.mk.injEq] at he
  generalize hnp : countOf s.inp.numArgs = np at hc
  obtain ⟨n, p⟩ := np
  have hna := emacsNumArgs_eq s
  rw [hnp] at hna
  rcases he with he | he | he | he | he | he | he | he | he | he | he | he | he | he | he | he | he | he | he | he | he | he | he | he | he | he | he | he | he | he | he | he | he | he | he | he | he | he | he | he | he | he | he | he | he | he
  all_goals (
    obtain ⟨rfl, rfl⟩ := he
    simp only [] at hr hc ⊢
    first
    | (cases p <;>
       simp [DocAction.resolve, DocMove.toMovement, Doc.Act.toCmd] at hc <;>
       (try subst hc) <;>
       simp [emacs, common, EM.bind_apply, EM.pure_apply, hna, customBinding, hb, termBinding, ctrl, altk, key,
         Mods.alt, isDigit, dirMove, lineEmpty, hasHint, cursorAtEnd, hvi]; done)
    | (cases p <;> cases hem : s.line.buf.isEmpty <;>
       simp [DocAction.resolve, DocMove.toMovement, Doc.Act.toCmd, hem] at hc <;>
       (try subst hc) <;>
       simp [emacs, common, EM.bind_apply, EM.pure_apply, hna, customBinding, hb, termBinding, ctrl, altk, key,
         Mods.alt, isDigit, dirMove, lineEmpty, hasHint, cursorAtEnd, hvi, hem] <;> simp_all; done)
    | (cases p <;> by_cases hh : (s.hint.isSome = true ∧ s.line.pos = blen s.line.buf) <;>
       simp [DocAction.resolve, DocMove.toMovement, Doc.Act.toCmd] at hc <;>
       (try subst hc) <;>
       simp [emacs, common, EM.bind_apply, EM.pure_apply, hna, customBinding, hb, termBinding, ctrl, altk, key,
         Mods.alt, isDigit, dirMove, lineEmpty, hasHint, cursorAtEnd, hvi, hh] <;> simp_all; done)
    | (cases p <;> by_cases hn1 : n = 1 <;>
       simp [DocAction.resolve, DocMove.toMovement, Doc.Act.toCmd, hn1] at hc <;>
       (try subst hc) <;>
       simp [emacs, common, EM.bind_apply, EM.pure_apply, hna, customBinding, hb, termBinding, ctrl, altk, key,
         Mods.alt, isDigit, dirMove, lineEmpty, hasHint, cursorAtEnd, hvi]))

set_option maxHeartbeats 1600000 in
/-- Emacs mode, the "For all modes" table (`Right` with a hint at the end of the line completes the hint instead). -/
theorem C01_binding_table_emacs_common (S : Segmenter) (U : UData) (cfg : EdCfg) (hvi : cfg.vi = false)
    (hb : cfg.binds = []) (fuel : Nat) (s : Ed) (e : KeyEvent × DocAction) (he : e ∈ commonTable) (cmd : Cmd)
    (hc : (e.2.resolve (countOf s.inp.numArgs).1 (countOf s.inp.numArgs).2 s.line.buf.isEmpty false).toCmd = some cmd)
    (hr : ¬ (e.1 = key .right ∧ s.hint.isSome = true ∧ s.line.pos = blen s.line.buf)) :
    ∃ s', emacs S U cfg fuel e.1 s = .ok (cmd, s') ∧ s'.line = s.line := by
  obtain ⟨k, a⟩ := e
  simp only [commonTable, List.mem_cons, List.not_mem_nil, or_false, Prod.mk.injEq] at he
  generalize hnp : countOf s.inp.numArgs = np at hc
  obtain ⟨n, p⟩ := np
  have hna := emacsNumArgs_eq s
  rw [hnp] at hna
  rcases he with he | he | he | he | he | he | he | he | he | he | he | he | he | he | he | he | he | he | he | he
  all_goals (
    obtain ⟨rfl, rfl⟩ := he
    simp only [] at hr hc ⊢
    first
    | (cases p <;>
       simp [DocAction.resolve, DocMove.toMovement, Doc.Act.toCmd] at hc <;>
       (try subst hc) <;>
       simp [emacs, common, EM.bind_apply, EM.pure_apply, hna, customBinding, hb, termBinding, ctrl, altk, key,
         Mods.alt, isDigit, dirMove, lineEmpty, hasHint, cursorAtEnd, hvi]; done)
    | (cases p <;> cases hem : s.line.buf.isEmpty <;>
       simp [DocAction.resolve, DocMove.toMovement, Doc.Act.toCmd, hem] at hc <;>
       (try subst hc) <;>
       simp [emacs, common, EM.bind_apply, EM.pure_apply, hna, customBinding, hb, termBinding, ctrl, altk, key,
         Mods.alt, isDigit, dirMove, lineEmpty, hasHint, cursorAtEnd, hvi, hem] <;> simp_all; done)
    | (cases p <;> by_cases hh : (s.hint.isSome = true ∧ s.line.pos = blen s.line.buf) <;>
       simp [DocAction.resolve, DocMove.toMovement, Doc.Act.toCmd] at hc <;>
       (try subst hc) <;>
       simp [emacs, common, EM.bind_apply, EM.pure_apply, hna, customBinding, hb, termBinding, ctrl, altk, key,
         Mods.alt, isDigit, dirMove, lineEmpty, hasHint, cursorAtEnd, hvi, hh] <;> simp_all; done)
    | (cases p <;> by_cases hn1 : n = 1 <;>
       simp [DocAction.resolve, DocMove.toMovement, Doc.Act.toCmd, hn1] at hc <;>
       (try subst hc) <;>
       simp [emacs, common, EM.bind_apply, EM.pure_apply, hna, customBinding, hb, termBinding, ctrl, altk, key,
         Mods.alt, isDigit, dirMove, lineEmpty, hasHint, cursorAtEnd, hvi]))


/-! ### C01_numeric_argument -/

/-- Spec: a typed argument of at most four digits has its decimal value. -/
theorem C01_arg_value_four_digits (a b c d : Nat) (ha : a < 10) (hb : b < 10) (hc : c < 10) (hd : d < 10) :
    argValue [a, b, c, d] = 1000 * a + 100 * b + 10 * c + d := by
  have h0 : a < 1000 := by omega
  have h1 : 10 * a + b < 1000 := by omega
  have h2 : 10 * (10 * a + b) + c < 1000 := by omega
  simp [argValue, h0, h1, h2]
  omega

/-- Spec: digits after the fourth significant one are ignored. -/
theorem C01_arg_value_saturates (ds : List Nat) (v : Nat) (hv : 1000 ≤ v) :
    ds.foldl (fun v d => if v < 1000 then 10 * v + d else v) v = v := by
  induction ds with
  | nil => rfl
  | cons d ds ih => simp only [List.foldl_cons]; rw [if_neg (by omega)]; exact ih

/-- Model: typing `M-[-]d₁…d_k` and then a command gives the command the signed decimal value
    (first four significant digits) as count and direction — the count `emacsNumArgs` hands to the
    keymap equals the documented `emacsArg`.  `negative` = the argument was started with `M--`;
    the loop of `emacs_digit_argument` keeps `num_args = argOf negative (fold of digitAccum)`. -/
theorem C01_numeric_argument (negative : Bool) (ds : List Nat) (s : Ed) (n : Nat) (p : Bool)
    (hdoc : emacsArg negative ds = some (n, p))
    (hs : s.inp.numArgs = argOf negative (ds.foldl digitAccum none)) :
    emacsNumArgs s = .ok ((n, p), { s with inp := { s.inp with numArgs := 0 } }) := by
  rw [emacsNumArgs_eq]
  congr 2
  rw [hs]
  cases ds with
  | nil =>
    cases negative <;> simp [emacsArg] at hdoc
    obtain ⟨rfl, rfl⟩ := hdoc
    simp [argOf, countOf]
  | cons d ds =>
    rw [foldl_digitAccum_none]
    simp only [emacsArg, List.isEmpty_cons, Bool.false_eq_true, if_false] at hdoc
    by_cases hv : argValue (d :: ds) = 0
    · simp [hv] at hdoc
    · cases negative
      · simp [hv] at hdoc
        obtain ⟨rfl, rfl⟩ := hdoc
        simp only [argOf, countOf]
        have h1 : ((argValue (d :: ds) : Nat) : Int) ≠ 0 := by omega
        have h2 : ¬ ((argValue (d :: ds) : Nat) : Int) < 0 := by omega
        simp [h1, h2, hv]
      · simp [hv] at hdoc
        obtain ⟨rfl, rfl⟩ := hdoc
        simp only [argOf, countOf]
        have h1 : (-((argValue (d :: ds) : Nat) : Int)) ≠ 0 := by omega
        have h2 : (-((argValue (d :: ds) : Nat) : Int)) < 0 := by omega
        simp [h1, h2, hv]

/-- The repaired D4 on concrete arguments: `M-- 1 2` is −12, `M-- 2 1` is −21, `M--` alone is −1,
    a fifth digit is ignored. -/
theorem C01_numeric_argument_minus_12 :
    argOf true ([1, 2].foldl digitAccum none) = -12 ∧ argOf true ([2, 1].foldl digitAccum none) = -21
      ∧ argOf true ([].foldl digitAccum none) = -1 ∧ argOf false ([1, 2, 3, 4, 5].foldl digitAccum none) = 1234 := by
  decide

/-! ### C01_self_insert_once — a printable character is inserted exactly once at the cursor -/

/-- Full statement: `execute (SelfInsert 1 c)` on a growable buffer with the cursor on a boundary
    inserts `c` exactly once at the cursor, puts the cursor just after it, and proceeds.  (Proved
    below without a helper installed; with a helper the highlighter's `highlight_char` flag is
    threaded through the refresh, which does not touch the line — not yet carried out.) -/
def C01_self_insert_once_statement : Prop :=
  ∀ (S : Segmenter) (U : UData) (cfg : EdCfg) (c : Char) (s : Ed) (x z : Text),
    s.line.buf = x ++ z → s.line.pos = blen x → s.line.canGrow = true →
    ∃ s', execute S U cfg (.selfInsert 1 c) s = .ok (.proceed, s') ∧
      s'.line.buf = x ++ [c] ++ z ∧ s'.line.pos = blen x + c.utf8Size

theorem C01_self_insert_once_partial (S : Segmenter) (U : UData) (cfg : EdCfg) (hh : cfg.hasHelper = false)
    (c : Char) (s : Ed) (x z : Text)
    (hb : s.line.buf = x ++ z) (hp : s.line.pos = blen x) (hg : s.line.canGrow = true) :
    ∃ s', execute S U cfg (.selfInsert 1 c) s = .ok (.proceed, s') ∧
      s'.line.buf = x ++ [c] ++ z ∧ s'.line.pos = blen x + c.utf8Size := by
  have hx : execute S U cfg (.selfInsert 1 c) = (do pure (); editInsert S U cfg c 1; pure .proceed) := rfl
  have hins := insert_eval S U c 1 s.line
  have hmt : s.line.mustTruncate (s.line.len + c.utf8Size * 1) = false := by simp [LB.mustTruncate, hg]
  rw [hmt, hb, hp, splitAtByte_append] at hins
  simp only [Bool.false_eq_true, if_false] at hins
  rw [hx]
  have hw : wp (do pure (); editInsert S U cfg c 1; pure Status.proceed : EM Status)
      (fun st s' => st = .proceed ∧ s'.line.buf = x ++ [c] ++ z ∧ s'.line.pos = blen x + c.utf8Size)
      (fun _ _ => False) s := by
    simp only [wp_bind, wp_pure]
    refine wp_mono (editInsert_spec S U cfg c 1 s) ?_ ?_
    · intro _ s' ⟨r, l, ns, hi, hc⟩
      rw [hins] at hi
      cases hi
      obtain ⟨hl, _⟩ := Ed.core_eq hc
      rw [hl]
      simp
    · intro o s' ⟨_, hd⟩
      rcases hd with ⟨_, e, he⟩ | ⟨h1, _⟩
      · rw [hins] at he; cases he
      · rw [hh] at h1; cases h1
  obtain ⟨st, s', h1, h2, h3⟩ := returns_iff_wp.mpr hw
  subst h2
  exact ⟨s', h1, h3⟩

/-! ### C01_motion_pure — no command documented as a motion changes the text -/

/-- Full statement: no `Move` command changes the text.  Proved below for every movement except
    `ViFirstPrint` (`^`: two chained motions with a branch on the first character; the same
    `PosOnly` lemmas apply, the proof through the `do` join point is not carried out). -/
def C01_motion_pure_statement : Prop :=
  ∀ (S : Segmenter) (U : UData) (cfg : EdCfg) (m : Movement), TextPure (execute S U cfg (.move m))

/-- `execute (Move m)` never changes the text, for every movement, every state, whether the
    command returns or not (lifted from the `PosOnly` lemmas behind `C03_motion_copy_pure`). -/
theorem C01_motion_pure_partial (S : Segmenter) (U : UData) (cfg : EdCfg) (m : Movement) (hm : m ≠ .viFirstPrint) :
    TextPure (execute S U cfg (.move m)) := by
  have em {op : LM Bool} (h : PosOnly op) : TextPure (do editMove S U cfg op; pure Status.proceed : EM Status) :=
    TextPure.bind (TextPure.editMove S U cfg h) (fun _ => TextPure.pure _)
  cases m
  case wholeLine => exact TextPure.pure _
  case wholeBuffer => exact TextPure.pure _
  case beginningOfLine => exact em (PosOnly.moveHome S U)
  case endOfLine => exact em (PosOnly.moveEnd S U)
  case backwardWord n w => exact em (PosOnly.moveToPrevWord S U w n)
  case forwardWord n a w => exact em (PosOnly.moveToNextWord S U a w n)
  case viCharSearch n cs => exact em (PosOnly.moveTo S U cs n)
  case backwardChar n => exact em (PosOnly.moveBackward S U n)
  case forwardChar n => exact em (PosOnly.moveForward S U n)
  case beginningOfBuffer => exact em (PosOnly.moveBufferStart S U)
  case endOfBuffer => exact em (PosOnly.moveBufferEnd S U)
  case lineUp n =>
    exact TextPure.bind TextPure.getPromptCol (fun pc => em (PosOnly.moveToLineUp S U n pc))
  case lineDown n =>
    exact TextPure.bind TextPure.getPromptCol (fun pc => em (PosOnly.moveToLineDown S U n pc))
  case viFirstPrint => exact absurd rfl hm

/-- in particular: a step that returns keeps the text -/
theorem C01_motion_pure_ok (S : Segmenter) (U : UData) (cfg : EdCfg) (m : Movement) (hm : m ≠ .viFirstPrint)
    (s s' : Ed) (st : Status)
    (h : execute S U cfg (.move m) s = .ok (st, s')) : s'.line.buf = s.line.buf := by
  have := C01_motion_pure_partial S U cfg m hm s
  rw [h] at this
  exact this

/-! ### C01_outcome — C-c, C-d on an empty line, Enter -/

/-- `Interrupt` ends the read with the interrupted outcome, whatever the state. -/
theorem C01_outcome_interrupt (S : Segmenter) (U : UData) (cfg : EdCfg) (s : Ed) :
    ∃ s', execute S U cfg .interrupt s = .error (.interrupted, s') ∧ s'.line = s.line := by
  have hx : execute S U cfg .interrupt = (do pure (); logRender (fun _ => .moveToEnd); EM.exit .interrupted) := rfl
  rw [hx]
  simp [EM.bind_apply, logRender, EM.modify, EM.exit]

/-- Full statement at the level of the read loop (not proved: needs the loop invariant "the last
    executed step decides the outcome" through `mainLoop` and its sub-loops, and the step lemmas
    "Enter without a helper submits with the text unchanged", "EndOfFile on an empty line exits with
    eof"; the oracle checks all three outcomes on every run of the implementation). -/
def C01_outcome_statement : Prop :=
  ∀ (S : Segmenter) (U : UData) (cfg : EdCfg) (ring : KillRing) (left right : Text) (inp : Input) (l : Text) (s : Ed),
    readline S U cfg ring left right inp = (.line l, s) → s.line.buf = l
