/-
  C02 — what the terminal shows is the prompt, the line and the cursor (DESIGN.md "### C02").

  Model: `Rl/Layout.lean` (cell arithmetic), `Rl/Render.lean` (emitted text), `Rl/Term.lean` (terminal).
  Spec: `Rl/Spec/Screen.lean` (`Shows`: the screen equals the from-scratch rendering, the cursor is on
  the insertion point, no wrap pending).

  Proved here, for every lawful segmenter, every width table and every terminal width ≥ 2, over texts made
  of the graphemes the property quantifies over (`PlainG`: line breaks and printable clusters of width
  0/1/2, no TAB / ESC / control characters):
    * the grapheme loop of `calculate_position` *is* the terminal's cursor motion (simulation);
    * positions computed piecewise add up (true since the repair that keeps the pending-wrap column);
    * the believed cursor of a layout is the spec's insertion point, and the renderer's own newline is
      written exactly when the terminal has a wrap pending;
    * the fast path of `edit_insert` leaves believed and real cursor in agreement, without pending wrap.
  Screen content (cell-level lemmas in `Rl/Lemmas/Term.lean`, byte-string lemmas in `Rl/Lemmas/Render.lean`):
    * `C02_full_refresh`: the bytes of `refresh_line` lead from any state the renderer believes correctly to
      the terminal showing the new prompt, line, hint and cursor, nothing left over;
    * `C02_move_cursor`: a cursor-only move keeps the text and puts the cursor on the new insertion point;
    * `C02_fast_path`: under the guard of `edit_insert` the one character written gives what a repaint gives;
    * `C02_final_full`: the last move to the end of the buffer plus the final newline leave the cursor at
      column 0 below every row of the text;
    * `C02_history`: composition — after every prefix of a coherent render log ending in a callback, the
      terminal that interpreted all bytes shows the state the callback sees (with its hint or without any).
  The invariant these preserve is `C02_Synced` (terminal vocabulary only).  The statements announced earlier
  in the vocabulary of `calculate_position` (`C02_…_statement`) are **false as written** — they say nothing
  about how the old text is segmented, and `calculate_position` is only right on clusters whose width is the
  width of their base character; the log of the history statement may carry a callback state that was never
  rendered — each is kept with a refutation (`…_statement_false`) and proved with the missing hypotheses
  (`C02_full_refresh_consistent`, `C02_move_cursor_consistent`, `C02_fast_path_shows`, `C02_final_full`,
  `C02_history`).
-/
import Rl.Layout
import Rl.Term
import Rl.Render
import Rl.Spec.Screen
import Rl.Lemmas.Layout
import Rl.Lemmas.Term
import Rl.Lemmas.Render
import Rl.Lemmas.RenderGhost
import Rl.Lemmas.RenderLogTop
import Rl.Lemmas.RenderLogExec
import Rl.Lemmas.RenderLogBd
import Rl.Lemmas.RenderLogBdTop
import Rl.Lemmas.PopUndoWF
import Rl.Lemmas.RenderLogAlpha
import Rl.Lemmas.AlphaLM
import Rl.Lemmas.CharSearch
import Rl.Lemmas.EditorNextRet
import Rl.Lemmas.LBFaithful
import Rl.Lemmas.RenderLogReturn
import Rl.Lemmas.ReturnNoHint
open Rl Rl.Spec

/-- **`calculate_position` is where printing ends.**  If the loop state `p` and the terminal cursor agree
    (`col = cols` ⇔ wrap pending), they agree again after `s` has been computed / printed. -/
theorem C02_position_is_print (S : Segmenter) (R : RCfg) (hc : 2 ≤ R.cols) (s : Text) (p : Pos) (t : Term)
    (hs : C02_Plain S R s) (h : Tracks R p t) :
    Tracks R (calculatePosition S R s p) (t.feed R.cw s) := by
  have := (tracks_loop hc (S.seg s) hs h).2
  rw [S.flatten_eq] at this
  exact this

/-- the escape-sequence skipper is idle after a text of the quantified kind -/
theorem C02_skipper_idle (S : Segmenter) (R : RCfg) (hc : 2 ≤ R.cols) (s : Text) (p : Pos)
    (hs : C02_Plain S R s) (hp : p.col ≤ R.cols) :
    (posLoop R (S.seg s) (p, 0)).2 = 0 := by
  -- any terminal that tracks `p` will do as a witness
  let t : Term := { cols := R.cols, cr := p.row,
                    cc := if p.col < R.cols then p.col else R.cols - 1,
                    pending := !(decide (p.col < R.cols)) }
  have ht : Tracks R p t := by
    refine ⟨rfl, rfl, rfl, ?_⟩
    by_cases h : p.col < R.cols
    · exact Or.inl ⟨h, by simp [t, h], by simp [t, h]⟩
    · exact Or.inr ⟨by omega, by simp [t, h], by simp [t, h]⟩
  exact (tracks_loop hc (S.seg s) hs ht).1

/-- **Layouts add up**: the position of a concatenation is the position of the second part computed from
    the position of the first (segmentation splitting at the cut, skipper idle at the cut). -/
theorem C02_layout_additive (S : Segmenter) (R : RCfg) (a b : Text) (orig : Pos)
    (hseg : S.seg (a ++ b) = S.seg a ++ S.seg b)
    (hesc : (posLoop R (S.seg a) (orig, 0)).2 = 0) :
    calculatePosition S R (a ++ b) orig = calculatePosition S R b (calculatePosition S R a orig) := by
  unfold calculatePosition posLoop at *
  rw [hseg, List.foldl_append]
  have : List.foldl (posStep R) (orig, 0) (S.seg a) = ((List.foldl (posStep R) (orig, 0) (S.seg a)).1, 0) :=
    Prod.ext rfl hesc
  rw [this]

/-- the same for texts of the quantified kind: only the segmentation hypothesis remains -/
theorem C02_layout_additive_plain (S : Segmenter) (R : RCfg) (hc : 2 ≤ R.cols) (a b : Text) (orig : Pos)
    (hseg : S.seg (a ++ b) = S.seg a ++ S.seg b) (ha : C02_Plain S R a) (ho : orig.col ≤ R.cols) :
    calculatePosition S R (a ++ b) orig = calculatePosition S R b (calculatePosition S R a orig) :=
  C02_layout_additive S R a b orig hseg (C02_skipper_idle S R hc a orig ha ho)

/-- a blank terminal tracks the origin -/
theorem C02_blank_tracks (R : RCfg) (hc : 2 ≤ R.cols) : Tracks R {} (Term.blank R.cols) :=
  ⟨rfl, rfl, rfl, Or.inl ⟨by show 0 < R.cols; omega, rfl, rfl⟩⟩

/-- **The believed cursor is the spec's insertion point**: the cell where `refresh_line` / `move_cursor`
    put the cursor (`on_screen` of the computed position) is where a terminal stands after printing the
    text from the origin, a pending wrap counted as column 0 of the next row. -/
theorem C02_cursor_is_insertion_point (S : Segmenter) (R : RCfg) (hc : 2 ≤ R.cols) (text : Text)
    (hs : C02_Plain S R text) :
    insertionPoint R.cw R.cols text =
      ((onScreen R (calculatePosition S R text {})).row, (onScreen R (calculatePosition S R text {})).col) := by
  have h := C02_position_is_print S R hc text {} (Term.blank R.cols) hs (C02_blank_tracks R hc)
  obtain ⟨_, _, hrow, hcase⟩ := h
  unfold insertionPoint onScreen
  rcases hcase with ⟨h1, h2, h3⟩ | ⟨h1, h2, h3⟩
  · have : ¬ (calculatePosition S R text {}).col ≥ R.cols := by omega
    simp [h3, this, hrow, h2]
  · have : (calculatePosition S R text {}).col ≥ R.cols := by omega
    simp [h3, this, hrow]

/-- **The renderer's own newline is written exactly when the terminal has a wrap pending** after
    `prompt ++ line ++ hint` (the guard `new_layout.end.col >= cols` of `refresh_line`). -/
theorem C02_wrap_pending_iff (S : Segmenter) (R : RCfg) (hc : 2 ≤ R.cols) (text : Text)
    (hs : C02_Plain S R text) :
    ((Term.blank R.cols).feed R.cw text).pending = true ↔ (calculatePosition S R text {}).col ≥ R.cols := by
  have h := C02_position_is_print S R hc text {} (Term.blank R.cols) hs (C02_blank_tracks R hc)
  obtain ⟨_, _, _, hcase⟩ := h
  rcases hcase with ⟨h1, _, h3⟩ | ⟨h1, _, h3⟩
  · rw [h3]; constructor
    · intro h; exact absurd h (by simp)
    · intro h; omega
  · rw [h3]; constructor
    · intro _; omega
    · intro _; rfl

/-- **Fast path of `edit_insert`, cursor part**: under its guard, writing the one character moves the
    terminal cursor to the believed cursor `col + width`, and no wrap is pending afterwards. -/
theorem C02_fast_path_cursor (R : RCfg) (hc : 2 ≤ R.cols) (l : Layout) (t : Term) (ch : Char) (n : Nat)
    (hint : Option Text) (nph hl : Bool)
    (hguard : fastPathGuard R l ch n hint nph hl = true) (hch : isC0Control ch = false)
    (h : Tracks R l.cursor t) :
    Tracks R { l.cursor with col := l.cursor.col + R.cw ch } (t.feed R.cw [ch]) ∧
    (t.feed R.cw [ch]).pending = false := by
  have hlt : l.cursor.col + R.cw ch < R.cols := by
    unfold fastPathGuard at hguard
    simp at hguard
    omega
  have hps : t.ps = .ground := h.2.1
  have hstep : t.feed R.cw [ch] = t.print (R.cw ch) ch := by
    simp [Term.feed, Term.step, hps, hch]
  have hadv : advance R l.cursor (R.cw ch) = { l.cursor with col := l.cursor.col + R.cw ch } := by
    unfold advance
    have : ¬ l.cursor.col + R.cw ch > R.cols := by omega
    simp [this]
  have ht := tracks_print h hc (R.cw ch) (by omega) ch
  rw [hadv] at ht
  rw [hstep]
  refine ⟨ht, ?_⟩
  obtain ⟨_, _, _, hcase⟩ := ht
  rcases hcase with ⟨_, _, h3⟩ | ⟨h1, _, _⟩
  · exact h3
  · simp at h1; omega

/-- **Final state**: once the terminal shows the line with the cursor at its end (what the final
    `edit_move_buffer_end` is for), the newline written on return leaves the cursor at column 0 of a
    row below every row of the text: application output starts on a fresh row. -/
theorem C02_final (cw : Char → Nat) (t : Term) (prompt line : Text)
    (h : Shows cw t prompt line [] []) :
    (t.feed cw ['\n']).cc = 0 ∧ (t.feed cw ['\n']).pending = false ∧
    (t.feed cw ['\n']).cr > ((Term.blank t.cols).feed cw (prompt ++ line)).cr := by
  obtain ⟨_, hcur, _, hps⟩ := h
  have hstep : t.feed cw ['\n'] = { t with cr := t.cr + 1, cc := 0, pending := false } := by
    simp [Term.feed, Term.step, hps, isC0Control, Term.control]
  rw [hstep]
  refine ⟨rfl, rfl, ?_⟩
  unfold insertionPoint at hcur
  simp only [List.append_nil] at hcur
  split at hcur
  · have := (Prod.mk.inj hcur).1
    show t.cr + 1 > _
    omega
  · have := (Prod.mk.inj hcur).1
    show t.cr + 1 > _
    omega

/-- moving the cursor to the cell it is on writes nothing -/
theorem C02_move_cursor_same (R : RCfg) (p : Pos) : moveCursorBytes R p p = [] := by
  simp [moveCursorBytes]

/-! ### non-vacuity -/

/-- `> aaa` on 4 columns: the text wraps after `> aa`; `calculate_position` and the emulator agree -/
example :
    let R : RCfg := { cols := 4, gw := fun g => g.length, cw := fun _ => 1 }
    let t := (Term.blank 4).feed R.cw "> aaa".toList
    (t.cr, t.cc, t.pending) = (1, 1, false) ∧
    posLoop R ["> aaa".toList.take 1, [' '], ['a'], ['a'], ['a']] ({}, 0) = ({ col := 1, row := 1 }, 0) := by
  decide

/-- text ending exactly at the margin: wrap pending on the terminal, `col = cols` in the arithmetic -/
example :
    let R : RCfg := { cols := 4, gw := fun g => g.length, cw := fun _ => 1 }
    let t := (Term.blank 4).feed R.cw "> aa".toList
    (t.cr, t.cc, t.pending) = (0, 3, true) ∧
    posLoop R [['>'], [' '], ['a'], ['a']] ({}, 0) = ({ col := 4, row := 0 }, 0) := by
  decide

/-! ### the screen-content theorems -/

/-- what the renderer believes (`Layout`) is true of the terminal `t` that shows `(prompt, line, pos, hint)`
    — in the vocabulary of `calculate_position` -/
def C02_Consistent (S : Segmenter) (R : RCfg) (t : Term) (l : Layout) (prompt before after hint : Text) : Prop :=
  t.cols = R.cols ∧ Shows R.cw t prompt before after hint ∧
  l.cursor = calculatePosition S R (prompt ++ before) {} ∧
  l.end_ = calculatePosition S R (prompt ++ before ++ after ++ hint) {}

/-- the invariant implies the property's `Shows` -/
theorem C02_synced_shows (R : RCfg) (t : Term) (l : Layout) (prompt before after hint : Text)
    (h : C02_Synced R t l prompt before after hint) : Shows R.cw t prompt before after hint := by
  unfold Shows idealTerm
  rw [h.cols]
  exact ⟨h.canon, h.cursor, h.pending, h.ps⟩

/-- `C02_Consistent` over texts of the quantified kind is `C02_Synced` -/
theorem C02_synced_of_consistent (S : Segmenter) (R : RCfg) (hc : 2 ≤ R.cols) (t : Term) (l : Layout)
    (prompt b a h : Text) (hcons : C02_Consistent S R t l prompt b a h)
    (h1 : C02_Plain S R (prompt ++ b)) (h2 : C02_Plain S R (prompt ++ b ++ a ++ h)) :
    C02_Synced R t l prompt b a h := by
  obtain ⟨hcols, ⟨s1, s2, s3, s4⟩, hcur, hend⟩ := hcons
  have e : prompt ++ (b ++ a) ++ h = prompt ++ b ++ a ++ h := by simp [List.append_assoc]
  unfold C02_Synced
  rw [e]
  unfold idealTerm at s1
  rw [hcols] at s1 s2
  refine ⟨hcols, by rw [s1, e], s2, s3, s4, ?_, ?_, plainT_of_seg S R _ h2, ⟨a ++ h, by simp [List.append_assoc]⟩⟩
  · rw [hcur]; exact tracks_calc S R hc _ _ _ h1 (C02_blank_tracks R hc)
  · rw [hend]; exact tracks_calc S R hc _ _ _ h2 (C02_blank_tracks R hc)

theorem C02_consistent_of_synced (S : Segmenter) (R : RCfg) (hc : 2 ≤ R.cols) (t : Term) (l : Layout)
    (prompt b a h : Text) (hs : C02_Synced R t l prompt b a h)
    (h1 : C02_Plain S R (prompt ++ b)) (h2 : C02_Plain S R (prompt ++ b ++ a ++ h)) :
    C02_Consistent S R t l prompt b a h := by
  have e : prompt ++ (b ++ a) ++ h = prompt ++ b ++ a ++ h := by simp [List.append_assoc]
  refine ⟨hs.cols, C02_synced_shows R t l prompt b a h hs, ?_, ?_⟩
  · exact tracks_unique hs.cur (tracks_calc S R hc _ _ _ h1 (C02_blank_tracks R hc))
  · have := hs.end_
    rw [e] at this
    exact tracks_unique this (tracks_calc S R hc _ _ _ h2 (C02_blank_tracks R hc))

/-- **Full repaint.**  From any state in which the terminal shows what the renderer believes, the bytes of
    `refresh_line` (clear the old rows, print prompt ++ line ++ hint from the origin, own newline iff the
    wrap is pending, move up, CR, move right) lead to the terminal showing the new state — whatever was on
    the screen before, nothing of it is left. The prompt, the two halves of the line and the hint are
    measured piecewise by `compute_layout`, so each piece is of the quantified kind. -/
theorem C02_full_refresh (S : Segmenter) (R : RCfg) (t : Term) (old new : Layout)
    (prompt b a h prompt' b' a' : Text) (h' : Option Text) (dflt : Bool) (bytes : Text)
    (hc : 2 ≤ R.cols) (hs : C02_Synced R t old prompt b a h)
    (hp' : C02_Plain S R prompt') (hb' : C02_Plain S R b') (ha' : C02_Plain S R a')
    (hh' : C02_Plain S R (h'.getD []))
    (hl : computeLayout S R (calculatePosition S R prompt' {}) dflt (b' ++ a') (blen b') h' = .ok new)
    (hbytes : refreshLineBytes R prompt' (b' ++ a') h' old new = .ok bytes) :
    C02_Synced R (t.feed R.cw bytes) new prompt' b' a' (h'.getD []) := by
  have hps := tracks_calc S R hc prompt' _ _ hp' (C02_blank_tracks R hc)
  obtain ⟨_, hcur, hend⟩ := layout_tracks S R hc prompt' b' a' h' _ dflt new hps hb' ha' hh' hl
  rw [refreshLineBytes_ok hbytes]
  have hplain : PlainT (prompt' ++ (b' ++ a') ++ h'.getD []) :=
    plainT_append (plainT_append (plainT_of_seg S R _ hp')
      (plainT_append (plainT_of_seg S R _ hb') (plainT_of_seg S R _ ha'))) (plainT_of_seg S R _ hh')
  exact synced_refresh hc hs hplain ⟨a' ++ h'.getD [], by simp [List.append_assoc]⟩ hcur hend

/-- the statement in the vocabulary of `calculate_position` (the form announced in DESIGN.md), with the
    hypotheses it needs: the old text and its prefix are of the quantified kind (else the believed row count
    is not the real one, see `C02_full_refresh_needs_plain_old`), and so are the new pieces, the new prefix
    and the new text -/
theorem C02_full_refresh_consistent (S : Segmenter) (R : RCfg) (t : Term) (old new : Layout)
    (prompt b a h prompt' b' a' : Text) (h' : Option Text) (bytes : Text)
    (hc : 2 ≤ R.cols) (hcons : C02_Consistent S R t old prompt b a h)
    (ho1 : C02_Plain S R (prompt ++ b)) (ho2 : C02_Plain S R (prompt ++ b ++ a ++ h))
    (hp' : C02_Plain S R prompt') (hb' : C02_Plain S R b') (ha' : C02_Plain S R a')
    (hh' : C02_Plain S R (h'.getD []))
    (hn1 : C02_Plain S R (prompt' ++ b')) (hn2 : C02_Plain S R (prompt' ++ b' ++ a' ++ h'.getD []))
    (hl : computeLayout S R (calculatePosition S R prompt' {}) true (b' ++ a') (blen b') h' = .ok new)
    (hbytes : refreshLineBytes R prompt' (b' ++ a') h' old new = .ok bytes) :
    C02_Consistent S R (t.feed R.cw bytes) new prompt' b' a' (h'.getD []) :=
  C02_consistent_of_synced S R hc _ _ _ _ _ _
    (C02_full_refresh S R t old new prompt b a h prompt' b' a' h' true bytes hc
      (C02_synced_of_consistent S R hc t old prompt b a h hcons ho1 ho2) hp' hb' ha' hh' hl hbytes) hn1 hn2

/-- **Cursor-only move**: the text stays, the cursor goes to the new insertion point. -/
theorem C02_move_cursor (S : Segmenter) (R : RCfg) (t : Term) (l : Layout) (prompt b a h b' a' : Text)
    (hc : 2 ≤ R.cols) (hs : C02_Synced R t l prompt b a h) (hline : b ++ a = b' ++ a')
    (hpb : C02_Plain S R (prompt ++ b')) :
    C02_Synced R
      (t.feed R.cw (moveCursorBytes R l.cursor (calculatePosition S R (prompt ++ b') {})))
      { l with cursor := calculatePosition S R (prompt ++ b') {} } prompt b' a' h := by
  unfold C02_Synced at *
  rw [← hline]
  exact synced_move hc hs _ _ (tracks_calc S R hc _ _ _ hpb (C02_blank_tracks R hc))
    ⟨a' ++ h, by rw [hline]; simp [List.append_assoc]⟩

/-- the announced form; the hypotheses on the segmentation of the old and new prefix and of the text are
    needed to relate `calculate_position` to the screen -/
theorem C02_move_cursor_consistent (S : Segmenter) (R : RCfg) (t : Term) (l : Layout)
    (prompt b a h b' a' : Text) (hc : 2 ≤ R.cols) (hcons : C02_Consistent S R t l prompt b a h)
    (hline : b ++ a = b' ++ a')
    (h1 : C02_Plain S R (prompt ++ b)) (h2 : C02_Plain S R (prompt ++ b ++ a ++ h))
    (h1' : C02_Plain S R (prompt ++ b')) :
    C02_Consistent S R
      (t.feed R.cw (moveCursorBytes R l.cursor (calculatePosition S R (prompt ++ b') {})))
      { l with cursor := calculatePosition S R (prompt ++ b') {} } prompt b' a' h := by
  have e : prompt ++ b' ++ a' ++ h = prompt ++ b ++ a ++ h := by
    simp only [List.append_assoc]; rw [← List.append_assoc b' a', ← hline]; simp [List.append_assoc]
  exact C02_consistent_of_synced S R hc _ _ _ _ _ _
    (C02_move_cursor S R t l prompt b a h b' a' hc
      (C02_synced_of_consistent S R hc t l prompt b a h hcons h1 h2) hline h1') h1' (by rw [e]; exact h2)

/-- **Fast path = full refresh**: under the guard of `edit_insert`, writing the one character gives the
    screen (and the believed layout) a full repaint of `prompt ++ line ++ [ch]` would give. -/
theorem C02_fast_path (R : RCfg) (t : Term) (l : Layout) (prompt b : Text) (ch : Char) (n : Nat)
    (hint : Option Text) (nph hl : Bool)
    (hc : 2 ≤ R.cols) (hs : C02_Synced R t l prompt b [] [])
    (hguard : fastPathGuard R l ch n hint nph hl = true) (hch : isC0Control ch = false) :
    C02_Synced R (t.feed R.cw [ch])
      { l with cursor := { l.cursor with col := l.cursor.col + R.cw ch },
               end_ := { l.end_ with col := l.end_.col + R.cw ch } } prompt (b ++ [ch]) [] [] := by
  unfold fastPathGuard at hguard
  simp only [Bool.and_eq_true, decide_eq_true_eq, bne_iff_ne, ne_eq] at hguard
  obtain ⟨⟨⟨⟨_, hw⟩, hlt⟩, _⟩, _⟩ := hguard
  unfold C02_Synced at *
  simp only [List.append_nil] at hs ⊢
  rw [← List.append_assoc]
  exact synced_fast hc ch hs hch hw hlt

/-- the announced form (`Shows` of the new state from `C02_Consistent` of the old one); the one added
    hypothesis is that the old text is of the quantified kind as well -/
theorem C02_fast_path_shows (S : Segmenter) (R : RCfg) (t : Term) (l : Layout) (prompt b : Text) (ch : Char)
    (hc : 2 ≤ R.cols) (hcons : C02_Consistent S R t l prompt b [] [])
    (hguard : fastPathGuard R l ch 1 none true false = true)
    (hplain : C02_Plain S R (prompt ++ b ++ [ch])) (hold : C02_Plain S R (prompt ++ b)) :
    Shows R.cw (t.feed R.cw [ch]) prompt (b ++ [ch]) [] [] := by
  have hs := C02_synced_of_consistent S R hc t l prompt b [] [] hcons hold (by simpa using hold)
  have hpc : PlainC ch := plainT_of_seg S R _ hplain ch (by simp)
  rcases hpc with hnl | hch
  · subst hnl
    have hlt : l.cursor.col < R.cols := by
      unfold fastPathGuard at hguard
      simp only [Bool.and_eq_true, decide_eq_true_eq] at hguard
      omega
    have hs' : Synced R t l (prompt ++ b) (prompt ++ b) := by simpa [C02_Synced] using hs
    have hg : ((Term.blank R.cols).feed R.cw (prompt ++ b)).ps = .ground := hs'.cur.2.1
    have hv := vrel_step R.cw (synced_vrel hs' hlt) '\n' (Or.inl rfl)
    have hid : ((Term.blank R.cols).feed R.cw (prompt ++ b)).step R.cw '\n' =
        (Term.blank R.cols).feed R.cw (prompt ++ (b ++ ['\n'])) := by
      rw [← List.append_assoc, Term.feed_append R.cw _ (prompt ++ b) ['\n']]; rfl
    have hnp : ((Term.blank R.cols).feed R.cw (prompt ++ (b ++ ['\n']))).pending = false := by
      rw [← hid, step_newline _ _ hg]
    have hcols : (t.feed R.cw ['\n']).cols = R.cols := by
      have := hv.cols
      rw [step_newline _ _ hg] at this
      exact this.trans hs'.cur.1
    rw [hid] at hv
    unfold Shows idealTerm insertionPoint
    rw [hcols]
    simp only [List.append_nil]
    refine ⟨hv.canon, ?_, hv.pending.trans hnp, hv.ps1⟩
    simp only [hnp, Bool.false_eq_true, if_false]
    rw [← hv.cr, ← hv.cc]; rfl
  · exact C02_synced_shows R _ _ prompt (b ++ [ch]) [] []
      (C02_fast_path R t l prompt b ch 1 none true false hc hs hguard hch)

/-- **On return, full statement**: the last `move_cursor` to the end of the buffer plus the final newline
    lead from any consistent state to "column 0 of a row below every row of the text". -/
theorem C02_final_full (S : Segmenter) (R : RCfg) (t : Term) (l : Layout) (prompt b a h : Text)
    (hc : 2 ≤ R.cols) (hs : C02_Synced R t l prompt b a h) (hp : C02_Plain S R (prompt ++ b ++ a)) :
    (t.feed R.cw (moveCursorBytes R l.cursor (calculatePosition S R (prompt ++ b ++ a) {}) ++ ['\n'])).cc = 0 ∧
    (t.feed R.cw (moveCursorBytes R l.cursor (calculatePosition S R (prompt ++ b ++ a) {}) ++ ['\n'])).pending = false ∧
    (t.feed R.cw (moveCursorBytes R l.cursor (calculatePosition S R (prompt ++ b ++ a) {}) ++ ['\n'])).cr >
      ((Term.blank R.cols).feed R.cw (prompt ++ b ++ a)).cr := by
  have hm := C02_move_cursor S R t l prompt b a h (b ++ a) [] hc hs (by simp)
    (by rw [← List.append_assoc]; exact hp)
  rw [← List.append_assoc] at hm
  have hshow := C02_synced_shows R _ _ prompt (b ++ a) [] h hm
  have hcols := hm.cols
  rw [Term.feed_append]
  generalize t.feed R.cw (moveCursorBytes R l.cursor (calculatePosition S R (prompt ++ b ++ a) {})) = t1 at *
  obtain ⟨_, hcur, _, hps⟩ := hshow
  have hstep : t1.feed R.cw ['\n'] = { t1 with cr := t1.cr + 1, cc := 0, pending := false } :=
    step_newline R.cw t1 hps
  rw [hstep]
  refine ⟨rfl, rfl, ?_⟩
  unfold insertionPoint at hcur
  rw [hcols, ← List.append_assoc] at hcur
  simp only [] at hcur
  split at hcur
  · have := (Prod.mk.inj hcur).1
    show t1.cr + 1 > _
    omega
  · have := (Prod.mk.inj hcur).1
    show t1.cr + 1 > _
    omega

/-! ### the statements announced earlier are false as written: refutations

  `C02_Consistent` relates the believed positions to the screen through `calculate_position` of the *whole*
  text, which is right only on clusters of the quantified kind (`PlainG`); the statements below do not ask
  that of the old text (nor of the prefix before the cursor, which an arbitrary lawful segmenter may cut
  differently from the whole).  With a width table whose cluster widths are 0 the renderer believes the text
  occupies one row while it occupies two.  The history statement lets the final callback carry a state that
  was never rendered (and, read strictly, forbids the hint-less repaint of a highlight-forced cursor move). -/

/-- one character per cluster -/
def C02_cexSeg : Segmenter := Segmenter.ofGroup (fun (_ : Unit) _ => false) (fun s _ => s) (fun _ => ())
/-- a width table whose cluster widths are not the widths of the characters -/
def C02_cexR : RCfg := { cols := 2, gw := fun _ => 0, cw := fun _ => 1 }
/-- `aaa` on two columns (two rows), cursor at the origin -/
def C02_cexT : Term := { (Term.blank 2).feed C02_cexR.cw ['a', 'a', 'a'] with cr := 0, cc := 0, pending := false }

def C02_full_refresh_statement : Prop :=
  ∀ (S : Segmenter) (R : RCfg) (t : Term) (old new : Layout) (prompt b a h prompt' b' a' : Text)
    (h' : Option Text) (bytes : Text),
    2 ≤ R.cols → C02_Consistent S R t old prompt b a h →
    C02_Plain S R (prompt' ++ b' ++ a' ++ h'.getD []) →
    computeLayout S R (calculatePosition S R prompt' {}) true (b' ++ a') (blen b') h' = .ok new →
    refreshLineBytes R prompt' (b' ++ a') h' old new = .ok bytes →
    C02_Consistent S R (t.feed R.cw bytes) new prompt' b' a' (h'.getD [])

theorem C02_full_refresh_statement_false : ¬ C02_full_refresh_statement := by
  intro h
  have := h C02_cexSeg C02_cexR C02_cexT {} { defaultPrompt := true } [] [] ['a', 'a', 'a'] [] [] [] [] none
    ['\r', '\x1b', '[', 'K', '\r'] (by decide)
    ⟨rfl, ⟨by decide, by decide, rfl, rfl⟩, by decide, by decide⟩
    (by intro g hg; cases hg) rfl rfl
  exact absurd this.2.1.1 (by decide)

def C02_move_cursor_statement : Prop :=
  ∀ (S : Segmenter) (R : RCfg) (t : Term) (l : Layout) (prompt b a h b' a' : Text),
    2 ≤ R.cols → C02_Consistent S R t l prompt b a h → b ++ a = b' ++ a' →
    C02_Consistent S R
      (t.feed R.cw (moveCursorBytes R l.cursor (calculatePosition S R (prompt ++ b') {})))
      { l with cursor := calculatePosition S R (prompt ++ b') {} } prompt b' a' h

theorem C02_move_cursor_statement_false : ¬ C02_move_cursor_statement := by
  intro h
  have := h C02_cexSeg C02_cexR
    { (Term.blank 2).feed C02_cexR.cw ['a', 'b'] with cr := 0, cc := 0, pending := false } {}
    [] [] ['a', 'b'] [] ['a'] ['b'] (by decide)
    ⟨rfl, ⟨by decide, by decide, rfl, rfl⟩, by decide, by decide⟩ rfl
  exact absurd this.2.1.2.1 (by decide)

def C02_final_statement : Prop :=
  ∀ (S : Segmenter) (R : RCfg) (t : Term) (l : Layout) (prompt b a h : Text),
    2 ≤ R.cols → C02_Consistent S R t l prompt b a h →
    let t' := t.feed R.cw (moveCursorBytes R l.cursor (calculatePosition S R (prompt ++ b ++ a) {}) ++ ['\n'])
    t'.cc = 0 ∧ t'.pending = false ∧ t'.cr > ((Term.blank R.cols).feed R.cw (prompt ++ b ++ a)).cr

theorem C02_final_statement_false : ¬ C02_final_statement := by
  intro h
  have := h C02_cexSeg C02_cexR C02_cexT {} [] [] ['a', 'a', 'a'] [] (by decide)
    ⟨rfl, ⟨by decide, by decide, rfl, rfl⟩, by decide, by decide⟩
  exact absurd this.2.2 (by decide)

def C02_history_statement : Prop :=
  ∀ (S : Segmenter) (R : RCfg) (prompt : Text) (ops : List RenderOp) (line : Text) (pos : Nat)
    (hint : Option Text) (b a : Text),
    2 ≤ R.cols → splitAtByte line pos = some (b, a) →
    (RS.run S R prompt (RS.init S R prompt) (ops ++ [.sync line pos hint])).2 = false →
    let rs := (RS.run S R prompt (RS.init S R prompt) (ops ++ [.sync line pos hint])).1
    Shows R.cw ((Term.blank R.cols).feed R.cw rs.segs.reverse.flatten) prompt b a (hint.getD [])

theorem C02_history_statement_false : ¬ C02_history_statement := by
  intro h
  have := h C02_cexSeg C02_cexR [] [] ['a'] 0 none [] ['a'] (by decide) rfl rfl
  exact absurd this.1 (by decide)

/-- a lawful segmenter that does not commute with taking prefixes: a text of two characters is one cluster -/
def C02_cexSeg2 : Segmenter where
  seg t := if t.length = 2 then [t] else t.map (fun c => [c])
  flatten_eq t := by
    have key : ∀ u : Text, (u.map (fun c => [c])).flatten = u := by
      intro u
      induction u with
      | nil => rfl
      | cons c u ih => simp [ih]
    split
    · simp
    · exact key t
  ne_nil t g hg := by
    split at hg
    · simp at hg; subst hg; intro h; subst h; simp at *
    · simp at hg; obtain ⟨c, _, rfl⟩ := hg; simp

def C02_cexR2 : RCfg := { cols := 3, gw := fun g => if g.length = 2 then 0 else 1, cw := fun _ => 1 }

def C02_fast_path_statement : Prop :=
  ∀ (S : Segmenter) (R : RCfg) (t : Term) (l : Layout) (prompt b : Text) (ch : Char),
    2 ≤ R.cols → C02_Consistent S R t l prompt b [] [] →
    fastPathGuard R l ch 1 none true false = true → C02_Plain S R (prompt ++ b ++ [ch]) →
    Shows R.cw (t.feed R.cw [ch]) prompt (b ++ [ch]) [] []

theorem C02_fast_path_statement_false : ¬ C02_fast_path_statement := by
  intro h
  have := h C02_cexSeg2 C02_cexR2 ((Term.blank 3).feed C02_cexR2.cw ['a', 'b']) {} [] ['a', 'b'] 'c' (by decide)
    ⟨rfl, ⟨by decide, by decide, rfl, rfl⟩, by decide, by decide⟩ (by decide)
    (by
      intro g hg
      have : g = ['a'] ∨ g = ['b'] ∨ g = ['c'] := by simpa [C02_cexSeg2] using hg
      rcases this with rfl | rfl | rfl <;>
        exact Or.inr ⟨_, [], rfl, by decide, by simp, by decide, by decide⟩)
  exact absurd this.2.2.1 (by decide)

/-! ### composition over histories

  The render log (`RenderOp`) is replayed by `RS.run`; next to it runs a ghost state `C02_Shown`: what the
  screen is meant to show after each operation (`C02_next`).  `C02_StepOK` lists what the theorem needs of
  each operation: texts of the quantified kind, and that the operation is issued in the situation the editor
  issues it in (a cursor-only move for the line that is displayed under the read's own prompt; the fast
  path only at the end of a line without hint; no output after the final newline). -/

theorem C02_inv_refresh (S : Segmenter) (R : RCfg) (prompt : Text) (hc : 2 ≤ R.cols) (s s' : RS) (g : C02_Shown)
    (hinv : C02_Inv S R prompt s g) (p : Text) (dflt : Bool) (line : Text) (pos : Nat) (info : Option Text)
    (hp : C02_Plain S R p) (hsplit : C02_PlainSplit S R line pos info)
    (h : s.refresh S R p (calculatePosition S R p {}) dflt line pos info = .ok s') :
    ∃ b a, splitAtByte line pos = some (b, a) ∧ C02_Inv S R prompt s' ⟨p, b, a, info.getD []⟩ :=
  Rl.inv_refresh S R prompt hc s s' g hinv p dflt line pos info hp hsplit h

theorem C02_inv_step (S : Segmenter) (R : RCfg) (prompt : Text) (hc : 2 ≤ R.cols)
    (hprompt : C02_Plain S R prompt) (s s' : RS) (g : C02_Shown) (op : RenderOp)
    (hinv : C02_Inv S R prompt s g) (hok : C02_StepOK S R prompt s g op)
    (happ : s.apply S R prompt op = .ok s') :
    C02_Inv S R prompt s' (C02_next S R prompt s g op) :=
  Rl.inv_step S R prompt hc hprompt s s' g op hinv hok happ

theorem C02_history_aux (S : Segmenter) (R : RCfg) (prompt : Text) (hc : 2 ≤ R.cols)
    (hprompt : C02_Plain S R prompt) (line : Text) (pos : Nat) (hint : Option Text) :
    ∀ (ops : List RenderOp) (s : RS) (g : C02_Shown), C02_Inv S R prompt s g →
      C02_Coherent S R prompt s g (ops ++ [.sync line pos hint]) →
      (RS.run S R prompt s (ops ++ [.sync line pos hint])).2 = false →
      ∃ g', C02_Inv S R prompt (RS.run S R prompt s (ops ++ [.sync line pos hint])).1 g' ∧
        (g'.prompt = prompt ∨ C02_IsSearchPrompt g'.prompt) ∧ splitAtByte line pos = some (g'.before, g'.after) ∧
        (g'.hint = hint.getD [] ∨ g'.hint = []) ∧
        (RS.run S R prompt s (ops ++ [.sync line pos hint])).1.out = [] := by
  intro ops
  induction ops with
  | nil =>
    intro s g hinv hcoh _
    have happ : s.apply S R prompt (.sync line pos hint) = .ok { s with out := [], segs := s.out :: s.segs } := rfl
    obtain ⟨hok, _⟩ := hcoh
    have hinv' := C02_inv_step S R prompt hc hprompt s _ g _ hinv hok happ
    have hrun : RS.run S R prompt s ([] ++ [RenderOp.sync line pos hint]) =
        ({ s with out := [], segs := s.out :: s.segs }, false) := rfl
    rw [hrun]
    exact ⟨g, hinv', hok.1, hok.2.1, hok.2.2, rfl⟩
  | cons op ops ih =>
    intro s g hinv hcoh hrun
    obtain ⟨hok, hrest⟩ := hcoh
    simp only [List.cons_append, RS.run] at hrun ⊢
    cases happ : s.apply S R prompt op with
    | error e => rw [happ] at hrun; simp at hrun
    | ok s' =>
      rw [happ] at hrun hrest
      simp only [] at hrun hrest ⊢
      exact ih s' _ (C02_inv_step S R prompt hc hprompt s s' g op hinv hok happ) hrest hrun

/-- **Composition over histories.**  For every render log that the replay accepts without panic and whose
    operations are issued coherently (`C02_Coherent`), at every callback (`sync`) the terminal that has
    interpreted all bytes written so far shows the prompt on display — the read's own, or inside an incremental
    search the search prompt —, the line and the cursor the callback sees, with the hint the callback sees or
    without any hint (the reading decision of `Rl/Spec/Screen.lean`: a highlight-forced repaint drops the hint
    from the screen, not from the editor). -/
theorem C02_history (S : Segmenter) (R : RCfg) (prompt : Text) (ops : List RenderOp) (line : Text) (pos : Nat)
    (hint : Option Text) (b a : Text) (hc : 2 ≤ R.cols) (hprompt : C02_Plain S R prompt)
    (hsplit : splitAtByte line pos = some (b, a))
    (hcoh : C02_Coherent S R prompt (RS.init S R prompt) {} (ops ++ [.sync line pos hint]))
    (hrun : (RS.run S R prompt (RS.init S R prompt) (ops ++ [.sync line pos hint])).2 = false) :
    ∃ p, (p = prompt ∨ C02_IsSearchPrompt p) ∧
      (Shows R.cw ((Term.blank R.cols).feed R.cw
          (RS.run S R prompt (RS.init S R prompt) (ops ++ [.sync line pos hint])).1.segs.reverse.flatten)
        p b a (hint.getD []) ∨
       Shows R.cw ((Term.blank R.cols).feed R.cw
          (RS.run S R prompt (RS.init S R prompt) (ops ++ [.sync line pos hint])).1.segs.reverse.flatten)
        p b a []) := by
  have hb := C02_blank_tracks R hc
  have hinit : C02_Inv S R prompt (RS.init S R prompt) {} :=
    ⟨⟨rfl, rfl, rfl, rfl, rfl, hb, hb, (by intro x hx; cases hx), ⟨[], rfl⟩⟩, rfl⟩
  obtain ⟨g', hinv, hp, hs, hh, hout⟩ :=
    C02_history_aux S R prompt hc hprompt line pos hint ops _ _ hinit hcoh hrun
  have hshow := C02_synced_shows R _ _ _ _ _ _ hinv.synced
  rw [hsplit] at hs
  injection hs with hs
  injection hs with e1 e2
  have hall : RS.all (RS.run S R prompt (RS.init S R prompt) (ops ++ [.sync line pos hint])).1 =
      (RS.run S R prompt (RS.init S R prompt) (ops ++ [.sync line pos hint])).1.segs.reverse.flatten := by
    unfold RS.all; rw [hout]; simp
  rw [hall, ← e1, ← e2] at hshow
  refine ⟨g'.prompt, hp, ?_⟩
  rcases hh with hh | hh
  · left; rw [← hh]; exact hshow
  · right; rw [← hh]; exact hshow

/-! ### non-vacuity of the composition theorem -/

def C02_exR : RCfg := { cols := 4, gw := fun _ => 1, cw := fun _ => 1 }

theorem C02_exPlain (s : Text) (hs : ∀ c ∈ s, isC0Control c = false) : C02_Plain C02_cexSeg C02_exR s := by
  intro g hg
  have hflat : ∀ (u : Text) (g : Text), g ∈ C02_cexSeg.seg u → ∃ c, c ∈ u ∧ g = [c] := by
    intro u
    show ∀ g, g ∈ group _ _ _ u → _
    cases u with
    | nil => intro g hg; cases hg
    | cons c u =>
      simp only [group]
      induction u generalizing c with
      | nil => intro g hg; simp [groupGo] at hg; exact ⟨c, by simp, hg⟩
      | cons d u ih =>
        intro g hg
        simp [groupGo] at hg
        rcases hg with rfl | hg
        · exact ⟨c, by simp, rfl⟩
        · obtain ⟨x, hx, rfl⟩ := ih d g hg
          exact ⟨x, by simp at hx ⊢; rcases hx with h | h <;> simp [h], rfl⟩
  obtain ⟨c, hc, rfl⟩ := hflat s g hg
  exact Or.inr ⟨c, [], rfl, hs c hc, by simp, rfl, by show 1 ≤ 4; omega⟩

/-- non-vacuity of `C02_history`: the log "repaint `>a` with the cursor at the end, callback" is coherent,
    runs without panic, and the theorem yields that the screen shows `>a` -/
example :
    ∃ p, (p = ['>'] ∨ C02_IsSearchPrompt p) ∧ Shows C02_exR.cw ((Term.blank C02_exR.cols).feed C02_exR.cw
        (RS.run C02_cexSeg C02_exR ['>'] (RS.init C02_cexSeg C02_exR ['>'])
          ([.refresh none ['a'] 1 none] ++ [.sync ['a'] 1 none])).1.segs.reverse.flatten)
      p ['a'] [] [] := by
  have hp : ∀ s : Text, (∀ c ∈ s, isC0Control c = false) → C02_Plain C02_cexSeg C02_exR s := C02_exPlain
  have := C02_history C02_cexSeg C02_exR ['>'] [.refresh none ['a'] 1 none] ['a'] 1 none ['a'] []
    (by decide) (hp _ (by decide)) rfl
    ⟨⟨hp _ (by decide), by
        intro b a hs
        have : b = ['a'] ∧ a = [] := by
          have h : splitAtByte ['a'] 1 = some (['a'], []) := rfl
          rw [h] at hs; injection hs with hs; injection hs with h1 h2; exact ⟨h1.symm, h2.symm⟩
        obtain ⟨rfl, rfl⟩ := this
        exact ⟨hp _ (by decide), hp _ (by decide), hp _ (by decide)⟩⟩,
      ⟨Or.inl rfl, rfl, Or.inl rfl⟩, trivial⟩ rfl
  simpa using this

/-! ### the editor model's own log

  `Rl/Lemmas/RenderLog*.lean`: the log `Ed.render` the editor model writes is replayed next to the editor state
  (`LogInv`: the renderer's believed cursor is the model's `layoutCursor`; `Sh`: the screen shows the read's own
  prompt, the current line and cursor, with the current hint or none).  Proved: `Sh` is established by the first
  repaint and kept by every logging primitive (`refreshLine`, `refreshLineWithMsg`, `moveCursor` in its three ways,
  `editInsert` on the fast and the slow path, the callback), by reading and decoding a command in emacs and vi mode
  (numeric-argument prompts included), by every command of `execute`, by completion (circular and listing), by
  incremental search (inside it `ShA`: the search prompt is the prompt on display; every way out repaints under the
  own prompt since the repair of D42), by the dispatch loop and the main loop; that the line-buffer operations are
  faithful (`LBFaithful`: "reports no change ⇒ changed nothing") is `C02_lbFaithful`.  Each obligation of `C02_StepOK`
  is discharged where the operation is logged; no replay step panics. -/

/-- "The line-buffer operations are faithful" (`LBFaithful`, `Rl/Lemmas/RenderLogExec.lean`): a motion leaves the
    text alone and answers `false` only if the cursor did not move; an edit that answers "nothing changed"
    (`false` / `None`) changed neither text nor cursor — for `yank`, from every state; an `Undo` that undid nothing
    left the line alone.  Statements about `Rl/LineBuffer.lean` / `Rl/Undo.lean` alone. -/
def C02_lbFaithful_statement : Prop := ∀ (S : Segmenter) (U : UData), LBFaithful S U

/-- … a theorem since the repairs of D44 (`yank_pop` asks before it removes) and D45 (`edit_yank` restores the
    cursor it saved, so nothing is asked of a step back any more): the eleven motions, `kill` for every movement,
    `transpose_chars`, `edit_word`, `transpose_words`, `indent`, `yank`, `yank_pop`, `delete` and
    `Changeset::undo`, for every segmenter and every Unicode data (`Rl/Lemmas/LBFaithful.lean`). -/
theorem C02_lbFaithful : C02_lbFaithful_statement := fun S U => lbFaithful S U

/-- the width table gives control characters the width 0 (`unicode-width` does; it is what keeps control characters
    off the fast path of `edit_insert`) -/
def C02_CtlZero (U : UData) : Prop := ∀ c, isC0Control c = true → U.cwidth c = 0

/-- the render log of a read, oldest first, without the `writeln` that follows `readline_edit` -/
def C02_editorLog (S : Segmenter) (U : UData) (cfg : EdCfg) (ring : KillRing) (left right : Text) (inp : Input) :
    List RenderOp :=
  (readline S U cfg ring left right inp).2.render.tail.reverse

/-- **Every cursor the editor model logs is on a character boundary of the logged line** — derived from the
    line-buffer invariant (`BdI`: `WF s.line ∧ WF s.saved ∧ LogBd s.render`, a step invariant carried through every
    rendering primitive, both key maps, every command of `execute`, circular and listing completion, incremental
    search, the dispatch loop, the main loop and the initial text: `Rl/Lemmas/RenderLogBd*.lean`, with C03's
    totality theorems and package L's `lmsafe_*` per operation, C09 for search positions).  Hypotheses: the indent
    size fits the code's `u8` — nothing else: that `yank_pop` / the undo log leave the cursor on a boundary whenever
    they return is `C02_popUndoWF` (`Rl/Lemmas/PopUndoWF.lean`).  No contract on the
    completer, validator, hinter or bindings is needed: `replace` slices at both ends, so it either panics or leaves a
    well-formed cursor. -/
theorem C02_logBd (S : Segmenter) (U : UData) (cfg : EdCfg) (ring : KillRing) (left right : Text) (inp : Input)
    (hind : cfg.indentSize ≤ 255) :
    LogBd (C02_editorLog S U cfg ring left right inp).reverse := by
  unfold C02_editorLog
  rw [List.reverse_reverse]
  exact readline_logBd hind yankPopWF undoWF ring left right inp

/-- **The editor model's log is coherent and replays without panic**, for logs whose texts are of the
    quantified kind (`LogPlain`: a restriction on what is typed, stored, completed and hinted) and whose cursors are
    on character boundaries (`LogBd`: the line-buffer invariant of C03 / C17 at the moments the renderer is called;
    see `C02_logBd_statement`). -/
theorem C02_editor_log_coherent (S : Segmenter) (U : UData) (cfg : EdCfg) (ring : KillRing) (left right : Text)
    (inp : Input) (hc : 2 ≤ cfg.cols) (hprompt : C02_Plain S (edR U cfg) cfg.prompt)
    (hctl : C02_CtlZero U)
    (hplain : LogPlain S (edR U cfg) cfg.prompt (C02_editorLog S U cfg ring left right inp).reverse)
    (hind : cfg.indentSize ≤ 255) :
    ∃ rs g, RepFrom S (edR U cfg) cfg.prompt (RS.init S (edR U cfg) cfg.prompt) {}
        (C02_editorLog S U cfg ring left right inp) rs g ∧
      C02_Coherent S (edR U cfg) cfg.prompt (RS.init S (edR U cfg) cfg.prompt) {}
        (C02_editorLog S U cfg ring left right inp) ∧
      RS.run S (edR U cfg) cfg.prompt (RS.init S (edR U cfg) cfg.prompt)
        (C02_editorLog S U cfg ring left right inp) = (rs, false) := by
  have hbd := C02_logBd S U cfg ring left right inp hind
  have hfine := (logFine_iff S (edR U cfg) cfg.prompt _).2 ⟨hplain, hbd⟩
  have hlb : LBFaithful S U := C02_lbFaithful S U
  have hnext := fun fuel sea iep => pres_nextCmd (S := S) (U := U) (cfg := cfg) hc hprompt fuel sea iep
  have hw := readline_prog_logOK hc hprompt hnext (fun fuel => pres_completeLine hc hprompt hlb hnext fuel) hctl
    (fun cmd => pres_execute hc hprompt hlb hctl cmd) ring left right inp
  unfold C02_editorLog readline at *
  simp only [List.reverse_reverse] at hfine
  unfold wp at hw
  split at hw
  next a s' heq =>
    simp only [heq, List.tail_cons] at hfine ⊢
    obtain ⟨rs, g, hrep⟩ := hw hfine
    exact ⟨rs, g, hrep, hrep.coherent.1, hrep.coherent.2⟩
  next o s' heq =>
    simp only [heq, List.tail_cons] at hfine ⊢
    obtain ⟨rs, g, hrep⟩ := hw hfine
    exact ⟨rs, g, hrep, hrep.coherent.1, hrep.coherent.2⟩

/-- **At every callback of the model's own log the emulated terminal shows the prompt on display (the read's own,
    or inside an incremental search the search prompt), line and cursor** (with the
    hint the callback sees or without any hint): `C02_history` applied to the log the editor model produces. -/
theorem C02_editor_shows (S : Segmenter) (U : UData) (cfg : EdCfg) (ring : KillRing) (left right : Text)
    (inp : Input) (hc : 2 ≤ cfg.cols) (hprompt : C02_Plain S (edR U cfg) cfg.prompt)
    (hctl : C02_CtlZero U)
    (hplain : LogPlain S (edR U cfg) cfg.prompt (C02_editorLog S U cfg ring left right inp).reverse)
    (hind : cfg.indentSize ≤ 255)
    (ops rest : List RenderOp) (line : Text) (pos : Nat) (hint : Option Text) (b a : Text)
    (hlog : C02_editorLog S U cfg ring left right inp = (ops ++ [.sync line pos hint]) ++ rest)
    (hsplit : splitAtByte line pos = some (b, a)) :
    ∃ p, (p = cfg.prompt ∨ C02_IsSearchPrompt p) ∧
      (Shows (edR U cfg).cw ((Term.blank (edR U cfg).cols).feed (edR U cfg).cw
          (RS.run S (edR U cfg) cfg.prompt (RS.init S (edR U cfg) cfg.prompt)
            (ops ++ [.sync line pos hint])).1.segs.reverse.flatten) p b a (hint.getD []) ∨
       Shows (edR U cfg).cw ((Term.blank (edR U cfg).cols).feed (edR U cfg).cw
          (RS.run S (edR U cfg) cfg.prompt (RS.init S (edR U cfg) cfg.prompt)
            (ops ++ [.sync line pos hint])).1.segs.reverse.flatten) p b a []) := by
  obtain ⟨rs, g, hrep, _, _⟩ := C02_editor_log_coherent S U cfg ring left right inp hc hprompt hctl hplain hind
  rw [hlog] at hrep
  obtain ⟨rs1, g1, h1⟩ := hrep.prefix
  have hco := h1.coherent
  exact C02_history S (edR U cfg) cfg.prompt ops line pos hint b a hc hprompt hsplit hco.1 (by rw [hco.2])

/-- not proved yet: **the cursor half follows from the line-buffer invariant** — under the helper contracts of C17
    (validator and hinter do not panic, the completer reports a start on a character boundary at or before the
    cursor, `indentSize ≤ 255`, a stable segmenter, acceptable bindings) every cursor the editor model logs is on a
    character boundary.  Proved so far (`Rl/Lemmas/RenderLogBd.lean`): `BdI` (`WF s.line` and `LogBd s.render`) is a
    step invariant of every rendering primitive and of `next_cmd` in both modes (`bdp_nextCmd`).  Missing: the same
    for the line-buffer steps of `execute` and of the sub-loops.  Package L's `RdInv` / `safe_mainLoop` / `ExecSafe`
    give `WF s.line` where a command or a loop *returns*; a log entry records the line at the moment the renderer is
    called, which is in the middle of a command (`edit_kill`: kill, then repaint) and of a loop iteration
    (completion: replace, repaint, read a key, …), so the invariant has to be carried through those bodies again
    (with `LMSafe` per operation and the contextual facts — completer contract, search positions, saved line —
    as in `Lemmas/EditorSafe*.lean` / `EditorRead.lean`), and `Undo` / `YankPop` need L's open cross-step invariant
    `J` (`C17_Open`). -/
def C02_logBd_statement : Prop :=
  ∀ (S : Segmenter) (U : UData) (cfg : EdCfg) (left right : Text) (inp : Input),
    (∀ t, cfg.validator t ≠ .panic) → cfg.hinterPanicAt = none →
    (∀ t p, IsBoundary t (cfg.completer t p).1 ∧ (cfg.completer t p).1 ≤ p) →
    cfg.indentSize ≤ 255 → S.Stable → BindsI cfg →
    (readline S U cfg (KillRing.new 60) left right inp).1 ≠ .panic →
    LogBd (C02_editorLog S U cfg (KillRing.new 60) left right inp).reverse

/-- what `C02_logBd` needed of `yank_pop` and of the undo log — whenever they return (anything but a panic), the
    cursor of the line is on a character boundary.  `yank_pop` removes the last yank by slicing (`drain` → `split3`,
    which panics off a boundary) and then pastes with `yank`; `Changeset::undo` replays recorded edits with the
    slicing primitives.  Statements about `Rl/LineBuffer.lean` / `Rl/Undo.lean` alone. -/
def C02_popUndoWF_statement : Prop := ∀ (S : Segmenter) (U : UData), YankPopWF S U ∧ UndoWF S U

/-- … a theorem (`Rl/Lemmas/PopUndoWF.lean`): for `yank_pop`, C03's totality theorem inside its contract, and outside
    it either the refusal that returns the line unchanged or the panic of `split3`; for `undo`, package L's
    `undoLoop_wf_grow`. -/
theorem C02_popUndoWF : C02_popUndoWF_statement := fun _ _ => ⟨yankPopWF, undoWF⟩

/-- the round-4 target, with C17's helper contracts: a corollary of `C02_logBd`, which needs none of them but the
    indent size (the def is kept for the record of what was aimed at) -/
theorem C02_logBd_with_contracts : C02_logBd_statement :=
  fun S U cfg left right inp _ _ _ hind _ _ _ => C02_logBd S U cfg (KillRing.new 60) left right inp hind

/-! ### the text half at character level

  `LogPlain` speaks of how each logged piece is segmented; over an alphabet `A` on which the cell arithmetic is
  right (`AlphaPlain S R A`: every text over `A` segments into clusters of the quantified kind) it follows from
  `LogAlpha A`: every logged prompt, line and hint is written over `A` — a statement about which characters reach the
  screen, with no segmenter in it (`logPlain_of_alpha`).  That the characters that reach the screen are those of the
  inputs (typed, pasted, stored, completed, hinted, the kill ring carried over, case mappings, the blanks of
  `indent`) is not proved: it is a character-level closure invariant over the line, the saved line, the kill ring and
  the undo log through every line-buffer operation, and a statement about which characters the key maps put into the
  commands they return. -/

/-- `C02_editor_shows` with the text hypotheses at character level: an alphabet on which the cell arithmetic is right,
    a prompt and a log written over it -/
theorem C02_editor_shows_alpha (S : Segmenter) (U : UData) (cfg : EdCfg) (ring : KillRing) (left right : Text)
    (inp : Input) (A : Char → Bool) (hc : 2 ≤ cfg.cols) (hA : AlphaPlain S (edR U cfg) A)
    (hprompt : OverA A cfg.prompt) (hctl : C02_CtlZero U)
    (hlog : LogAlpha A cfg.prompt (C02_editorLog S U cfg ring left right inp).reverse)
    (hind : cfg.indentSize ≤ 255)
    (ops rest : List RenderOp) (line : Text) (pos : Nat) (hint : Option Text) (b a : Text)
    (hsync : C02_editorLog S U cfg ring left right inp = (ops ++ [.sync line pos hint]) ++ rest)
    (hsplit : splitAtByte line pos = some (b, a)) :
    ∃ p, (p = cfg.prompt ∨ C02_IsSearchPrompt p) ∧
      (Shows (edR U cfg).cw ((Term.blank (edR U cfg).cols).feed (edR U cfg).cw
          (RS.run S (edR U cfg) cfg.prompt (RS.init S (edR U cfg) cfg.prompt)
            (ops ++ [.sync line pos hint])).1.segs.reverse.flatten) p b a (hint.getD []) ∨
       Shows (edR U cfg).cw ((Term.blank (edR U cfg).cols).feed (edR U cfg).cw
          (RS.run S (edR U cfg) cfg.prompt (RS.init S (edR U cfg) cfg.prompt)
            (ops ++ [.sync line pos hint])).1.segs.reverse.flatten) p b a []) :=
  C02_editor_shows S U cfg ring left right inp hc (hA _ hprompt) hctl (logPlain_of_alpha hA hlog) hind
    ops rest line pos hint b a hsync hsplit

/-- non-vacuity of `AlphaPlain`: for the one-character-per-cluster segmenter and a width table of width 1, every
    text without control characters is of the quantified kind -/
example : AlphaPlain C02_cexSeg C02_exR (fun c => !isC0Control c) :=
  fun t ht => C02_exPlain t (fun c hc => by simpa using ht c hc)

/-- **The line buffer stays inside the alphabet** (`Rl/Lemmas/AlphaLM.lean`, first stage of "inputs over `A` ⇒
    `LogAlpha`"): from a buffer written over `A`, whenever the operation returns, the new buffer is over `A`, and so
    is every text it answers and every text it notifies (what reaches the undo log and the kill ring) — for the
    insertions (given a character / text over `A`), every kill, the transpositions (which re-insert buffer text),
    `yank_pop`, `update` and `replace`.  Also proved there: every cursor motion, `delete`, `backspace`, the word and
    line kills, `delete_range`, `drain_around`, `set_pos` (31 operations; by the structural tactic `aop`).  Not
    covered: `edit_word` (needs `U.upper` / `U.lower` to stay inside `A`), `indent` (needs the blank in `A`), the undo
    log's replay, and the editor-level pass (`AlphaI` through the primitives, `execute`, the loops) with the
    hypotheses on the decoded keys, history, candidates and hints — `LogAlpha` stays a hypothesis on the produced
    log. -/
theorem C02_alpha_ops (S : Segmenter) (U : UData) (A : Char → Bool) :
    (∀ ch n, A ch = true → AOp A (LB.insert S U ch n)) ∧
    (∀ i t, OverA A t → AOp A (LB.insertStr S U i t)) ∧
    (∀ t n, OverA A t → AOp A (LB.yank S U t n)) ∧
    (∀ k t, OverA A t → AOp A (LB.yankPop S U k t)) ∧
    (∀ m, AOp A (LB.kill S U m)) ∧
    AOp A (LB.transposeChars S U) ∧ (∀ n, AOp A (LB.transposeWords S U n)) ∧
    (∀ t p, OverA A t → AOp A (LB.update S U t p)) ∧
    (∀ a b t, OverA A t → AOp A (LB.replace S U a b t)) :=
  ⟨fun _ n h => aop_insert h n, fun i _ h => AOp.insertStr S U i h, fun _ n h => aop_yank h n,
   fun k t h => aop_yankPop k t h, fun m => aop_kill m, aop_transposeChars, fun n => aop_transposeWords n,
   fun t p h => aop_update t p h, fun a b _ h => AOp.replace S U a b h⟩

/-! ### when the read returns (round 17)

  `C02_final` / `C02_final_full` are single steps from a state that is assumed to be in sync; `C02_editor_shows`
  speaks of the callbacks.  Below, the last clause of the property — "when the read returns, the cursor is after the
  last character of the line so that application output starts on a fresh row" — is proved of the editor model's own
  log, for every input: `Rl/Lemmas/RenderLogReturn.lean` keeps the screen invariant `Sh` for the state in which
  `readline_edit` returns `Ok` and shows that the final `edit_move_buffer_end` leaves the cursor at the end of the
  buffer. -/

/-- the full clause: whenever the body of `readline_edit` (`Rl.readProg`: initial text, first repaint, main loop,
    final `edit_move_buffer_end`) returns normally in state `s` — `readline` then answers the line `s.line.buf` —, the
    whole render log of the read, the final `writeln` included, replays without panic; the terminal that interpreted
    everything before that newline shows the prompt and the returned line, **without a hint**, with the cursor after
    the last character of the line; and after the newline the cursor is on column 0, no wrap pending, on a row below
    the row on which the text ends. -/
def C02_editor_return_statement : Prop :=
  ∀ (S : Segmenter) (U : UData) (cfg : EdCfg) (ring : KillRing) (left right : Text) (inp : Input),
    2 ≤ cfg.cols → C02_Plain S (edR U cfg) cfg.prompt → C02_CtlZero U →
    LogPlain S (edR U cfg) cfg.prompt (C02_editorLog S U cfg ring left right inp).reverse →
    cfg.indentSize ≤ 255 →
    ∀ s : Ed, readProg S U cfg left right inp (initEd cfg ring inp) = .ok ((), s) →
    (readline S U cfg ring left right inp).1 = .line s.line.buf ∧
    ∃ rs : RS, RS.run S (edR U cfg) cfg.prompt (RS.init S (edR U cfg) cfg.prompt)
          (readline S U cfg ring left right inp).2.render.reverse = (rs.emit ['\n'], false) ∧
      Shows (edR U cfg).cw ((Term.blank (edR U cfg).cols).feed (edR U cfg).cw rs.all) cfg.prompt s.line.buf [] [] ∧
      ((Term.blank (edR U cfg).cols).feed (edR U cfg).cw (rs.emit ['\n']).all).cc = 0 ∧
      ((Term.blank (edR U cfg).cols).feed (edR U cfg).cw (rs.emit ['\n']).all).pending = false ∧
      ((Term.blank (edR U cfg).cols).feed (edR U cfg).cw (rs.emit ['\n']).all).cr >
        ((Term.blank (edR U cfg).cols).feed (edR U cfg).cw (cfg.prompt ++ s.line.buf)).cr

/-- **When the read returns with a line, application output starts on a fresh row** — proved of the editor model's
    own log, for every key sequence, both key maps, every segmenter / width table and every width ≥ 2, under the
    hypotheses of `C02_editor_shows` (texts of the quantified kind, `indentSize ≤ 255`, control characters of width
    0).  If the body of `readline_edit` returns normally in state `s`, then `readline` answers `s.line.buf`; the whole
    render log with the final `writeln` replays without panic and writes what the log before it wrote plus one
    newline; the terminal that interpreted everything before that newline shows the read's own prompt and the whole
    returned line with the cursor **after its last character** (the insertion point of `prompt ++ line`), nothing left
    over; and after the newline the cursor is on column 0, no wrap pending, on a row strictly below the row on which
    `prompt ++ line` ends.
    Compared with `C02_editor_return_statement` this first stage leaves the hint open: it gives "the hint of the final
    state or no hint" (`h`).  When the final state has no hint (`s.hint = none`) that is the full clause
    (`C02_editor_return_nohint`), and that a normal return carries no hint is `C02_return_state_no_hint`; the full
    clause is `C02_editor_return`. -/
theorem C02_editor_return_partial (S : Segmenter) (U : UData) (cfg : EdCfg) (ring : KillRing) (left right : Text)
    (inp : Input) (hc : 2 ≤ cfg.cols) (hprompt : C02_Plain S (edR U cfg) cfg.prompt)
    (hctl : C02_CtlZero U)
    (hplain : LogPlain S (edR U cfg) cfg.prompt (C02_editorLog S U cfg ring left right inp).reverse)
    (hind : cfg.indentSize ≤ 255)
    (s : Ed) (hret : readProg S U cfg left right inp (initEd cfg ring inp) = .ok ((), s)) :
    (readline S U cfg ring left right inp).1 = .line s.line.buf ∧
    ∃ (rs : RS) (h : Text), (h = s.hint.getD [] ∨ h = []) ∧
      RS.run S (edR U cfg) cfg.prompt (RS.init S (edR U cfg) cfg.prompt)
          (readline S U cfg ring left right inp).2.render.reverse = (rs.emit ['\n'], false) ∧
      Shows (edR U cfg).cw ((Term.blank (edR U cfg).cols).feed (edR U cfg).cw rs.all) cfg.prompt s.line.buf [] h ∧
      ((Term.blank (edR U cfg).cols).feed (edR U cfg).cw (rs.emit ['\n']).all).cc = 0 ∧
      ((Term.blank (edR U cfg).cols).feed (edR U cfg).cw (rs.emit ['\n']).all).pending = false ∧
      ((Term.blank (edR U cfg).cols).feed (edR U cfg).cw (rs.emit ['\n']).all).cr >
        ((Term.blank (edR U cfg).cols).feed (edR U cfg).cw (cfg.prompt ++ s.line.buf)).cr := by
  have hbd := C02_logBd S U cfg ring left right inp hind
  have hfine := (logFine_iff S (edR U cfg) cfg.prompt _).2 ⟨hplain, hbd⟩
  have hlb : LBFaithful S U := C02_lbFaithful S U
  have hnext := fun fuel sea iep => pres_nextCmd (S := S) (U := U) (cfg := cfg) hc hprompt fuel sea iep
  obtain ⟨hsh, hpos⟩ := readProg_returns hc hprompt hnext (fun fuel => pres_completeLine hc hprompt hlb hnext fuel)
    hctl (fun cmd => pres_execute hc hprompt hlb hctl cmd) ring left right inp hret
  have hrl := readline_eq_readProg S U cfg ring left right inp
  rw [hret] at hrl
  simp only [] at hrl
  have hlog : C02_editorLog S U cfg ring left right inp = s.render.reverse := by
    unfold C02_editorLog; rw [hrl]; rfl
  rw [hlog, List.reverse_reverse] at hfine
  obtain ⟨rs, g, hcore, hsplit⟩ := hsh hfine
  have hinv : C02_Inv S (edR U cfg) cfg.prompt rs g := hcore.rep.inv hc hprompt
  have hrun : RS.run S (edR U cfg) cfg.prompt (RS.init S (edR U cfg) cfg.prompt) s.render.reverse = (rs, false) :=
    (RepFrom.coherent hcore.rep).2
  have hfull : splitAtByte s.line.buf (blen s.line.buf) = some (s.line.buf, []) := by
    have := splitAtByte_append s.line.buf []
    rwa [List.append_nil] at this
  rw [hpos, hfull] at hsplit
  injection hsplit with hsplit
  injection hsplit with e1 e2
  have hshow := C02_synced_shows (edR U cfg) _ _ _ _ _ _ hinv.synced
  rw [hcore.own, ← e1, ← e2] at hshow
  refine ⟨by rw [hrl], rs, g.hint, hcore.hint, ?_, hshow, ?_⟩
  · rw [hrl]
    show RS.run S (edR U cfg) cfg.prompt _ (RenderOp.writeln :: s.render).reverse = _
    rw [List.reverse_cons]
    exact RS.run_snoc_writeln S (edR U cfg) cfg.prompt _ _ _ hrun
  · have hall : (rs.emit ['\n']).all = rs.all ++ ['\n'] := by
      simp [RS.all, RS.emit, List.append_assoc]
    rw [hall, Term.feed_append]
    have hcols := hinv.synced.cols
    generalize (Term.blank (edR U cfg).cols).feed (edR U cfg).cw rs.all = t0 at hshow hcols ⊢
    obtain ⟨_, hcur, _, hps⟩ := hshow
    have hstep : t0.feed (edR U cfg).cw ['\n'] = { t0 with cr := t0.cr + 1, cc := 0, pending := false } :=
      step_newline (edR U cfg).cw t0 hps
    rw [hstep]
    refine ⟨rfl, rfl, ?_⟩
    unfold insertionPoint at hcur
    rw [hcols] at hcur
    simp only [] at hcur
    split at hcur
    · have := (Prod.mk.inj hcur).1
      show t0.cr + 1 > _
      omega
    · have := (Prod.mk.inj hcur).1
      show t0.cr + 1 > _
      omega

/-- **… the full clause whenever the returning state carries no hint**: `C02_editor_return_statement`'s conclusion
    from the additional hypothesis `s.hint = none` (discharged by `C02_return_state_no_hint`). -/
theorem C02_editor_return_nohint (S : Segmenter) (U : UData) (cfg : EdCfg) (ring : KillRing) (left right : Text)
    (inp : Input) (hc : 2 ≤ cfg.cols) (hprompt : C02_Plain S (edR U cfg) cfg.prompt)
    (hctl : C02_CtlZero U)
    (hplain : LogPlain S (edR U cfg) cfg.prompt (C02_editorLog S U cfg ring left right inp).reverse)
    (hind : cfg.indentSize ≤ 255)
    (s : Ed) (hret : readProg S U cfg left right inp (initEd cfg ring inp) = .ok ((), s))
    (hnohint : s.hint = none) :
    (readline S U cfg ring left right inp).1 = .line s.line.buf ∧
    ∃ rs : RS, RS.run S (edR U cfg) cfg.prompt (RS.init S (edR U cfg) cfg.prompt)
          (readline S U cfg ring left right inp).2.render.reverse = (rs.emit ['\n'], false) ∧
      Shows (edR U cfg).cw ((Term.blank (edR U cfg).cols).feed (edR U cfg).cw rs.all) cfg.prompt s.line.buf [] [] ∧
      ((Term.blank (edR U cfg).cols).feed (edR U cfg).cw (rs.emit ['\n']).all).cc = 0 ∧
      ((Term.blank (edR U cfg).cols).feed (edR U cfg).cw (rs.emit ['\n']).all).pending = false ∧
      ((Term.blank (edR U cfg).cols).feed (edR U cfg).cw (rs.emit ['\n']).all).cr >
        ((Term.blank (edR U cfg).cols).feed (edR U cfg).cw (cfg.prompt ++ s.line.buf)).cr := by
  obtain ⟨h1, rs, h, hh, h2, h3, h4⟩ :=
    C02_editor_return_partial S U cfg ring left right inp hc hprompt hctl hplain hind s hret
  have : h = [] := by
    rcases hh with hh | hh
    · rw [hh, hnohint]; rfl
    · exact hh
  subst this
  exact ⟨h1, rs, h2, h3, h4⟩

def C02_retU : UData :=
  { alnum := Char.isAlphanum, ws := Char.isWhitespace, upper := fun c => [c], lower := fun c => [c],
    width := List.length }

/-- non-vacuity of the return hypothesis: typing `a`, Enter makes the body of `readline_edit` return normally, with
    the line `a` and without a hint -/
example :
    (readProg C02_cexSeg C02_retU { vi := false } [] [] { buf := [], avail := [], future := [[0x61], [0x0d]] }
        (initEd { vi := false } (KillRing.new 60) { buf := [], avail := [], future := [[0x61], [0x0d]] })).toOption.map
      (fun r => (r.2.line.buf, r.2.hint)) = some (['a'], none) := by decide +kernel

/-- **A read that returns a line returns without a hint**: whenever the body of `readline_edit` returns normally, the
    editor state has no hint — for every segmenter, Unicode data, configuration (either key map, any helper), kill
    ring, initial text and input, with no hypothesis.  (`Rl/Lemmas/ReturnNoHint.lean`: the main loop returns normally
    only after `execute` answered `Submit`; `execute` answers `Submit` only for `AcceptLine`, `AcceptOrInsertLine` and
    vi's `EndOfFile` on a non-empty line, each after `refresh_line_with_msg` cleared a hint that was there; `validate`
    and the final `edit_move_buffer_end` do not bring one back.) -/
theorem C02_return_state_no_hint (S : Segmenter) (U : UData) (cfg : EdCfg) (ring : KillRing) (left right : Text)
    (inp : Input) (s : Ed) (hret : readProg S U cfg left right inp (initEd cfg ring inp) = .ok ((), s)) :
    s.hint = none :=
  readProg_nohint ring left right inp hret

/-- **When the read returns with a line, the terminal shows prompt and line without a hint, the cursor is after the
    last character, and application output starts on a fresh row** — `C02_editor_return_statement` is a theorem:
    `C02_editor_return_partial` with `C02_return_state_no_hint`.  Hypotheses as for `C02_editor_shows`: width ≥ 2,
    prompt and logged texts of the quantified kind, control characters of width 0, `indentSize ≤ 255`. -/
theorem C02_editor_return : C02_editor_return_statement :=
  fun S U cfg ring left right inp hc hprompt hctl hplain hind s hret =>
    C02_editor_return_nohint S U cfg ring left right inp hc hprompt hctl hplain hind s hret
      (C02_return_state_no_hint S U cfg ring left right inp s hret)
