/-
  C02 — what the terminal shows is the prompt, the line and the cursor (DESIGN.md "### C02").

  Model: `Rl/Layout.lean` (cell arithmetic), `Rl/Render.lean` (emitted text), `Rl/Term.lean` (terminal).
  Spec: `Rl/Spec/Screen.lean` (`Shows`: the screen equals the from-scratch rendering, the cursor is on
  the insertion point, no wrap pending).

  Proved here, for every lawful segmenter, every width table and every terminal width ≥ 2, over texts made
  of the graphemes the property quantifies over (`PlainG`: line breaks and printable clusters of width
  0/1/2, no TAB / ESC / control characters):
    * the grapheme loop of `calculate_position` *is* the terminal's cursor motion (simulation);
    * positions computed piecewise add up (true since the repair that keeps the pending-wrap column);
    * the believed cursor of a layout is the spec's insertion point, and the renderer's own newline is
      written exactly when the terminal has a wrap pending;
    * the fast path of `edit_insert` leaves believed and real cursor in agreement, without pending wrap.
  Stated, not yet proved (`…_statement`): the screen-content theorems (full refresh, cursor-only move,
  fast path = full refresh, composition over histories, final state); they need the cell-level lemmas
  of the emulator (`Grid.get` of `set` / `eraseLineFrom` / `eraseBelow`) and the decimal-parameter
  parser lemma, which are not written yet.  The differential check covers them meanwhile.
-/
import Rl.Layout
import Rl.Term
import Rl.Render
import Rl.Spec.Screen
import Rl.Lemmas.Layout
open Rl Rl.Spec

/-- every grapheme of `s` is of the quantified kind -/
def C02_Plain (S : Segmenter) (R : RCfg) (s : Text) : Prop := ∀ g ∈ S.seg s, PlainG R g

/-- **`calculate_position` is where printing ends.**  If the loop state `p` and the terminal cursor agree
    (`col = cols` ⇔ wrap pending), they agree again after `s` has been computed / printed. -/
theorem C02_position_is_print (S : Segmenter) (R : RCfg) (hc : 2 ≤ R.cols) (s : Text) (p : Pos) (t : Term)
    (hs : C02_Plain S R s) (h : Tracks R p t) :
    Tracks R (calculatePosition S R s p) (t.feed R.cw s) := by
  have := (tracks_loop hc (S.seg s) hs h).2
  rw [S.flatten_eq] at this
  exact this

/-- the escape-sequence skipper is idle after a text of the quantified kind -/
theorem C02_skipper_idle (S : Segmenter) (R : RCfg) (hc : 2 ≤ R.cols) (s : Text) (p : Pos)
    (hs : C02_Plain S R s) (hp : p.col ≤ R.cols) :
    (posLoop R (S.seg s) (p, 0)).2 = 0 := by
  -- any terminal that tracks `p` will do as a witness
  let t : Term := { cols := R.cols, cr := p.row,
                    cc := if p.col < R.cols then p.col else R.cols - 1,
                    pending := !(decide (p.col < R.cols)) }
  have ht : Tracks R p t := by
    refine ⟨rfl, rfl, rfl, ?_⟩
    by_cases h : p.col < R.cols
    · exact Or.inl ⟨h, by simp [t, h], by simp [t, h]⟩
    · exact Or.inr ⟨by omega, by simp [t, h], by simp [t, h]⟩
  exact (tracks_loop hc (S.seg s) hs ht).1

/-- **Layouts add up**: the position of a concatenation is the position of the second part computed from
    the position of the first (segmentation splitting at the cut, skipper idle at the cut). -/
theorem C02_layout_additive (S : Segmenter) (R : RCfg) (a b : Text) (orig : Pos)
    (hseg : S.seg (a ++ b) = S.seg a ++ S.seg b)
    (hesc : (posLoop R (S.seg a) (orig, 0)).2 = 0) :
    calculatePosition S R (a ++ b) orig = calculatePosition S R b (calculatePosition S R a orig) := by
  unfold calculatePosition posLoop at *
  rw [hseg, List.foldl_append]
  have : List.foldl (posStep R) (orig, 0) (S.seg a) = ((List.foldl (posStep R) (orig, 0) (S.seg a)).1, 0) :=
    Prod.ext rfl hesc
  rw [this]

/-- the same for texts of the quantified kind: only the segmentation hypothesis remains -/
theorem C02_layout_additive_plain (S : Segmenter) (R : RCfg) (hc : 2 ≤ R.cols) (a b : Text) (orig : Pos)
    (hseg : S.seg (a ++ b) = S.seg a ++ S.seg b) (ha : C02_Plain S R a) (ho : orig.col ≤ R.cols) :
    calculatePosition S R (a ++ b) orig = calculatePosition S R b (calculatePosition S R a orig) :=
  C02_layout_additive S R a b orig hseg (C02_skipper_idle S R hc a orig ha ho)

/-- a blank terminal tracks the origin -/
theorem C02_blank_tracks (R : RCfg) (hc : 2 ≤ R.cols) : Tracks R {} (Term.blank R.cols) :=
  ⟨rfl, rfl, rfl, Or.inl ⟨by show 0 < R.cols; omega, rfl, rfl⟩⟩

/-- **The believed cursor is the spec's insertion point**: the cell where `refresh_line` / `move_cursor`
    put the cursor (`on_screen` of the computed position) is where a terminal stands after printing the
    text from the origin, a pending wrap counted as column 0 of the next row. -/
theorem C02_cursor_is_insertion_point (S : Segmenter) (R : RCfg) (hc : 2 ≤ R.cols) (text : Text)
    (hs : C02_Plain S R text) :
    insertionPoint R.cw R.cols text =
      ((onScreen R (calculatePosition S R text {})).row, (onScreen R (calculatePosition S R text {})).col) := by
  have h := C02_position_is_print S R hc text {} (Term.blank R.cols) hs (C02_blank_tracks R hc)
  obtain ⟨_, _, hrow, hcase⟩ := h
  unfold insertionPoint onScreen
  rcases hcase with ⟨h1, h2, h3⟩ | ⟨h1, h2, h3⟩
  · have : ¬ (calculatePosition S R text {}).col ≥ R.cols := by omega
    simp [h3, this, hrow, h2]
  · have : (calculatePosition S R text {}).col ≥ R.cols := by omega
    simp [h3, this, hrow]

/-- **The renderer's own newline is written exactly when the terminal has a wrap pending** after
    `prompt ++ line ++ hint` (the guard `new_layout.end.col >= cols` of `refresh_line`). -/
theorem C02_wrap_pending_iff (S : Segmenter) (R : RCfg) (hc : 2 ≤ R.cols) (text : Text)
    (hs : C02_Plain S R text) :
    ((Term.blank R.cols).feed R.cw text).pending = true ↔ (calculatePosition S R text {}).col ≥ R.cols := by
  have h := C02_position_is_print S R hc text {} (Term.blank R.cols) hs (C02_blank_tracks R hc)
  obtain ⟨_, _, _, hcase⟩ := h
  rcases hcase with ⟨h1, _, h3⟩ | ⟨h1, _, h3⟩
  · rw [h3]; constructor
    · intro h; exact absurd h (by simp)
    · intro h; omega
  · rw [h3]; constructor
    · intro _; omega
    · intro _; rfl

/-- **Fast path of `edit_insert`, cursor part**: under its guard, writing the one character moves the
    terminal cursor to the believed cursor `col + width`, and no wrap is pending afterwards. -/
theorem C02_fast_path_cursor (R : RCfg) (hc : 2 ≤ R.cols) (l : Layout) (t : Term) (ch : Char) (n : Nat)
    (hint : Option Text) (nph hl : Bool)
    (hguard : fastPathGuard R l ch n hint nph hl = true) (hch : isC0Control ch = false)
    (h : Tracks R l.cursor t) :
    Tracks R { l.cursor with col := l.cursor.col + R.cw ch } (t.feed R.cw [ch]) ∧
    (t.feed R.cw [ch]).pending = false := by
  have hlt : l.cursor.col + R.cw ch < R.cols := by
    unfold fastPathGuard at hguard
    simp at hguard
    omega
  have hps : t.ps = .ground := h.2.1
  have hstep : t.feed R.cw [ch] = t.print (R.cw ch) ch := by
    simp [Term.feed, Term.step, hps, hch]
  have hadv : advance R l.cursor (R.cw ch) = { l.cursor with col := l.cursor.col + R.cw ch } := by
    unfold advance
    have : ¬ l.cursor.col + R.cw ch > R.cols := by omega
    simp [this]
  have ht := tracks_print h hc (R.cw ch) (by omega) ch
  rw [hadv] at ht
  rw [hstep]
  refine ⟨ht, ?_⟩
  obtain ⟨_, _, _, hcase⟩ := ht
  rcases hcase with ⟨_, _, h3⟩ | ⟨h1, _, _⟩
  · exact h3
  · simp at h1; omega

/-- **Final state**: once the terminal shows the line with the cursor at its end (what the final
    `edit_move_buffer_end` is for), the newline written on return leaves the cursor at column 0 of a
    row below every row of the text: application output starts on a fresh row. -/
theorem C02_final (cw : Char → Nat) (t : Term) (prompt line : Text)
    (h : Shows cw t prompt line [] []) :
    (t.feed cw ['\n']).cc = 0 ∧ (t.feed cw ['\n']).pending = false ∧
    (t.feed cw ['\n']).cr > ((Term.blank t.cols).feed cw (prompt ++ line)).cr := by
  obtain ⟨_, hcur, _, hps⟩ := h
  have hstep : t.feed cw ['\n'] = { t with cr := t.cr + 1, cc := 0, pending := false } := by
    simp [Term.feed, Term.step, hps, isC0Control, Term.control]
  rw [hstep]
  refine ⟨rfl, rfl, ?_⟩
  unfold insertionPoint at hcur
  simp only [List.append_nil] at hcur
  split at hcur
  · have := (Prod.mk.inj hcur).1
    show t.cr + 1 > _
    omega
  · have := (Prod.mk.inj hcur).1
    show t.cr + 1 > _
    omega

/-- moving the cursor to the cell it is on writes nothing -/
theorem C02_move_cursor_same (R : RCfg) (p : Pos) : moveCursorBytes R p p = [] := by
  simp [moveCursorBytes]

/-! ### non-vacuity -/

/-- `> aaa` on 4 columns: the text wraps after `> aa`; `calculate_position` and the emulator agree -/
example :
    let R : RCfg := { cols := 4, gw := fun g => g.length, cw := fun _ => 1 }
    let t := (Term.blank 4).feed R.cw "> aaa".toList
    (t.cr, t.cc, t.pending) = (1, 1, false) ∧
    posLoop R ["> aaa".toList.take 1, [' '], ['a'], ['a'], ['a']] ({}, 0) = ({ col := 1, row := 1 }, 0) := by
  decide

/-- text ending exactly at the margin: wrap pending on the terminal, `col = cols` in the arithmetic -/
example :
    let R : RCfg := { cols := 4, gw := fun g => g.length, cw := fun _ => 1 }
    let t := (Term.blank 4).feed R.cw "> aa".toList
    (t.cr, t.cc, t.pending) = (0, 3, true) ∧
    posLoop R [['>'], [' '], ['a'], ['a']] ({}, 0) = ({ col := 4, row := 0 }, 0) := by
  decide

/-! ### full statements not yet proved (definitions: nothing is asserted) -/

/-- what the renderer believes (`Layout`) is true of the terminal `t` that shows `(prompt, line, pos, hint)` -/
def C02_Consistent (S : Segmenter) (R : RCfg) (t : Term) (l : Layout) (prompt before after hint : Text) : Prop :=
  t.cols = R.cols ∧ Shows R.cw t prompt before after hint ∧
  l.cursor = calculatePosition S R (prompt ++ before) {} ∧
  l.end_ = calculatePosition S R (prompt ++ before ++ after ++ hint) {}

/-- full repaint: from any consistent state, the bytes of `refresh_line` lead to the terminal showing the
    new state -/
def C02_full_refresh_statement : Prop :=
  ∀ (S : Segmenter) (R : RCfg) (t : Term) (old new : Layout) (prompt b a h prompt' b' a' : Text)
    (h' : Option Text) (bytes : Text),
    2 ≤ R.cols → C02_Consistent S R t old prompt b a h →
    C02_Plain S R (prompt' ++ b' ++ a' ++ h'.getD []) →
    computeLayout S R (calculatePosition S R prompt' {}) true (b' ++ a') (blen b') h' = .ok new →
    refreshLineBytes R prompt' (b' ++ a') h' old new = .ok bytes →
    C02_Consistent S R (t.feed R.cw bytes) new prompt' b' a' (h'.getD [])

/-- cursor-only move: the text stays, the cursor goes to the new insertion point -/
def C02_move_cursor_statement : Prop :=
  ∀ (S : Segmenter) (R : RCfg) (t : Term) (l : Layout) (prompt b a h b' a' : Text),
    2 ≤ R.cols → C02_Consistent S R t l prompt b a h → b ++ a = b' ++ a' →
    C02_Consistent S R
      (t.feed R.cw (moveCursorBytes R l.cursor (calculatePosition S R (prompt ++ b') {})))
      { l with cursor := calculatePosition S R (prompt ++ b') {} } prompt b' a' h

/-- fast path: under its guard, writing the character gives the screen a full refresh would give -/
def C02_fast_path_statement : Prop :=
  ∀ (S : Segmenter) (R : RCfg) (t : Term) (l : Layout) (prompt b : Text) (ch : Char),
    2 ≤ R.cols → C02_Consistent S R t l prompt b [] [] →
    fastPathGuard R l ch 1 none true false = true → C02_Plain S R (prompt ++ b ++ [ch]) →
    Shows R.cw (t.feed R.cw [ch]) prompt (b ++ [ch]) [] []

/-- composition over histories: after every prefix of a render log ending in a `sync`, the terminal that
    has interpreted all bytes shows the state the `sync` carries -/
def C02_history_statement : Prop :=
  ∀ (S : Segmenter) (R : RCfg) (prompt : Text) (ops : List RenderOp) (line : Text) (pos : Nat)
    (hint : Option Text) (b a : Text),
    2 ≤ R.cols → splitAtByte line pos = some (b, a) →
    (RS.run S R prompt (RS.init S R prompt) (ops ++ [.sync line pos hint])).2 = false →
    let rs := (RS.run S R prompt (RS.init S R prompt) (ops ++ [.sync line pos hint])).1
    Shows R.cw ((Term.blank R.cols).feed R.cw rs.segs.reverse.flatten) prompt b a (hint.getD [])

/-- on return, full statement: the last `move_cursor` to the end of the buffer plus the final newline
    lead from any consistent state to "column 0 of a row below the text" -/
def C02_final_statement : Prop :=
  ∀ (S : Segmenter) (R : RCfg) (t : Term) (l : Layout) (prompt b a h : Text),
    2 ≤ R.cols → C02_Consistent S R t l prompt b a h →
    let t' := t.feed R.cw (moveCursorBytes R l.cursor (calculatePosition S R (prompt ++ b ++ a) {}) ++ ['\n'])
    t'.cc = 0 ∧ t'.pending = false ∧ t'.cr > ((Term.blank R.cols).feed R.cw (prompt ++ b ++ a)).cr
