/-
  Property C11 — sessions sharing one history file never lose or reorder each other's entries.
  Model: Rl/FileSession.lean (transliteration of `FileHistory::{load, add, append, save}`,
  `can_just_append`, `update_path` of src/history.rs after the repair of D14: `save` truncates
  the file only once it holds the lock).  Spec (oracle on the implementation):
  Rl/Spec/FileSession.lean.  Lemmas: Rl/Lemmas/FileSession.lean, Rl/Lemmas/FileSession2.lean
  (the simulation sub-operation ⊑ operation-atomic, the counting invariant, the reference model).

  The theorems are about ANY number of sessions (`Sys.sess : Nat → Sess`), any limits and
  settings per session, any interleaving of the calls (lists of `Op`, induction, no bound) and
  any modification times the environment hands out (`mt` is an arbitrary number).
  `Good s` (Rl/Lemmas/FileSession.lean) is the invariant "the file, if any, is `fileOf es` for
  non-empty entries; every session's store is within its limit and `new_entries <= len`"; it
  holds of every initial state (`init_good`) and is preserved by every step (`step_good`).
-/
import Rl.FileSession
import Rl.Spec.FileSession
import Rl.Lemmas.FileSession
import Rl.Lemmas.FileSession2
import Rl.Lemmas.FileSessionBound
open Rl Rl.FS

/-! ### the file always loads (operation-atomic model) -/

/-- Whatever the sessions do, in whatever order, the file stays one that `save_to` wrote for some
    list of non-empty entries, and such a file loads without error into any history. -/
theorem C11_always_loads (ws : Char → Bool) (es0 : List Text) (m0 : Nat) (cfg : Nat → Nat × Bool × Bool)
    (hne : ∀ e ∈ es0, e ≠ []) (ops : List Op) :
    ∃ es m, ((Sys.init (some { content := atomsOf (fileOf es0), mtime := m0 }) cfg).run ws ops).file
        = some { content := atomsOf (fileOf es), mtime := m } ∧
      (∀ e ∈ es, e ≠ []) ∧
      ∀ h : FileHist, (loadFrom ws (atomsOf (fileOf es)) h).status = .ok ∧
        (loadFrom ws (atomsOf (fileOf es)) h).h.mem = (addAll ws h es).mem := by
  have hg0 := init_good es0 m0 cfg hne
  have hg := run_good ws ops _ hg0
  have hsome := run_file_some ws ops _ hg0.1 rfl
  rcases hg.1.1 with hnone | ⟨es, ⟨m, hf⟩, hes⟩
  · rw [hnone] at hsome; cases hsome
  · exact ⟨es, m, hf, hes, fun h => by rw [loadFrom_fileOf_ok ws es hes h]; exact ⟨rfl, rfl⟩⟩

/-- The same from any good state, also when the file does not exist at the start: it is missing
    or loads. -/
theorem C11_always_loads_from (ws : Char → Bool) (s : Sys) (hg : Good s) (ops : List Op) :
    (s.run ws ops).file = none ∨
    ∃ es m, (s.run ws ops).file = some { content := atomsOf (fileOf es), mtime := m } ∧
      ∀ h : FileHist, (loadFrom ws (atomsOf (fileOf es)) h).status = .ok := by
  rcases (run_good ws ops s hg).1.1 with hnone | ⟨es, ⟨m, hf⟩, hes⟩
  · exact Or.inl hnone
  · exact Or.inr ⟨es, m, hf, fun h => by rw [loadFrom_fileOf_ok ws es hes h]⟩

/-- No call of the model ever fails or panics on files this library wrote: `append` and `save`
    return ok, `load` returns ok (or the I/O error for a missing file). -/
theorem C11_calls_succeed (ws : Char → Bool) (s : Sys) (hg : Good s) (i mt : Nat) :
    (s.append ws i mt).2 = .ok ∧ (s.save i mt).2 = .ok ∧
    ((s.load ws i).2 = .ok ∨ (s.file = none ∧ (s.load ws i).2 = .io)) :=
  ⟨(append_wellFormed ws s i mt hg.1).2, (save_wellFormed s i mt hg.1).2, (load_wellFormed ws s i hg.1).2⟩

/-! ### the shape of one append -/

/-- After an append by session `i` that has new lines, the file holds what it held before,
    possibly minus oldest entries / consecutive duplicates (exactly the three cases of
    `Spec.FS.shapeOk`), followed by the session's new lines; the session's counter of unwritten
    lines is back to zero, its entries and every other session are untouched. -/
theorem C11_append_shape (ws : Char → Bool) (s : Sys) (hg : Good s) (i mt fm : Nat) (es : List Text)
    (hf : s.file = some { content := atomsOf (fileOf es), mtime := fm }) (hne : ∀ e ∈ es, e ≠ [])
    (hnew : (s.sess i).fh.newEntries ≠ 0) :
    ∃ es', (s.append ws i mt).1.file = some { content := atomsOf (fileOf es'), mtime := mt } ∧
      (s.append ws i mt).2 = .ok ∧
      Spec.FS.shapeOk ws (cfgOf (s.sess i).fh.mem) es (newOnes (s.sess i).fh) es' = true ∧
      ((s.append ws i mt).1.sess i).fh = { (s.sess i).fh with newEntries := 0 } ∧
      ∀ j, j ≠ i → (s.append ws i mt).1.sess j = s.sess j := by
  have hflag : ((s.sess i).fh.mem.entries.isEmpty || (s.sess i).fh.newEntries == 0) = false := by
    have := (hg.2 i).2
    have hlen : (s.sess i).fh.mem.entries ≠ [] := by
      intro h; rw [h] at this; simp at this; exact hnew this
    simp [hlen, hnew]
  rw [append_eq ws s i mt fm es hf hne hflag]
  refine ⟨_, rfl, rfl, appendOut_shapeOk ws _ fm es (hg.2 i), by simp [Sys.wrote], fun j hj => ?_⟩
  simp [Sys.wrote, setSess_other _ _ hj]

/-- An append by a session that has nothing new is the identity on the whole system. -/
theorem C11_append_nothing_new (ws : Char → Bool) (s : Sys) (i mt : Nat)
    (h : (s.sess i).fh.newEntries = 0) : s.append ws i mt = (s, .ok) := by
  simp [Sys.append, h]

/-! ### no line is written twice by one session -/

/-- After any append (or save) the session has no unwritten lines left. -/
theorem C11_write_resets (ws : Char → Bool) (s : Sys) (hg : Good s) (i mt : Nat) :
    ((s.append ws i mt).1.sess i).fh.newEntries = 0 ∧ ((s.save i mt).1.sess i).fh.newEntries = 0 := by
  have hz : ((s.sess i).fh.mem.entries.isEmpty || (s.sess i).fh.newEntries == 0) = true →
      (s.sess i).fh.newEntries = 0 := by
    intro h
    have := (hg.2 i).2
    rcases Bool.or_eq_true_iff.mp h with h | h
    · rw [List.isEmpty_iff.mp h] at this; simpa using this
    · simpa using h
  constructor
  · rcases newFlag s i with hnew | hnew
    · rw [append_nothing ws s i mt hnew]; exact hz hnew
    · rcases hg.1.1 with hnone | ⟨es, ⟨fm, hf⟩, hne⟩
      · rw [append_missing ws s i mt hnone hnew]; simp [Sys.wrote]
      · rw [append_eq ws s i mt fm es hf hne hnew]; simp [Sys.wrote]
  · rcases newFlag s i with hnew | hnew
    · rw [save_nothing s i mt hnew]; exact hz hnew
    · rw [save_eq s i mt hnew]; simp [Sys.wrote]

/-- Once a session has appended, a second append by it — whatever the OTHER sessions (and the
    clock) did in between, in any number and order — writes nothing: it leaves the file and every
    session exactly as they are.  So none of its lines is ever written twice. -/
theorem C11_no_double (ws : Char → Bool) (s : Sys) (hg : Good s) (i mt mt' : Nat) (ops : List Op)
    (hops : ∀ op ∈ ops, opOf i op = false) :
    (((s.append ws i mt).1.run ws ops).append ws i mt') = ((s.append ws i mt).1.run ws ops, .ok) := by
  apply C11_append_nothing_new
  have h0 := (C11_write_resets ws s hg i mt).1
  generalize (s.append ws i mt).1 = t at h0
  induction ops generalizing t with
  | nil => exact h0
  | cons op ops ih =>
    apply ih (fun o ho => hops o (by simp [ho]))
    have hop := hops op (by simp)
    rw [step_other ws t i op hop]; exact h0

/-! ### no line is lost while the limit is not reached -/

/-- One append, any path (fast, rewrite, `save` shortcut): if the old entries followed by the new
    lines are something the session's store can hold (`Storable`: within the limit, nothing it
    refuses, no equal neighbours under ignore-dups) then the new file is exactly the old entries
    followed by the new lines — nothing removed, nothing reordered, nothing added twice. -/
theorem C11_append_keeps (ws : Char → Bool) (s : Sys) (hg : Good s) (i mt fm : Nat) (es : List Text)
    (hf : s.file = some { content := atomsOf (fileOf es), mtime := fm })
    (hnew : (s.sess i).fh.newEntries ≠ 0)
    (hs : Storable ws (s.sess i).fh.mem.maxLen (s.sess i).fh.mem.ignoreSpace (s.sess i).fh.mem.ignoreDups
            (es ++ newOnes (s.sess i).fh)) :
    (s.append ws i mt).1.file
      = some { content := atomsOf (fileOf (es ++ newOnes (s.sess i).fh)), mtime := mt } := by
  have hne : NonEmpty es := fun e he => hs.nonempty e (by simp [he])
  have hflag : ((s.sess i).fh.mem.entries.isEmpty || (s.sess i).fh.newEntries == 0) = false := by
    have := (hg.2 i).2
    have hlen : (s.sess i).fh.mem.entries ≠ [] := by
      intro h; rw [h] at this; simp at this; exact hnew this
    simp [hlen, hnew]
  rw [append_eq ws s i mt fm es hf hne hflag, appendOut_fits ws _ fm es (hg.2 i) hs]
  rfl

/-! ### sub-operation granularity: the windows the lock does not cover (D14)

  `SubSys` splits `save` into "open/create the file" ; "[lock] write" and `append` into
  "`path.exists()`" ; "[open, lock] the rest".  `truncFirst = true` is the code BEFORE the repair
  (`File::create` truncates before the lock is taken; the locked part then writes from offset 0
  without truncating again); `truncFirst = false` is the repaired code that is in /repo now. -/

def C11_ws : Char → Bool := fun c => c == ' '
/-- session 0 has limit 1 (its `append` takes the `save` shortcut), the others limit 3 -/
def C11_cfg : Nat → Nat × Bool × Bool := fun i => if i = 0 then (1, false, false) else (3, false, false)
def C11_start (file : Option FileVal) (truncFirst : Bool) : SubSys :=
  SubSys.init (Sys.init file C11_cfg) truncFirst
def C11_fileI : Option FileVal := some { content := atomsOf (fileOf ["i".toList]), mtime := 0 }

/-- the schedule: session 1 loads and enters `bbbbbbbb`, session 0 enters `a`; session 0 starts its
    append (→ `save` → the file is opened/created); session 1 appends under the lock; session 0
    gets the lock and writes -/
def C11_D14_schedule : List SubOp :=
  [.load 1, .add 1 "bbbbbbbb".toList, .add 0 "a".toList,
   .appendCheck 0, .saveOpen 0 1,
   .appendCheck 1, .appendLocked 1 2,
   .saveWrite 0 3]

/-- the entries a fresh history with a large limit reads from the file -/
def C11_entriesOf (t : SubSys) : Option (List String) :=
  t.sys.file.map (fun f =>
    (loadFrom C11_ws f.content (FileHist.new 100 false false)).h.mem.entries.map String.ofList)

set_option maxRecDepth 100000 in
/-- D14, before the repair: under this schedule the file ends up holding the line `bbbbbb`, which
    nobody entered (the tail of session 1's longer file survives session 0's write from offset 0),
    so the per-append shape and "the file holds only entered lines" fail; and right after
    `File::create` every reader — even one holding the shared lock — sees an empty file, not a
    file this library wrote. -/
theorem C11_subop_D14_counterexample :
    C11_entriesOf ((C11_start C11_fileI true).run C11_ws C11_D14_schedule) = some ["a", "bbbbbb"] ∧
    (((C11_start C11_fileI true).run C11_ws (C11_D14_schedule.take 5)).sys.file.map (·.content)) = some [] := by
  decide

set_option maxRecDepth 100000 in
/-- After the repair the same schedule is harmless: nothing is truncated before the lock is held
    (session 1 sees and rewrites the full file), and session 0's write replaces the file by its own
    single entry, as an atomic `append` with limit 1 does. -/
theorem C11_subop_D14_repaired :
    C11_entriesOf ((C11_start C11_fileI false).run C11_ws C11_D14_schedule) = some ["a"] ∧
    C11_entriesOf ((C11_start C11_fileI false).run C11_ws (C11_D14_schedule.take 7)) = some ["i", "bbbbbbbb"] ∧
    C11_entriesOf ((C11_start C11_fileI false).run C11_ws (C11_D14_schedule.take 5)) = some ["i"] := by
  decide

set_option maxRecDepth 100000 in
/-- Outside the property's quantifier (the file does NOT exist at the start), also after the
    repair: two sessions that both find the file missing both take `save`, and the second
    overwrites the first one's line; at operation granularity both lines survive. -/
theorem C11_subop_missing_file_race :
    C11_entriesOf ((C11_start none false).run C11_ws
      [.add 1 "a".toList, .add 2 "b".toList, .appendCheck 1, .appendCheck 2,
       .saveOpen 1 1, .saveWrite 1 2, .saveOpen 2 3, .saveWrite 2 4]) = some ["b"] ∧
    C11_entriesOf (SubSys.init ((Sys.init none C11_cfg).run C11_ws
      [.add 1 "a".toList, .add 2 "b".toList, .append 1 1, .append 2 2]) false) = some ["a", "b"] := by
  decide

/-- Full statement for the repaired code: with the file present, every state the sub-operation
    system reaches is a state the operation-atomic system reaches — `saveWrite` commits a `save`,
    `appendLocked` commits an `append`, the other sub-steps change no data.
    Proved below: `C11_subop_refines`. -/
def C11_subop_refines_statement : Prop :=
  ∀ (ws : Char → Bool) (s : Sys) (subops : List SubOp), Good s → s.file.isSome = true →
    ∃ ops : List Op, ((SubSys.init s false).run ws subops).sys.file = (s.run ws ops).file ∧
      ∀ i, ((SubSys.init s false).run ws subops).sys.sess i = (s.run ws ops).sess i

/-- One sub-step of the repaired code, in any state reachable with the file present (`SubInv`:
    good data, file present, `truncFirst = false`, every session that is inside a call still has
    something to write): the invariant is kept, and the data part (file, clock, every session) is
    unchanged — a stutter: `saveOpen`, `appendCheck`, any step that is not enabled — or is the result
    of exactly ONE step of the operation-atomic system (`load`, `add`, `touch` as themselves,
    `saveWrite` as `save`, `appendLocked` as `append`). -/
theorem C11_subop_step (ws : Char → Bool) (t : SubSys) (op : SubOp) (h : SubInv t) :
    SubInv (t.step ws op) ∧
    ((t.step ws op).sys = t.sys ∨ ∃ o : Op, (t.step ws op).sys = (t.sys.step ws o).1) :=
  subStep_sim ws t op h

/-- Refinement, strong form: the whole data part (file, clock and every session, as one `Sys`)
    that the sub-operation system of the repaired code reaches from a good state with the file
    present is reached by the operation-atomic system with the list of the committed operations. -/
theorem C11_subop_refines_sys (ws : Char → Bool) (s : Sys) (subops : List SubOp) (hg : Good s)
    (hf : s.file.isSome = true) :
    ∃ ops : List Op, ((SubSys.init s false).run ws subops).sys = s.run ws ops :=
  (subRun_sim ws subops _ (subInv_init s hg hf)).2

/-- The statement: for the repaired code, with the file present, the windows the lock does not
    cover (`File` opened before the lock is taken, `path.exists()` before the lock) are harmless —
    every reachable state is one of the operation-atomic system, so every theorem above about
    `Sys.run` (always loads, shapes, no loss, the bound) holds of it. -/
theorem C11_subop_refines : C11_subop_refines_statement := by
  intro ws s subops hg hf
  obtain ⟨ops, h⟩ := C11_subop_refines_sys ws s subops hg hf
  exact ⟨ops, by rw [h], fun i => by rw [h]⟩

/-- A consequence, as an example of the transfer: at sub-operation granularity too, the file of
    the repaired code is at every moment — also between `saveOpen` and `saveWrite` of any number of
    sessions — a file `save_to` wrote, and it loads without error into any history. -/
theorem C11_subop_always_loads (ws : Char → Bool) (es0 : List Text) (m0 : Nat) (cfg : Nat → Nat × Bool × Bool)
    (hne : ∀ e ∈ es0, e ≠ []) (subops : List SubOp) :
    ∃ es m, ((SubSys.init (Sys.init (some { content := atomsOf (fileOf es0), mtime := m0 }) cfg) false).run ws subops).sys.file
        = some { content := atomsOf (fileOf es), mtime := m } ∧
      ∀ h : FileHist, (loadFrom ws (atomsOf (fileOf es)) h).status = .ok := by
  obtain ⟨ops, h⟩ := C11_subop_refines_sys ws _ subops (init_good es0 m0 cfg hne) rfl
  obtain ⟨es, m, hf, _, hl⟩ := C11_always_loads ws es0 m0 cfg hne ops
  exact ⟨es, m, by rw [h]; exact hf, fun x => (hl x).1⟩

/-- `truncFirst = false` (the repair of D14) is needed for the refinement: the state the old code
    reaches after `File::create` in the D14 schedule (an empty file) is not a state of the
    operation-atomic system, whatever operations it runs. -/
theorem C11_subop_refines_needs_repair :
    ¬ ∃ ops : List Op, (((C11_start C11_fileI true).run C11_ws (C11_D14_schedule.take 5)).sys.file.map (·.content))
        = (((Sys.init C11_fileI C11_cfg).run C11_ws ops).file.map (·.content)) := by
  rintro ⟨ops, h⟩
  rw [C11_subop_D14_counterexample.2] at h
  obtain ⟨es, m, hf, _, _⟩ := C11_always_loads C11_ws ["i".toList] 0 C11_cfg (by decide) ops
  have hf' : (Sys.init C11_fileI C11_cfg).run C11_ws ops
      = (Sys.init (some { content := atomsOf (fileOf ["i".toList]), mtime := 0 }) C11_cfg).run C11_ws ops := rfl
  rw [hf', hf] at h
  simp [fileOf, atomsOf, header] at h

/-- "The file is present" is needed too (outside the property's quantifier): when it is missing,
    `save` creates it empty before it takes the lock, and an empty file is not a state of the
    operation-atomic system either (there the file is missing or has the version header). -/
theorem C11_subop_refines_needs_file :
    ¬ ∃ ops : List Op, (((C11_start none false).run C11_ws [.add 1 "a".toList, .saveOpen 1 5]).sys.file)
        = ((Sys.init none C11_cfg).run C11_ws ops).file := by
  rintro ⟨ops, h⟩
  have h0 : ((C11_start none false).run C11_ws [.add 1 "a".toList, .saveOpen 1 5]).sys.file
      = some { content := [], mtime := 5 } := by decide
  rw [h0] at h
  rcases C11_always_loads_from C11_ws _ (init_good_missing C11_cfg) ops with hn | ⟨es, m, hf, _⟩
  · rw [hn] at h; cases h
  · rw [hf] at h
    simp [fileOf, atomsOf, header] at h

/-! ### the size limit when modification times are distinguishable -/

/-- One append in a state where the remembered sizes are accurate (`Accurate`, an invariant of
    runs with distinguishable modification times, see `C11_bound`): afterwards the file holds at
    most `max_len` entries of the appending session. -/
theorem C11_bound_step (ws : Char → Bool) (s : Sys) (hg : Good s) (hacc : Accurate s) (i mt : Nat)
    (hnew : (s.sess i).fh.newEntries ≠ 0) :
    ∃ F', (s.append ws i mt).1.file = some { content := atomsOf (fileOf F'), mtime := mt } ∧
      F'.length ≤ (s.sess i).fh.mem.maxLen := by
  obtain ⟨F, fm, hf, hne, hfm, hall⟩ := hacc
  have hflag : ((s.sess i).fh.mem.entries.isEmpty || (s.sess i).fh.newEntries == 0) = false := by
    have := (hg.2 i).2
    have hlen : (s.sess i).fh.mem.entries ≠ [] := by
      intro h; rw [h] at this; simp at this; exact hnew this
    simp [hlen, hnew]
  rw [append_eq ws s i mt fm F hf hne hflag]
  exact ⟨_, rfl, (appendOut_bound ws s i fm F hg (fun pm size hp => (hall i pm size hp).2)).1⟩

/-- The size limit.  Start from an existing file and fresh sessions (any number, any limits); let
    them run ANY interleaving of load-at-start / add / append / save in which every write gets a
    modification time distinguishable from all earlier ones (`DistRun`: `mt > clock`, no outside
    touch, loads only into empty histories).  Then after a further append by any session `i` that
    has something new, the file holds at most `max_len i` entries — and every list of entries that
    produces this file has that length. -/
theorem C11_bound (ws : Char → Bool) (es0 : List Text) (m0 : Nat) (cfg : Nat → Nat × Bool × Bool)
    (hne : ∀ e ∈ es0, e ≠ []) (ops : List Op)
    (hd : DistRun ws (Sys.init (some { content := atomsOf (fileOf es0), mtime := m0 }) cfg) ops)
    (i mt : Nat)
    (hnew : (((Sys.init (some { content := atomsOf (fileOf es0), mtime := m0 }) cfg).run ws ops).sess i).fh.newEntries ≠ 0) :
    ∃ F', (((Sys.init (some { content := atomsOf (fileOf es0), mtime := m0 }) cfg).run ws ops).append ws i mt).1.file
        = some { content := atomsOf (fileOf F'), mtime := mt } ∧
      F'.length ≤ (cfg i).1 ∧
      ∀ F'', atomsOf (fileOf F'') = atomsOf (fileOf F') → F''.length ≤ (cfg i).1 := by
  have h := run_accurate ws ops _ (init_good es0 m0 cfg hne) (init_accurate es0 m0 cfg hne) hd
  obtain ⟨F', hF, hlen⟩ := C11_bound_step ws _ h.2 h.1 i mt hnew
  have hmax : (((Sys.init (some { content := atomsOf (fileOf es0), mtime := m0 }) cfg).run ws ops).sess i).fh.mem.maxLen
      = (cfg i).1 := run_maxLen ws ops _ cfg (init_good es0 m0 cfg hne) i
  rw [hmax] at hlen
  exact ⟨F', hF, hlen, fun F'' h' => by rw [fileOf_length_inj h']; exact hlen⟩

set_option maxRecDepth 100000 in
/-- Why "load at start" is needed (outside the property): `load` into a NON-empty history records
    `len_after - len_before` as the file's size; with a full history that is 0, the next append
    takes the fast path and the file exceeds the limit although every time is distinguishable.
    (limit 3: history p,q,r; file x,y; load; add u,v; append → x,y,u,v) -/
theorem C11_bound_needs_load_at_start :
    let s := (Sys.init (some { content := atomsOf (fileOf ["x".toList, "y".toList]), mtime := 0 })
        (fun _ => (3, false, false))).run C11_ws
      [.add 0 "p".toList, .add 0 "q".toList, .add 0 "r".toList, .load 0,
       .add 0 "u".toList, .add 0 "v".toList, .append 0 1]
    C11_entriesOf (SubSys.init s false) = some ["x", "y", "u", "v"] := by
  decide

/-! ### no loss along whole traces

  A ghost list follows the run: it starts as the entries of the file and every append that has
  something new adds that session's new lines (`newOnes`: the lines it accepted since its last
  write) at the end — nothing is ever removed from it.  `C11_fitsRun` is "the limit is not
  exceeded": at every append the ghost list followed by the new lines is something the appending
  session's store can hold (`Storable`), and no `save` with something new occurs (`save` overwrites
  by design).  Then the file IS the ghost list after every step: every line any append wrote is
  still there, in append order, exactly once. -/

def C11_hasNew (s : Sys) (i : Nat) : Bool :=
  !((s.sess i).fh.mem.entries.isEmpty || (s.sess i).fh.newEntries == 0)

def C11_ghost (s : Sys) (F : List Text) : Op → List Text
  | .append i _ => if C11_hasNew s i then F ++ newOnes (s.sess i).fh else F
  | _ => F

def C11_fits (ws : Char → Bool) (s : Sys) (F : List Text) : Op → Prop
  | .append i _ => C11_hasNew s i = true →
      Storable ws (s.sess i).fh.mem.maxLen (s.sess i).fh.mem.ignoreSpace (s.sess i).fh.mem.ignoreDups
        (F ++ newOnes (s.sess i).fh)
  | .save i _ => C11_hasNew s i = false
  | _ => True

def C11_fitsRun (ws : Char → Bool) : Sys → List Text → List Op → Prop
  | _, _, [] => True
  | s, F, op :: ops => C11_fits ws s F op ∧ C11_fitsRun ws (s.step ws op).1 (C11_ghost s F op) ops

def C11_ghostRun (ws : Char → Bool) : Sys → List Text → List Op → List Text
  | _, F, [] => F
  | s, F, op :: ops => C11_ghostRun ws (s.step ws op).1 (C11_ghost s F op) ops

theorem C11_no_loss_step (ws : Char → Bool) (s : Sys) (F : List Text) (op : Op) (hg : Good s)
    (hf : FileIs s F) (hfit : C11_fits ws s F op) : FileIs (s.step ws op).1 (C11_ghost s F op) := by
  obtain ⟨fm, hf⟩ := hf
  cases op with
  | load i =>
    simp only [Sys.step, Sys.load, hf, C11_ghost]
    split
    · split <;> exact ⟨fm, hf⟩
    · exact ⟨fm, hf⟩
  | add i l => exact ⟨fm, hf⟩
  | touch mt => simp only [Sys.step, Sys.touch, hf, C11_ghost]; exact ⟨mt, rfl⟩
  | save i mt =>
    simp only [C11_fits, C11_hasNew, Bool.not_eq_eq_eq_not, Bool.not_false] at hfit
    simp only [Sys.step, save_nothing s i mt hfit, C11_ghost]; exact ⟨fm, hf⟩
  | append i mt =>
    simp only [Sys.step, C11_ghost]
    cases hn : C11_hasNew s i
    · simp only [C11_hasNew, Bool.not_eq_eq_eq_not, Bool.not_false] at hn
      rw [append_nothing ws s i mt hn]; exact ⟨fm, hf⟩
    · have hs := hfit hn
      have hnew : (s.sess i).fh.newEntries ≠ 0 := by
        intro h; simp [C11_hasNew, h] at hn
      exact ⟨mt, by simpa using C11_append_keeps ws s hg i mt fm F hf hnew hs⟩

/-- No loss, for any number of sessions and any interleaving: while the limit is not exceeded the
    file holds exactly its original entries followed by the lines of every append, in the order
    the appends happened; in particular the file only ever grows at the end. -/
theorem C11_no_loss (ws : Char → Bool) (ops : List Op) (s : Sys) (F : List Text) (hg : Good s)
    (hf : FileIs s F) (hfit : C11_fitsRun ws s F ops) :
    FileIs (s.run ws ops) (C11_ghostRun ws s F ops) ∧ F <+: C11_ghostRun ws s F ops := by
  induction ops generalizing s F with
  | nil => exact ⟨hf, List.prefix_refl _⟩
  | cons op ops ih =>
    have h := ih _ _ (step_good ws s op hg) (C11_no_loss_step ws s F op hg hf hfit.1) hfit.2
    refine ⟨h.1, List.IsPrefix.trans ?_ h.2⟩
    cases op <;> simp only [C11_ghost] <;> try exact List.prefix_refl _
    split
    · exact List.prefix_append _ _
    · exact List.prefix_refl _

/-- Full statement wanted by DESIGN.md: the counting form of the hypothesis — fresh sessions with
    a common ignore-space setting, a trace of load / add / append, pairwise distinct lines, and
    `|initial entries| + number of adds ≤ max_len` of every session — implies `C11_fitsRun`.
    (`C11_no_loss` is proved with the per-append form of "limit not exceeded".)
    Proved below: `C11_no_loss_counting`. -/
def C11_no_loss_counting_statement : Prop :=
  ∀ (ws : Char → Bool) (es0 : List Text) (m0 : Nat) (cfg : Nat → Nat × Bool × Bool) (isp : Bool) (ops : List Op),
    (∀ i, (cfg i).2.1 = isp) →
    (∀ e ∈ es0, e ≠ [] ∧ (isp = true → ∀ c t, e = c :: t → ws c = false)) →
    (∀ op ∈ ops, match op with | .save _ _ => False | .touch _ => True | _ => True) →
    (es0 ++ ops.filterMap (fun op => match op with | .add _ l => some l | _ => none)).Nodup →
    (∀ i, es0.length + (ops.filter (fun op => match op with | .add _ _ => true | _ => false)).length ≤ (cfg i).1) →
    C11_fitsRun ws (Sys.init (some { content := atomsOf (fileOf es0), mtime := m0 }) cfg) es0 ops

/-- The counting invariant gives the per-append form, from any state.  `U` is every line there is
    (initial entries and every line ever entered, pairwise distinct), every store has room for all
    of `U` and the sessions agree on ignore-space (`CfgOk`); `CInv` (Rl/Lemmas/FileSession2.lean):
    the file entries `F` followed by the unwritten lines of any one session have no repetition,
    are lines of `U` that are not entered again and that a store accepts, and the unwritten lines
    of two sessions are disjoint.  Every step without `save` keeps it (`add` moves the entered
    line from the future to the session's unwritten lines — or drops it when the store refuses it;
    `load` forgets the session's unwritten lines; `append` moves them to the end of the file), and
    under it `F ++ unwritten i` is `Storable` by the pigeonhole principle. -/
theorem C11_fitsRun_of_counting (ws : Char → Bool) (isp : Bool) (U : List Text) (ops : List Op) (s : Sys)
    (F : List Text) (hg : Good s) (hf : FileIs s F) (hc : CfgOk isp U s)
    (hinv : CInv ws isp U (pend s) F (addsOf ops))
    (hns : ∀ op ∈ ops, match op with | .save _ _ => False | .touch _ => True | _ => True) :
    C11_fitsRun ws s F ops ∧
      CInv ws isp U (pend (s.run ws ops)) (C11_ghostRun ws s F ops) [] ∧ CfgOk isp U (s.run ws ops) := by
  induction ops generalizing s F with
  | nil => exact ⟨trivial, hinv, hc⟩
  | cons op ops ih =>
    have hns' : ∀ o ∈ ops, match o with | .save _ _ => False | .touch _ => True | _ => True :=
      fun o ho => hns o (by simp [ho])
    have hfit : C11_fits ws s F op := by
      cases op with
      | append i mt => exact fun _ => cinv_storable ws isp U s F _ i hc hinv
      | save i mt => exact (hns (.save i mt) (by simp)).elim
      | load i => trivial
      | add i l => trivial
      | touch mt => trivial
    have hg' := step_good ws s op hg
    have hf' := C11_no_loss_step ws s F op hg hf hfit
    have hc' := cfgOk_step ws isp U s op hg hc
    have hne : NonEmpty F := fun e he => (hinv.mem 0 e (by simp [he])).2.2.1
    have hinv' : CInv ws isp U (pend (s.step ws op).1) (C11_ghost s F op) (addsOf ops) := by
      cases op with
      | load i => exact cinv_load ws isp U s F _ i hne hf hinv
      | add i l => exact cinv_add ws isp U s F _ i l hg hc hinv
      | touch mt => exact cinv_touch ws isp U s F _ mt hinv
      | save i mt => exact (hns (.save i mt) (by simp)).elim
      | append i mt =>
        simp only [C11_ghost, Sys.step]
        cases hn : C11_hasNew s i
        · have hn' : nothingNew s i = true := by
            have : (!nothingNew s i) = false := hn
            simpa using this
          unfold nothingNew at hn'
          rw [append_nothing ws s i mt hn']; exact hinv
        · have hn' : nothingNew s i = false := by
            have : (!nothingNew s i) = true := hn
            simpa using this
          exact cinv_append ws isp U s F _ i mt hg hc hf hinv hn'
    obtain ⟨h1, h2, h3⟩ := ih _ _ hg' hf' hc' hinv' hns'
    exact ⟨⟨hfit, h1⟩, h2, h3⟩

/-- **The counting form of "the limit is not exceeded" implies the per-append form.**
    (`C11_no_loss_counting_statement`, true as written.) -/
theorem C11_no_loss_counting : C11_no_loss_counting_statement := by
  intro ws es0 m0 cfg isp ops hisp hok hns hnd hlen
  have hU : ∀ i, (es0 ++ addsOf ops).length ≤ (cfg i).1 := fun i => by
    rw [List.length_append, addsOf_length]; exact hlen i
  exact (C11_fitsRun_of_counting ws isp (es0 ++ addsOf ops) ops _ es0
    (init_good es0 m0 cfg (fun e he => (hok e he).1)) ⟨m0, rfl⟩
    (cfgOk_init isp _ _ cfg hisp hU) (cinv_init ws isp es0 (addsOf ops) m0 cfg hok hnd) hns).1

/-! ### the file under the counting hypothesis

  `refRun` (Rl/Lemmas/FileSession2.lean) is the property text as a program: the file is a list of
  lines, every session has a queue; `add` puts a line the store accepts (`accepts`: not empty, not
  blank-led under ignore-space) at the end of its session's queue, `append` moves the queue to the
  end of the file, `load` empties the queue (lines entered before a load are never written: the
  code sets `new_entries = 0`).  Under the counting hypothesis the real system is this program. -/

/-- **The file, exactly.**  Under the counting hypothesis (as in `C11_no_loss_counting_statement`)
    the file after the trace holds exactly the reference file — the initial entries followed, for
    every append in trace order, by the lines its session entered since its previous append (or
    load), in the order entered — and every session's unwritten lines are its reference queue.
    Consequently: the initial entries come first; no line is in the file twice, nor both in the
    file and still unwritten; the file holds only initial entries and entered lines. -/
theorem C11_counting_file (ws : Char → Bool) (es0 : List Text) (m0 : Nat) (cfg : Nat → Nat × Bool × Bool)
    (isp : Bool) (ops : List Op)
    (hisp : ∀ i, (cfg i).2.1 = isp)
    (hok : ∀ e ∈ es0, e ≠ [] ∧ (isp = true → ∀ c t, e = c :: t → ws c = false))
    (hns : ∀ op ∈ ops, match op with | .save _ _ => False | .touch _ => True | _ => True)
    (hnd : (es0 ++ ops.filterMap (fun op => match op with | .add _ l => some l | _ => none)).Nodup)
    (hlen : ∀ i, es0.length + (ops.filter (fun op => match op with | .add _ _ => true | _ => false)).length ≤ (cfg i).1) :
    FileIs ((Sys.init (some { content := atomsOf (fileOf es0), mtime := m0 }) cfg).run ws ops)
        (refRun (accepts ws isp) es0 (fun _ => []) ops).1 ∧
    (∀ i, newOnes (((Sys.init (some { content := atomsOf (fileOf es0), mtime := m0 }) cfg).run ws ops).sess i).fh
        = (refRun (accepts ws isp) es0 (fun _ => []) ops).2 i) ∧
    es0 <+: (refRun (accepts ws isp) es0 (fun _ => []) ops).1 ∧
    (∀ i, ((refRun (accepts ws isp) es0 (fun _ => []) ops).1 ++ (refRun (accepts ws isp) es0 (fun _ => []) ops).2 i).Nodup) ∧
    (∀ e ∈ (refRun (accepts ws isp) es0 (fun _ => []) ops).1, e ∈ es0 ∨
      e ∈ ops.filterMap (fun op => match op with | .add _ l => some l | _ => none)) := by
  have hU : ∀ i, (es0 ++ addsOf ops).length ≤ (cfg i).1 := fun i => by
    rw [List.length_append, addsOf_length]; exact hlen i
  have hns' : ∀ op ∈ ops, notSave op := fun op hop => by
    have := hns op hop
    cases op <;> first | exact this | trivial
  obtain ⟨h1, h2, h3⟩ := count_run ws isp (es0 ++ addsOf ops) ops _ es0
    (init_good es0 m0 cfg (fun e he => (hok e he).1)) ⟨m0, rfl⟩
    (cfgOk_init isp _ _ cfg hisp hU) (cinv_init ws isp es0 (addsOf ops) m0 cfg hok hnd)
    (memInv_init _ cfg _) hns'
  rw [pend_init] at h1 h2 h3
  refine ⟨h1, fun i => congrFun h2 i, refRun_prefix _ ops es0 _, fun i => ?_, fun e he => ?_⟩
  · have := h3.nodup i
    rw [h2] at this; exact this
  · have := (h3.mem 0 e (by simp [he])).1
    exact List.mem_append.mp this

/-- **Every entered line exactly once, in order.**  Under the counting hypothesis, for a session
    `i` whose loads come before the lines it enters (the trace splits into a part where `i` enters
    nothing and a part where `i` does not load — the property's programs `load;(add|append)*`):
    the lines of session `i` that the file holds after the trace, in file order, followed by the
    lines it has not written yet, are exactly the lines it entered and its store accepts
    (`entered`: not empty, not blank-led under ignore-space), in the order entered.  So none of
    them is lost, none is in the file twice, they are in the order entered, and once the session
    has appended (nothing unwritten) they are all in the file. -/
theorem C11_counting_session (ws : Char → Bool) (es0 : List Text) (m0 : Nat) (cfg : Nat → Nat × Bool × Bool)
    (isp : Bool) (pre rest : List Op) (i : Nat)
    (hisp : ∀ j, (cfg j).2.1 = isp)
    (hok : ∀ e ∈ es0, e ≠ [] ∧ (isp = true → ∀ c t, e = c :: t → ws c = false))
    (hns : ∀ op ∈ pre ++ rest, match op with | .save _ _ => False | .touch _ => True | _ => True)
    (hnd : (es0 ++ (pre ++ rest).filterMap (fun op => match op with | .add _ l => some l | _ => none)).Nodup)
    (hlen : ∀ j, es0.length + ((pre ++ rest).filter (fun op => match op with | .add _ _ => true | _ => false)).length ≤ (cfg j).1)
    (hpre : ∀ l, Op.add i l ∉ pre) (hrest : ∀ op ∈ rest, op ≠ .load i) :
    ∃ G, FileIs ((Sys.init (some { content := atomsOf (fileOf es0), mtime := m0 }) cfg).run ws (pre ++ rest)) G ∧
      es0 <+: G ∧ G.Nodup ∧
      G.filter (fun e => decide (e ∈ entered (accepts ws isp) i (pre ++ rest)))
          ++ newOnes (((Sys.init (some { content := atomsOf (fileOf es0), mtime := m0 }) cfg).run ws (pre ++ rest)).sess i).fh
        = entered (accepts ws isp) i (pre ++ rest) := by
  obtain ⟨h1, h2, h3, h4, _⟩ := C11_counting_file ws es0 m0 cfg isp (pre ++ rest) hisp hok hns hnd hlen
  refine ⟨_, h1, h3, (List.nodup_append.mp (h4 0)).1, ?_⟩
  rw [h2 i]
  exact refRun_session_total (accepts ws isp) i es0 pre rest hnd hpre hrest

/-- Non-vacuity / a concrete instance of the two theorems above: two sessions with limit 4 on a
    file holding `i`; session 1 loads, enters `a`, `b`; session 2 enters `c` (without loading) and
    appends; session 1 appends.  The file is `i, c, a, b`. -/
theorem C11_counting_example :
    C11_entriesOf (SubSys.init ((Sys.init C11_fileI (fun _ => (4, false, false))).run C11_ws
      [.load 1, .add 1 "a".toList, .add 2 "c".toList, .add 1 "b".toList, .append 2 1, .append 1 2]) false)
      = some ["i", "c", "a", "b"] ∧
    (refRun (accepts C11_ws false) ["i".toList] (fun _ => [])
      [.load 1, .add 1 "a".toList, .add 2 "c".toList, .add 1 "b".toList, .append 2 1, .append 1 2]).1
      = ["i".toList, "c".toList, "a".toList, "b".toList] := by
  decide

/-- Why the counting hypothesis asks for a COMMON ignore-space setting: session 1 (ignore-space
    off) writes the blank-led line ` x`; session 2 (ignore-space on, limit far away) then appends
    `y` by rewriting the file through its own store, which refuses ` x` — the line is lost although
    no limit is near. -/
theorem C11_counting_needs_common_ignore_space :
    C11_entriesOf (SubSys.init ((Sys.init C11_fileI (fun i => if i = 1 then (4, false, false) else (4, true, false))).run C11_ws
      [.add 1 " x".toList, .append 1 1, .add 2 "y".toList, .append 2 2]) false)
      = some ["i", "y"] := by
  decide

/-! ### the size bookkeeping (`path_info`), the bound as a trace invariant, and what is left of the
    bound when modification times are NOT distinguishable -/

/-- **`path_info` records the true size after an append.**  In a state where the remembered sizes
    are accurate (`Accurate`: the invariant of runs with distinguishable times) an append by
    session `i` that has something new — fast path, merge-and-rewrite or the `save` shortcut —
    leaves `path_info` of `i` = (the new modification time, the number of entries the file now
    holds); and that number is a function of the file (every entry list that produces the file has
    that length).  (A fast-path append that adds a wrong number to the remembered size violates
    this.) -/
theorem C11_append_records_size (ws : Char → Bool) (s : Sys) (hg : Good s) (hacc : Accurate s) (i mt : Nat)
    (hnew : (s.sess i).fh.newEntries ≠ 0) :
    ∃ F', (s.append ws i mt).1.file = some { content := atomsOf (fileOf F'), mtime := mt } ∧
      ((s.append ws i mt).1.sess i).pathInfo = some (mt, F'.length) ∧
      ∀ F'', atomsOf (fileOf F'') = atomsOf (fileOf F') → F''.length = F'.length := by
  obtain ⟨F, fm, hf, hne, hfm, hall⟩ := hacc
  have hflag : ((s.sess i).fh.mem.entries.isEmpty || (s.sess i).fh.newEntries == 0) = false := by
    have := (hg.2 i).2
    have hlen : (s.sess i).fh.mem.entries ≠ [] := by
      intro h; rw [h] at this; simp at this; exact hnew this
    simp [hlen, hnew]
  rw [append_eq ws s i mt fm F hf hne hflag]
  have hb := appendOut_bound ws s i fm F hg (fun pm size hp => (hall i pm size hp).2)
  exact ⟨_, rfl, by simp [Sys.wrote, hb.2], fun F'' h => fileOf_length_inj h⟩

/-- **`save`: file, bound and bookkeeping, with no assumption on modification times.**  A save by
    a session that has something new replaces the file by exactly that session's entries — at
    most `max_len` of them — and records (new time, that number) as `path_info`. -/
theorem C11_save_bound (s : Sys) (hg : Good s) (i mt : Nat) (hnew : (s.sess i).fh.newEntries ≠ 0) :
    (s.save i mt).1.file = some { content := atomsOf (fileOf (s.sess i).fh.mem.entries), mtime := mt } ∧
    (s.sess i).fh.mem.entries.length ≤ (s.sess i).fh.mem.maxLen ∧
    ((s.save i mt).1.sess i).pathInfo = some (mt, (s.sess i).fh.mem.entries.length) := by
  have hflag : ((s.sess i).fh.mem.entries.isEmpty || (s.sess i).fh.newEntries == 0) = false := by
    have := (hg.2 i).2
    have hlen : (s.sess i).fh.mem.entries ≠ [] := by
      intro h; rw [h] at this; simp at this; exact hnew this
    simp [hlen, hnew]
  rw [save_eq s i mt hflag]
  exact ⟨rfl, (hg.2 i).1, by simp [Sys.wrote]⟩

/-- **Whenever the fast path is open, the remembered size is the true size.**  Existing file, fresh
    sessions (any number, any limits), ANY interleaving with distinguishable modification times
    (`DistRun`): in the state reached, if `can_just_append` holds for a session `j`, then the size
    in its `path_info` is exactly the number of entries in the file, and appending its new lines
    keeps the file within its limit. -/
theorem C11_fast_path_size_exact (ws : Char → Bool) (es0 : List Text) (m0 : Nat) (cfg : Nat → Nat × Bool × Bool)
    (hne : ∀ e ∈ es0, e ≠ []) (ops : List Op)
    (hd : DistRun ws (Sys.init (some { content := atomsOf (fileOf es0), mtime := m0 }) cfg) ops) (j : Nat) :
    ∃ F fm, ((Sys.init (some { content := atomsOf (fileOf es0), mtime := m0 }) cfg).run ws ops).file
        = some { content := atomsOf (fileOf F), mtime := fm } ∧
      (canJustAppend (((Sys.init (some { content := atomsOf (fileOf es0), mtime := m0 }) cfg).run ws ops).sess j)
          { content := atomsOf (fileOf F), mtime := fm } = true →
        ∃ pm, (((Sys.init (some { content := atomsOf (fileOf es0), mtime := m0 }) cfg).run ws ops).sess j).pathInfo
            = some (pm, F.length) ∧
          F.length + (((Sys.init (some { content := atomsOf (fileOf es0), mtime := m0 }) cfg).run ws ops).sess j).fh.newEntries
            ≤ (cfg j).1) := by
  have h := run_accurate ws ops _ (init_good es0 m0 cfg hne) (init_accurate es0 m0 cfg hne) hd
  have hmax := run_maxLen ws ops _ cfg (init_good es0 m0 cfg hne) j
  obtain ⟨F, fm, hf, _, _, hall⟩ := h.1
  refine ⟨F, fm, hf, fun hc => ?_⟩
  obtain ⟨pm, size, hp, hpm, hlt, hle⟩ := (canJustAppend_iff _ _).mp hc
  have hsz : size = F.length := by
    rcases (hall j pm size hp).2 hpm with h | h
    · exact h
    · omega
  subst hsz
  exact ⟨pm, hp, by rw [← hmax]; exact hle⟩

/-- **The size limit as an invariant of the whole trace.**  Existing file holding `es0`, fresh
    sessions (any number, any limits), ANY interleaving with distinguishable modification times:
    at every moment the file still holds `es0` untouched, or holds at most `max_len j` entries for
    some session `j` (the last one that wrote).  In particular, if `L` is at least every limit and
    at least the initial size, the file never holds more than `L` entries. -/
theorem C11_bound_always (ws : Char → Bool) (es0 : List Text) (m0 : Nat) (cfg : Nat → Nat × Bool × Bool)
    (hne : ∀ e ∈ es0, e ≠ []) (ops : List Op)
    (hd : DistRun ws (Sys.init (some { content := atomsOf (fileOf es0), mtime := m0 }) cfg) ops) :
    ∃ F m, ((Sys.init (some { content := atomsOf (fileOf es0), mtime := m0 }) cfg).run ws ops).file
        = some { content := atomsOf (fileOf F), mtime := m } ∧
      (F = es0 ∨ ∃ j, F.length ≤ (cfg j).1) ∧
      ∀ L, (∀ j, (cfg j).1 ≤ L) → es0.length ≤ L → F.length ≤ L := by
  obtain ⟨F, ⟨m, hf⟩, hF⟩ := run_bounded ws es0 ops _ (init_good es0 m0 cfg hne)
    (init_accurate es0 m0 cfg hne) ⟨es0, ⟨m0, rfl⟩, Or.inl rfl⟩ hd
  have hF' : F = es0 ∨ ∃ j, F.length ≤ (cfg j).1 :=
    hF.imp id (fun ⟨j, hj⟩ => ⟨j, by rw [run_maxLen ws ops _ cfg (init_good es0 m0 cfg hne) j] at hj; exact hj⟩)
  refine ⟨F, m, hf, hF', fun L hL h0 => ?_⟩
  rcases hF' with rfl | ⟨j, hj⟩
  · exact h0
  · exact Nat.le_trans hj (hL j)

example : DistRun C11_ws (Sys.init C11_fileI (fun _ => (3, false, false)))
    [.load 1, .load 2, .add 1 "a".toList, .append 1 1, .add 2 "b".toList, .add 2 "c".toList, .append 2 2] :=
  ⟨by show _ = []; decide, by show _ = []; decide, trivial, by show _ < _; decide, trivial, trivial, by show _ < _; decide, trivial⟩

/-- **Without distinguishable times: what one append can do.**  NO assumption on modification
    times or on `path_info`.  An append by session `i` that has something new either leaves at
    most `max_len i` entries in the file, or it took the fast path: then the new file is the WHOLE
    old file followed by the new lines (nothing is removed), the session's `path_info` matched the
    file's modification time, and the file exceeds the limit by at most `|old file| - remembered
    size`, the number of entries others wrote without the modification time changing.  So the
    only clause of C11 that needs distinguishable times is the bound; "always loads", the shape
    of an append, no loss and no double write are proved above without any such hypothesis. -/
theorem C11_append_overshoot (ws : Char → Bool) (s : Sys) (hg : Good s) (i mt fm : Nat) (F : List Text)
    (hf : s.file = some { content := atomsOf (fileOf F), mtime := fm }) (hne : ∀ e ∈ F, e ≠ [])
    (hnew : (s.sess i).fh.newEntries ≠ 0) :
    ∃ F', (s.append ws i mt).1.file = some { content := atomsOf (fileOf F'), mtime := mt } ∧
      (F'.length ≤ (s.sess i).fh.mem.maxLen ∨
        (F' = F ++ newOnes (s.sess i).fh ∧
          ∃ pm size, (s.sess i).pathInfo = some (pm, size) ∧ pm = fm ∧
            ((s.append ws i mt).1.sess i).pathInfo = some (mt, size + (s.sess i).fh.newEntries) ∧
            F'.length ≤ (s.sess i).fh.mem.maxLen + (F.length - size))) := by
  have hflag : ((s.sess i).fh.mem.entries.isEmpty || (s.sess i).fh.newEntries == 0) = false := by
    have := (hg.2 i).2
    have hlen : (s.sess i).fh.mem.entries ≠ [] := by
      intro h; rw [h] at this; simp at this; exact hnew this
    simp [hlen, hnew]
  rw [append_eq ws s i mt fm F hf hne hflag]
  refine ⟨_, rfl, ?_⟩
  rcases appendOut_bound_or_fast ws (s.sess i) fm F (hg.2 i) with h | ⟨h1, pm, size, hp, hpm, h2, h3⟩
  · exact Or.inl h
  · exact Or.inr ⟨h1, pm, size, hp, hpm, by simp [Sys.wrote, h2], h3⟩

set_option maxRecDepth 100000 in
/-- **The bound needs distinguishable times (and only the bound is lost).**  Limit 3, file `i`;
    sessions 1 and 2 load; 1 enters `a` and appends, and that write leaves the modification time
    it found (0); 2 enters `b`, `c` and appends: its remembered (time 0, size 1) still matches, it
    takes the fast path and the file holds 4 entries `i a b c` — every line is there, in order,
    the file loads, only the limit is exceeded.  With distinguishable times (1, then 2) session 2
    merges and rewrites: `a b c`. -/
theorem C11_bound_needs_distinguishable :
    C11_entriesOf (SubSys.init ((Sys.init C11_fileI (fun _ => (3, false, false))).run C11_ws
      [.load 1, .load 2, .add 1 "a".toList, .append 1 0, .add 2 "b".toList, .add 2 "c".toList, .append 2 0]) false)
      = some ["i", "a", "b", "c"] ∧
    C11_entriesOf (SubSys.init ((Sys.init C11_fileI (fun _ => (3, false, false))).run C11_ws
      [.load 1, .load 2, .add 1 "a".toList, .append 1 1, .add 2 "b".toList, .add 2 "c".toList, .append 2 2]) false)
      = some ["a", "b", "c"] := by
  decide

/-- **`path_info` = the true size, along whole traces.**  Existing file, fresh sessions, any
    interleaving with distinguishable times, then an append by any session `i` that has something
    new (with ANY time): the size `i` remembers is the number of entries the file now holds. -/
theorem C11_path_info_size_exact (ws : Char → Bool) (es0 : List Text) (m0 : Nat) (cfg : Nat → Nat × Bool × Bool)
    (hne : ∀ e ∈ es0, e ≠ []) (ops : List Op)
    (hd : DistRun ws (Sys.init (some { content := atomsOf (fileOf es0), mtime := m0 }) cfg) ops)
    (i mt : Nat)
    (hnew : (((Sys.init (some { content := atomsOf (fileOf es0), mtime := m0 }) cfg).run ws ops).sess i).fh.newEntries ≠ 0) :
    ∃ F', (((Sys.init (some { content := atomsOf (fileOf es0), mtime := m0 }) cfg).run ws ops).append ws i mt).1.file
        = some { content := atomsOf (fileOf F'), mtime := mt } ∧
      ((((Sys.init (some { content := atomsOf (fileOf es0), mtime := m0 }) cfg).run ws ops).append ws i mt).1.sess i).pathInfo
        = some (mt, F'.length) := by
  have h := run_accurate ws ops _ (init_good es0 m0 cfg hne) (init_accurate es0 m0 cfg hne) hd
  obtain ⟨F', h1, h2, _⟩ := C11_append_records_size ws _ h.2 h.1 i mt hnew
  exact ⟨F', h1, h2⟩

/-- Non-vacuity of the hypotheses `Good`, `Accurate`, "something new" used above: the state after
    session 1 loaded the file `i` and entered `a`. -/
example : ∃ s : Sys, Good s ∧ Accurate s ∧ (s.sess 1).fh.newEntries ≠ 0 ∧ s.file = C11_fileI :=
  have h := run_accurate C11_ws [.load 1, .add 1 "a".toList]
    (Sys.init (some { content := atomsOf (fileOf ["i".toList]), mtime := 0 }) (fun _ => (3, false, false)))
    (init_good _ 0 _ (by show ∀ e ∈ ["i".toList], e ≠ []; decide))
    (init_accurate _ 0 _ (by show ∀ e ∈ ["i".toList], e ≠ []; decide))
    ⟨by show _ = []; decide, trivial, trivial⟩
  ⟨_, h.2, h.1, by decide, by decide⟩
