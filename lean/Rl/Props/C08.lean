/-
  Property C08 — incremental history search finds the nearest match and abort restores the line.
  The search loop of the model (`searchLoop` in Rl/Editor.lean) asks the history store of C09;
  the oracle (`Spec.oracleC08`) replays the loop on the implementation's callbacks with the
  declarative nearest-match spec.
-/
import Rl.Editor
import Rl.Props.C09
import Rl.Spec.OracleSearch
import Rl.Lemmas.EditorLoops
open Rl Rl.Spec

/-- Whenever the model's search step succeeds, the line it shows is a stored entry that really
    contains the search text at the cursor offset (its first occurrence), on the requested side of
    the current index, and no nearer entry in that direction contains it. -/
theorem C08_success_sound (cfg : EdCfg) (t : Text) (idx : Nat) (d : Dir) (i : Nat) (e : Text) (off : Nat)
    (h : (memHist cfg).search t idx d = some (i, e, off)) :
    cfg.hist[i]? = some e ∧ OccursAt t e off ∧
    (d = .forward → idx ≤ i ∧ ∀ (j : Nat) (e' : Text), idx ≤ j → j < i → cfg.hist[j]? = some e' → ∀ o, ¬ OccursAt t e' o) ∧
    (d = .reverse → i ≤ idx ∧ ∀ (j : Nat) (e' : Text), i < j → j ≤ idx → cfg.hist[j]? = some e' → ∀ o, ¬ OccursAt t e' o) := by
  have := C09_search_sound (memHist cfg) t idx d i e off h
  simp only [memHist] at this
  exact ⟨this.1, this.2.1, this.2.2.2.1, this.2.2.2.2⟩

/-- A failed search step means: nothing on that side of the index contains the text (or the text is
    empty), so no match is skipped. -/
theorem C08_failure_complete (cfg : EdCfg) (t : Text) (idx : Nat) (d : Dir)
    (h : (memHist cfg).search t idx d = none) (ht : t ≠ []) (hidx : idx < cfg.hist.length) :
    (d = .forward → ∀ (j : Nat) (e' : Text), idx ≤ j → cfg.hist[j]? = some e' → ∀ o, ¬ OccursAt t e' o) ∧
    (d = .reverse → ∀ (j : Nat) (e' : Text), j ≤ idx → cfg.hist[j]? = some e' → ∀ o, ¬ OccursAt t e' o) := by
  rcases (C09_search_none (memHist cfg) t idx d).1 h with h1 | h1 | h1
  · exact absurd h1 ht
  · simp only [memHist] at h1; omega
  · simpa [memHist] using h1

/-- The oracle's search step and the model's search step are the same function of the history
    (`Spec.find` = `MemHist.search`, proved for C09). -/
theorem C08_oracle_agrees_with_model (cfg : EdCfg) (t : Text) (idx : Nat) (d : Dir) :
    (memHist cfg).search t idx d = Spec.find true cfg.hist t idx d := by
  have := searchMatch_eq_find true (memHist cfg) t idx d
  simp only [testOf, if_true] at this
  simpa [MemHist.search, memHist] using this

/-- Statement as first written: aborting the search restores line, cursor and the undo stack.
    The undo-stack clause is too strong in vi mode with a custom binding (a key bound to `Abort` that
    first leaves insert mode closes the group opened by entering insert mode, which lies *below* the
    mark); the line/cursor clauses need a growable buffer.  Proved: `C08_abort_restores`. -/
def C08_abort_restores_statement : Prop :=
  ∀ (S : Segmenter) (U : UData) (cfg : EdCfg) (s s' : Ed) (fuel : Nat),
    reverseIncrementalSearch S U cfg fuel s = .ok (none, s') →
    s'.line.buf = s.line.buf ∧ s'.line.pos = s.line.pos ∧ s'.changes.undos = s.changes.undos

/-- **Abort restores**: whenever the incremental search ends without handing a command back (empty
    history, or C-g after any sequence of search keys, typed characters, backspaces and direction
    changes), the text and cursor are exactly those from before the search. -/
theorem C08_abort_restores (S : Segmenter) (U : UData) (cfg : EdCfg) (s s' : Ed) (fuel : Nat)
    (hrun : reverseIncrementalSearch S U cfg fuel s = .ok (none, s'))
    (hg : s.line.canGrow = true) (hp : s.line.pos ≤ blen s.line.buf) :
    s'.line.buf = s.line.buf ∧ s'.line.pos = s.line.pos ∧ s'.line.canGrow = true := by
  have hw : wp (reverseIncrementalSearch S U cfg fuel)
      (fun r s' => r = none → s'.line.buf = s.line.buf ∧ s'.line.pos = s.line.pos ∧ s'.line.canGrow = true)
      (fun _ _ => True) s := by
    unfold reverseIncrementalSearch
    split
    · simp only [wp_pure]; intro _; exact ⟨trivial, trivial, hg⟩
    · simp only [wp_bind, wp_changesBegin, wp_getLine]
      exact searchLoop_abort S U cfg _ _ _ hp fuel _ _ _ _ _ hg
  exact wp_ok hw hrun rfl
