/-
  Property C08 — incremental history search finds the nearest match and abort restores the line.
  The search loop of the model (`searchLoop` in Rl/Editor.lean) asks the history store of C09;
  the oracle (`Spec.oracleC08`) replays the loop on the implementation's callbacks with the
  declarative nearest-match spec.
-/
import Rl.Editor
import Rl.Props.C09
import Rl.Spec.OracleSearch
import Rl.Lemmas.EditorLoops
import Rl.Lemmas.SearchLoopInv
open Rl Rl.Spec

/-- Whenever the model's search step succeeds, the line it shows is a stored entry that really
    contains the search text at the cursor offset (its first occurrence), on the requested side of
    the current index, and no nearer entry in that direction contains it. -/
theorem C08_success_sound (cfg : EdCfg) (t : Text) (idx : Nat) (d : Dir) (i : Nat) (e : Text) (off : Nat)
    (h : (memHist cfg).search t idx d = some (i, e, off)) :
    cfg.hist[i]? = some e ∧ OccursAt t e off ∧
    (d = .forward → idx ≤ i ∧ ∀ (j : Nat) (e' : Text), idx ≤ j → j < i → cfg.hist[j]? = some e' → ∀ o, ¬ OccursAt t e' o) ∧
    (d = .reverse → i ≤ idx ∧ ∀ (j : Nat) (e' : Text), i < j → j ≤ idx → cfg.hist[j]? = some e' → ∀ o, ¬ OccursAt t e' o) := by
  have := C09_search_sound (memHist cfg) t idx d i e off h
  simp only [memHist] at this
  exact ⟨this.1, this.2.1, this.2.2.2.1, this.2.2.2.2⟩

/-- A failed search step means: nothing on that side of the index contains the text (or the text is
    empty), so no match is skipped. -/
theorem C08_failure_complete (cfg : EdCfg) (t : Text) (idx : Nat) (d : Dir)
    (h : (memHist cfg).search t idx d = none) (ht : t ≠ []) (hidx : idx < cfg.hist.length) :
    (d = .forward → ∀ (j : Nat) (e' : Text), idx ≤ j → cfg.hist[j]? = some e' → ∀ o, ¬ OccursAt t e' o) ∧
    (d = .reverse → ∀ (j : Nat) (e' : Text), j ≤ idx → cfg.hist[j]? = some e' → ∀ o, ¬ OccursAt t e' o) := by
  rcases (C09_search_none (memHist cfg) t idx d).1 h with h1 | h1 | h1
  · exact absurd h1 ht
  · simp only [memHist] at h1; omega
  · simpa [memHist] using h1

/-- The oracle's search step and the model's search step are the same function of the history
    (`Spec.find` = `MemHist.search`, proved for C09). -/
theorem C08_oracle_agrees_with_model (cfg : EdCfg) (t : Text) (idx : Nat) (d : Dir) :
    (memHist cfg).search t idx d = Spec.find true cfg.hist t idx d := by
  have := searchMatch_eq_find true (memHist cfg) t idx d
  simp only [testOf, if_true] at this
  simpa [MemHist.search, memHist] using this

/-- Statement as first written: aborting the search restores line, cursor and the undo stack.
    The undo-stack clause is too strong in vi mode with a custom binding (a key bound to `Abort` that
    first leaves insert mode closes the group opened by entering insert mode, which lies *below* the
    mark); the line/cursor clauses need a growable buffer.  Proved: `C08_abort_restores`. -/
def C08_abort_restores_statement : Prop :=
  ∀ (S : Segmenter) (U : UData) (cfg : EdCfg) (s s' : Ed) (fuel : Nat),
    reverseIncrementalSearch S U cfg fuel s = .ok (none, s') →
    s'.line.buf = s.line.buf ∧ s'.line.pos = s.line.pos ∧ s'.changes.undos = s.changes.undos

/-- **Abort restores**: whenever the incremental search ends without handing a command back (empty
    history, or C-g after any sequence of search keys, typed characters, backspaces and direction
    changes), the text and cursor are exactly those from before the search. -/
theorem C08_abort_restores (S : Segmenter) (U : UData) (cfg : EdCfg) (s s' : Ed) (fuel : Nat)
    (hrun : reverseIncrementalSearch S U cfg fuel s = .ok (none, s'))
    (hg : s.line.canGrow = true) (hp : s.line.pos ≤ blen s.line.buf) :
    s'.line.buf = s.line.buf ∧ s'.line.pos = s.line.pos ∧ s'.line.canGrow = true := by
  have hw : wp (reverseIncrementalSearch S U cfg fuel)
      (fun r s' => r = none → s'.line.buf = s.line.buf ∧ s'.line.pos = s.line.pos ∧ s'.line.canGrow = true)
      (fun _ _ => True) s := by
    unfold reverseIncrementalSearch
    split
    · simp only [wp_pure]; intro _; exact ⟨trivial, trivial, hg⟩
    · simp only [wp_bind, wp_changesBegin, wp_getLine]
      exact searchLoop_abort S U cfg _ _ _ hp fuel _ _ _ _ _ hg
  exact wp_ok hw hrun rfl

/-! ## The model's search loop as a run of the search automaton

`Rl.SearchVars` (Rl/Lemmas/SearchLoopInv.lean) packs the loop variables of `searchLoop` (search text
`sb`, index `hi`, direction `d`, success flag `succ`) with the text `buf` and cursor `pos` shown;
`Rl.searchKey cfg c cmd` is the effect of one decoded command (`none` = not a search key) and
`Rl.searchRun` folds it over a key sequence.  `searchLoop_refines` proves, with the `wp` calculus and
by induction on the loop, that the model's `searchLoop` performs exactly such a run. -/

/-- loop variables on entry to `reverse_incremental_search`: empty text, newest entry, reverse,
    flag set, the line as it was -/
def C08_init (cfg : EdCfg) (s : Ed) : SearchVars :=
  { sb := [], hi := cfg.hist.length - 1, d := .reverse, succ := true, buf := s.line.buf, pos := s.line.pos }

/-- the shown-entry invariant: the index is valid; WHATEVER THE FLAG the text shown is either the
    original line (nothing found yet: the index is still the newest entry) or the stored entry at the
    loop's index (since the repair of D51 a failed search leaves the index alone); and if the success flag is set, then either nothing has been found yet (empty search text,
    original line and cursor) or the text shown is the entry at the current index and the search text
    occurs in it at the cursor offset. -/
def C08_Inv (cfg : EdCfg) (backup : Text) (backupPos : Nat) (c : SearchVars) : Prop :=
  c.hi < cfg.hist.length ∧
  ((c.buf = backup ∧ c.pos = backupPos ∧ c.hi = cfg.hist.length - 1) ∨ cfg.hist[c.hi]? = some c.buf) ∧
  (c.succ = true →
    (c.sb = [] ∧ c.buf = backup ∧ c.pos = backupPos) ∨
    (cfg.hist[c.hi]? = some c.buf ∧ OccursAt c.sb c.buf c.pos))

/-- an occurrence of a text is an occurrence (same offset) of the text without its last character -/
theorem C08_occursAt_dropLast {t e : Text} {off : Nat} (h : OccursAt t e off) : OccursAt t.dropLast e off := by
  obtain ⟨a, b, rfl, rfl⟩ := h
  have ht : t = t.dropLast ++ t.drop (t.length - 1) := by
    rw [List.dropLast_eq_take]; exact (List.take_append_drop _ _).symm
  refine ⟨a, t.drop (t.length - 1) ++ b, ?_, rfl⟩
  conv => lhs; rw [ht]
  simp [List.append_assoc]

/-- one history search issued from a valid index keeps the shown-entry invariant (success: the hit is
    shown and indexed; failure: text and cursor stay, the flag drops) -/
theorem C08_inv_searchTry (cfg : EdCfg) (backup : Text) (backupPos : Nat) (c : SearchVars) (sb : Text) (hi : Nat) (d : Dir)
    (hc : C08_Inv cfg backup backupPos c) (_hhi : hi < cfg.hist.length) :
    C08_Inv cfg backup backupPos (searchTry cfg c sb hi d) := by
  unfold searchTry
  cases hsr : (memHist cfg).search sb hi d with
  | none => exact ⟨hc.1, hc.2.1, fun h => by cases h⟩
  | some r =>
    obtain ⟨i, e, off⟩ := r
    obtain ⟨h1, h2, _⟩ := C08_success_sound cfg sb hi d i e off hsr
    have hi' : i < cfg.hist.length := by
      obtain ⟨hlt, _⟩ := List.getElem?_eq_some_iff.mp h1; exact hlt
    exact ⟨hi', Or.inr h1, fun _ => Or.inr ⟨h1, h2⟩⟩

/-- one search key keeps the shown-entry invariant -/
theorem C08_inv_step (cfg : EdCfg) (backup : Text) (backupPos : Nat) (c c' : SearchVars) (k : Cmd)
    (hc : C08_Inv cfg backup backupPos c) (hk : searchKey cfg c k = some c') :
    C08_Inv cfg backup backupPos c' := by
  unfold searchKey at hk
  split at hk
  · cases hk; exact C08_inv_searchTry cfg backup backupPos c _ _ _ hc hc.1
  · cases hk
    refine ⟨hc.1, hc.2.1, fun h => ?_⟩
    rcases hc.2.2 h with ⟨h1, h2⟩ | ⟨h1, h2⟩
    · exact Or.inl ⟨by show c.sb.dropLast = []; rw [h1]; rfl, h2⟩
    · exact Or.inr ⟨h1, C08_occursAt_dropLast h2⟩
  · cases hk
    split
    · exact C08_inv_searchTry cfg backup backupPos c _ _ _ hc (by have := hc.1; omega)
    · exact ⟨hc.1, hc.2.1, fun h => by cases h⟩
  · cases hk
    split
    · rename_i hlt; exact C08_inv_searchTry cfg backup backupPos c _ _ _ hc hlt
    · exact ⟨hc.1, hc.2.1, fun h => by cases h⟩
  · cases hk

/-- **Shown-entry invariant, every iteration** (clause 1).  For a non-empty history, after *every*
    sequence of search keys (typed characters, backspaces, C-r, C-s in any order) the loop variables
    satisfy `C08_Inv`: in particular, whenever the success flag is set and the search text is
    non-empty, the text shown is `cfg.hist[hi]` for the loop's current index and the search text occurs
    in it at the cursor offset. -/
theorem C08_shown_entry_invariant (cfg : EdCfg) (s : Ed) (hne : cfg.hist ≠ []) (keys : List Cmd) (c : SearchVars)
    (hrun : searchRun cfg (C08_init cfg s) keys = some c) :
    C08_Inv cfg s.line.buf s.line.pos c ∧
    (c.succ = true → c.sb ≠ [] → cfg.hist[c.hi]? = some c.buf ∧ OccursAt c.sb c.buf c.pos) := by
  have h0 : C08_Inv cfg s.line.buf s.line.pos (C08_init cfg s) := by
    refine ⟨?_, Or.inl ⟨rfl, rfl, rfl⟩, fun _ => Or.inl ⟨rfl, rfl, rfl⟩⟩
    show cfg.hist.length - 1 < cfg.hist.length
    have : 0 < cfg.hist.length := List.length_pos_iff.mpr hne
    omega
  have hall : ∀ (keys : List Cmd) (c0 c : SearchVars), C08_Inv cfg s.line.buf s.line.pos c0 →
      searchRun cfg c0 keys = some c → C08_Inv cfg s.line.buf s.line.pos c := by
    intro keys
    induction keys with
    | nil => intro c0 c h0 hr; simp only [searchRun] at hr; cases hr; exact h0
    | cons k ks ih =>
      intro c0 c h0 hr
      simp only [searchRun] at hr
      cases hk : searchKey cfg c0 k with
      | none => rw [hk] at hr; cases hr
      | some c1 => rw [hk] at hr; exact ih c1 c (C08_inv_step cfg _ _ c0 c1 k h0 hk) hr
  have hinv := hall keys _ c h0 hrun
  refine ⟨hinv, fun hs hsb => ?_⟩
  rcases hinv.2.2 hs with ⟨h1, _⟩ | h
  · exact absurd h1 hsb
  · exact h

/-- **The loop is a run of the automaton** (tie between `reverseIncrementalSearch` and the
    history-level facts).  Whenever the model's incremental search hands a command back, then — on a
    growable line buffer — the history is non-empty and the commands the loop decoded form a run
    `keys` of the search automaton from the initial loop variables to some `cf`; the command handed
    back is not a search key and not `abort`; and the line and cursor handed back are exactly the
    text and cursor shown in `cf` (the terminating command itself changes nothing). -/
theorem C08_loop_is_run (S : Segmenter) (U : UData) (cfg : EdCfg) (s s' : Ed) (fuel : Nat) (cmd : Cmd)
    (hrun : reverseIncrementalSearch S U cfg fuel s = .ok (some cmd, s'))
    (hg : s.line.canGrow = true) :
    cfg.hist ≠ [] ∧
    ∃ keys cf, searchRun cfg (C08_init cfg s) keys = some cf ∧ searchKey cfg cf cmd = none ∧
      cmd ≠ .abort ∧ s'.line.buf = cf.buf ∧ s'.line.pos = cf.pos ∧ s'.line.canGrow = true := by
  have hw : wp (reverseIncrementalSearch S U cfg fuel)
      (fun r s' => ∀ cmd, r = some cmd → cfg.hist ≠ [] ∧
        ∃ keys cf, searchRun cfg (C08_init cfg s) keys = some cf ∧ searchKey cfg cf cmd = none ∧
          cmd ≠ .abort ∧ s'.line.buf = cf.buf ∧ s'.line.pos = cf.pos ∧ s'.line.canGrow = true)
      (fun _ _ => True) s := by
    unfold reverseIncrementalSearch
    split
    · simp only [wp_pure]; intro cmd h; cases h
    · rename_i hne
      simp only [wp_bind, wp_changesBegin, wp_getLine]
      refine wp_mono (searchLoop_refines S U cfg _ _ fuel _ (C08_init cfg s) _ hg rfl rfl)
        (fun r s' h cmd hr => ⟨?_, h cmd hr⟩) (fun _ _ h => h)
      intro h0; rw [h0] at hne; exact hne rfl
  exact wp_ok hw hrun cmd rfl

/-- **Exit with a command hands back the shown entry** (clause 2, combined with clause 1).  Whenever
    the incremental search ends with a command `cmd`, the loop variables `cf` at that moment (reached
    from the initial ones by the decoded search keys) satisfy the shown-entry invariant and the line
    handed back with `cmd` is the text shown: if the last search step succeeded (flag set, non-empty
    search text) it is the stored entry `cfg.hist[cf.hi]` with the cursor at an occurrence of the
    search text; in every case it is either the original line with the original cursor or some stored
    entry (the last one shown).  Hypothesis: growable line buffer. -/
theorem C08_exit_hands_back_shown_entry (S : Segmenter) (U : UData) (cfg : EdCfg) (s s' : Ed) (fuel : Nat) (cmd : Cmd)
    (hrun : reverseIncrementalSearch S U cfg fuel s = .ok (some cmd, s'))
    (hg : s.line.canGrow = true) :
    ∃ keys cf, searchRun cfg (C08_init cfg s) keys = some cf ∧ searchKey cfg cf cmd = none ∧ cmd ≠ .abort ∧
      C08_Inv cfg s.line.buf s.line.pos cf ∧
      (cf.succ = true → cf.sb ≠ [] →
        cfg.hist[cf.hi]? = some s'.line.buf ∧ OccursAt cf.sb s'.line.buf s'.line.pos) ∧
      ((s'.line.buf = s.line.buf ∧ s'.line.pos = s.line.pos) ∨ ∃ i : Nat, cfg.hist[i]? = some s'.line.buf) := by
  obtain ⟨hne, keys, cf, h1, h2, h3, h4, h5, _⟩ := C08_loop_is_run S U cfg s s' fuel cmd hrun hg
  obtain ⟨hinv, hshown⟩ := C08_shown_entry_invariant cfg s hne keys cf h1
  refine ⟨keys, cf, h1, h2, h3, hinv, ?_, ?_⟩
  · rw [h4, h5]; exact hshown
  · rw [h4, h5]
    rcases hinv.2.1 with ⟨a, b, _⟩ | h
    · exact Or.inl ⟨a, b⟩
    · exact Or.inr ⟨_, h⟩

/-- **The command that ends the search is then executed normally**: the dispatcher `preCmds` feeds
    the command handed back by the search to itself again, on the state the search left, exactly as
    if it had been typed there. -/
theorem C08_exit_command_dispatched (S : Segmenter) (U : UData) (cfg : EdCfg) (s s' : Ed) (fuel : Nat) (cmd : Cmd)
    (hrun : reverseIncrementalSearch S U cfg fuel s = .ok (some cmd, s')) :
    preCmds S U cfg (fuel + 1) .reverseSearchHistory s = preCmds S U cfg fuel cmd s' := by
  have h1 : (Cmd.reverseSearchHistory == Cmd.complete && cfg.hasHelper) = false := by
    have : (Cmd.reverseSearchHistory == Cmd.complete) = false := by decide
    rw [this]; rfl
  have h2 : (Cmd.reverseSearchHistory == Cmd.reverseSearchHistory) = true := by decide
  conv => lhs; unfold preCmds
  simp only [h1, h2, if_true, Bool.false_eq_true, if_false, EM.bind_apply, hrun]

/-- What one history search issued by the loop (`searchTry`, from index `hi` in direction `d` with
    text `sb`) does to the loop variables.  On success the new index holds the entry now shown, the
    text occurs at the cursor, the new index lies on the requested side of `hi` (inclusive) and no
    entry between `hi` and it contains the text: the NEAREST match, none skipped.  On failure text,
    cursor and the loop's index (`c.hi`, the entry on display) stay and (for a non-empty text) no entry on that side of `hi` contains the text. -/
theorem C08_searchTry_spec (cfg : EdCfg) (c : SearchVars) (sb : Text) (hi : Nat) (d : Dir) (hhi : hi < cfg.hist.length) :
    (searchTry cfg c sb hi d).sb = sb ∧ (searchTry cfg c sb hi d).d = d ∧
    ((searchTry cfg c sb hi d).succ = true →
      cfg.hist[(searchTry cfg c sb hi d).hi]? = some (searchTry cfg c sb hi d).buf ∧
      OccursAt sb (searchTry cfg c sb hi d).buf (searchTry cfg c sb hi d).pos ∧
      (d = .forward → hi ≤ (searchTry cfg c sb hi d).hi ∧
        ∀ (j : Nat) (e' : Text), hi ≤ j → j < (searchTry cfg c sb hi d).hi → cfg.hist[j]? = some e' → ∀ o, ¬ OccursAt sb e' o) ∧
      (d = .reverse → (searchTry cfg c sb hi d).hi ≤ hi ∧
        ∀ (j : Nat) (e' : Text), (searchTry cfg c sb hi d).hi < j → j ≤ hi → cfg.hist[j]? = some e' → ∀ o, ¬ OccursAt sb e' o)) ∧
    ((searchTry cfg c sb hi d).succ = false →
      (searchTry cfg c sb hi d).buf = c.buf ∧ (searchTry cfg c sb hi d).pos = c.pos ∧ (searchTry cfg c sb hi d).hi = c.hi ∧
      (sb ≠ [] →
        (d = .forward → ∀ (j : Nat) (e' : Text), hi ≤ j → cfg.hist[j]? = some e' → ∀ o, ¬ OccursAt sb e' o) ∧
        (d = .reverse → ∀ (j : Nat) (e' : Text), j ≤ hi → cfg.hist[j]? = some e' → ∀ o, ¬ OccursAt sb e' o))) := by
  unfold searchTry
  cases hsr : (memHist cfg).search sb hi d with
  | none =>
    refine ⟨rfl, rfl, (fun h => by cases h), fun _ => ⟨rfl, rfl, rfl, fun hsb => ?_⟩⟩
    exact C08_failure_complete cfg sb hi d hsr hsb hhi
  | some r =>
    obtain ⟨i, e, off⟩ := r
    exact ⟨rfl, rfl, fun _ => C08_success_sound cfg sb hi d i e off hsr, fun h => by cases h⟩

/-- **Repeat = next nearest, reverse** (clause 3).  A C-r while searching keeps the search text, sets
    the direction to reverse and searches from the index *one below* the current one: on success the
    entry now shown lies strictly below the previous index, contains the text at the cursor, and no
    entry strictly between contains the text (the next nearest match, none skipped); on failure text,
    cursor and index stay and (non-empty text) no entry strictly below the previous index contains it. -/
theorem C08_repeat_reverse (cfg : EdCfg) (c c' : SearchVars) (hhi : c.hi < cfg.hist.length)
    (hk : searchKey cfg c .reverseSearchHistory = some c') :
    c'.sb = c.sb ∧ c'.d = .reverse ∧
    (c'.succ = true → c'.hi < c.hi ∧ cfg.hist[c'.hi]? = some c'.buf ∧ OccursAt c.sb c'.buf c'.pos ∧
      ∀ (j : Nat) (e' : Text), c'.hi < j → j < c.hi → cfg.hist[j]? = some e' → ∀ o, ¬ OccursAt c.sb e' o) ∧
    (c'.succ = false → c'.buf = c.buf ∧ c'.pos = c.pos ∧ c'.hi = c.hi ∧
      (c.sb ≠ [] → ∀ (j : Nat) (e' : Text), j < c.hi → cfg.hist[j]? = some e' → ∀ o, ¬ OccursAt c.sb e' o)) := by
  simp only [searchKey, Option.some.injEq] at hk
  subst hk
  split
  · rename_i hpos
    obtain ⟨h1, h2, h3, h4⟩ := C08_searchTry_spec cfg c c.sb (c.hi - 1) .reverse (by omega)
    refine ⟨h1, h2, fun hs => ?_, fun hs => ?_⟩
    · obtain ⟨a, b, _, hr⟩ := h3 hs
      obtain ⟨r1, r2⟩ := hr rfl
      exact ⟨by omega, a, b, fun j e' hj1 hj2 => r2 j e' hj1 (by omega)⟩
    · obtain ⟨a, b, hh, hn⟩ := h4 hs
      exact ⟨a, b, hh, fun hsb j e' hj => (hn hsb).2 rfl j e' (by omega)⟩
  · rename_i hpos
    refine ⟨rfl, rfl, (fun hs => by cases hs), fun _ => ⟨rfl, rfl, rfl, fun _ j e' hj => ?_⟩⟩
    omega

/-- **Repeat = next nearest, forward** (clause 3, C-s).  Symmetric: the search starts one above the
    current index; on success the shown entry lies strictly above with no match strictly between, on
    failure nothing strictly above contains the (non-empty) text. -/
theorem C08_repeat_forward (cfg : EdCfg) (c c' : SearchVars)
    (hk : searchKey cfg c .forwardSearchHistory = some c') :
    c'.sb = c.sb ∧ c'.d = .forward ∧
    (c'.succ = true → c.hi < c'.hi ∧ cfg.hist[c'.hi]? = some c'.buf ∧ OccursAt c.sb c'.buf c'.pos ∧
      ∀ (j : Nat) (e' : Text), c.hi < j → j < c'.hi → cfg.hist[j]? = some e' → ∀ o, ¬ OccursAt c.sb e' o) ∧
    (c'.succ = false → c'.buf = c.buf ∧ c'.pos = c.pos ∧ c'.hi = c.hi ∧
      (c.sb ≠ [] → ∀ (j : Nat) (e' : Text), c.hi < j → cfg.hist[j]? = some e' → ∀ o, ¬ OccursAt c.sb e' o)) := by
  simp only [searchKey, Option.some.injEq] at hk
  subst hk
  split
  · rename_i hlt
    obtain ⟨h1, h2, h3, h4⟩ := C08_searchTry_spec cfg c c.sb (c.hi + 1) .forward hlt
    refine ⟨h1, h2, fun hs => ?_, fun hs => ?_⟩
    · obtain ⟨a, b, hf, _⟩ := h3 hs
      obtain ⟨r1, r2⟩ := hf rfl
      exact ⟨by omega, a, b, fun j e' hj1 hj2 => r2 j e' (by omega) hj2⟩
    · obtain ⟨a, b, hh, hn⟩ := h4 hs
      exact ⟨a, b, hh, fun hsb j e' hj => (hn hsb).1 rfl j e' (by omega)⟩
  · rename_i hlt
    refine ⟨rfl, rfl, (fun hs => by cases hs), fun _ => ⟨rfl, rfl, rfl, fun _ j e' hj he' => ?_⟩⟩
    obtain ⟨hlt', _⟩ := List.getElem?_eq_some_iff.mp he'
    omega

/-- **Typed character / backspace.**  A typed character appends to the search text and searches from
    the *current* index (inclusive) in the current direction (`C08_searchTry_spec` gives nearest /
    none-skipped); a backspace drops the last character of the text and changes nothing else (no new
    search: index, flag, text shown and cursor stay). -/
theorem C08_typed_and_backspace (cfg : EdCfg) (c : SearchVars) (n : Nat) (ch : Char) :
    searchKey cfg c (.selfInsert n ch) = some (searchTry cfg c (c.sb ++ [ch]) c.hi c.d) ∧
    searchKey cfg c (.kill (.backwardChar n)) = some { c with sb := c.sb.dropLast } := ⟨rfl, rfl⟩

/-- **Repeat after a success = next nearest from the entry shown.**  If, after any sequence of
    search keys, the flag is set with a non-empty text (so `cfg.hist[c.hi]` is the entry on display)
    and a further C-r (resp. C-s) succeeds, then the new entry lies strictly below (resp. above) the
    one on display, contains the text at the cursor, and no entry strictly between the two contains
    the text. -/
theorem C08_repeat_after_success (cfg : EdCfg) (s : Ed) (hne : cfg.hist ≠ []) (keys : List Cmd) (c c' : SearchVars)
    (hrun : searchRun cfg (C08_init cfg s) keys = some c) (hs : c.succ = true) (hsb : c.sb ≠ [])
    (hs' : c'.succ = true) :
    cfg.hist[c.hi]? = some c.buf ∧
    (searchKey cfg c .reverseSearchHistory = some c' →
      c'.hi < c.hi ∧ cfg.hist[c'.hi]? = some c'.buf ∧ OccursAt c.sb c'.buf c'.pos ∧
      ∀ (j : Nat) (e' : Text), c'.hi < j → j < c.hi → cfg.hist[j]? = some e' → ∀ o, ¬ OccursAt c.sb e' o) ∧
    (searchKey cfg c .forwardSearchHistory = some c' →
      c.hi < c'.hi ∧ cfg.hist[c'.hi]? = some c'.buf ∧ OccursAt c.sb c'.buf c'.pos ∧
      ∀ (j : Nat) (e' : Text), c.hi < j → j < c'.hi → cfg.hist[j]? = some e' → ∀ o, ¬ OccursAt c.sb e' o) := by
  obtain ⟨hinv, hshown⟩ := C08_shown_entry_invariant cfg s hne keys c hrun
  exact ⟨(hshown hs hsb).1,
    fun hk => (C08_repeat_reverse cfg c c' hinv.1 hk).2.2.1 hs',
    fun hk => (C08_repeat_forward cfg c c' hk).2.2.1 hs'⟩

/-! ### Repeat from the entry ON DISPLAY (defect D51, repaired)

Before the repair `src/lib.rs` decremented/incremented `history_idx` *before* the search of a repeated
C-r / C-s and did not put it back when that search failed: after a failed repeat the index was no
longer that of the entry on display, and once the text was shortened with Backspace the next C-r
skipped an entry.  Replay (emacs mode, history "a", "xa", "ab"; keys C-r a b C-r Backspace C-r Enter):
`ed08 e 20 - 97;120,97;97,98 - - - - 12 61 62 12 7f 12 0d` went "ab" → "a" and never offered "xa".
The loop now remembers the index at the top of the iteration and restores it when the search fails,
so the index is the entry on display whatever the flag (`C08_index_is_shown`), a failed repeat moves
nothing (`C08_failed_repeat_keeps_index`) and a repeat is the next nearest match from the entry on
display (`C08_repeat_from_shown`); the replay now offers "xa" (regression examples below). -/

/-- **The loop's index is the entry on display, whatever the flag.**  After every sequence of search
    keys either nothing has been found yet (the original line and cursor are shown and the index is
    still the newest entry, where the search starts) or the text shown is `cfg.hist[c.hi]`. -/
theorem C08_index_is_shown (cfg : EdCfg) (s : Ed) (hne : cfg.hist ≠ []) (keys : List Cmd) (c : SearchVars)
    (hrun : searchRun cfg (C08_init cfg s) keys = some c) :
    (c.buf = s.line.buf ∧ c.pos = s.line.pos ∧ c.hi = cfg.hist.length - 1) ∨ cfg.hist[c.hi]? = some c.buf :=
  (C08_shown_entry_invariant cfg s hne keys c hrun).1.2.1

/-- **A failed repeat moves nothing**: after a C-r / C-s that finds nothing, index, text shown and
    cursor are those from before the key (only the flag drops and the direction is set). -/
theorem C08_failed_repeat_keeps_index (cfg : EdCfg) (s : Ed) (hne : cfg.hist ≠ []) (keys : List Cmd) (c c' : SearchVars)
    (hrun : searchRun cfg (C08_init cfg s) keys = some c) (hf : c'.succ = false) :
    (searchKey cfg c .reverseSearchHistory = some c' → c'.hi = c.hi ∧ c'.buf = c.buf ∧ c'.pos = c.pos) ∧
    (searchKey cfg c .forwardSearchHistory = some c' → c'.hi = c.hi ∧ c'.buf = c.buf ∧ c'.pos = c.pos) := by
  obtain ⟨hinv, _⟩ := C08_shown_entry_invariant cfg s hne keys c hrun
  refine ⟨fun hk => ?_, fun hk => ?_⟩
  · obtain ⟨a, b, h, _⟩ := (C08_repeat_reverse cfg c c' hinv.1 hk).2.2.2 hf
    exact ⟨h, a, b⟩
  · obtain ⟨a, b, h, _⟩ := (C08_repeat_forward cfg c c' hk).2.2.2 hf
    exact ⟨h, a, b⟩

/-- "repeat = next nearest" relative to the *entry on display* whatever the flag: if the text shown
    before the key is a stored entry at index `i` (and at no other index: with duplicate entries
    "the index of the text shown" is ambiguous and the entry on display is `cfg.hist[c.hi]`, see
    `C08_index_is_shown`), then after a successful C-r (resp. C-s) no entry strictly between the newly
    shown entry and `i` contains the search text.  Refuted before the repair of D51 (the replay
    above), PROVED now: `C08_repeat_from_shown`. -/
def C08_repeat_from_shown_statement : Prop :=
  ∀ (cfg : EdCfg) (s : Ed) (keys : List Cmd) (c c' : SearchVars), cfg.hist ≠ [] →
    searchRun cfg (C08_init cfg s) keys = some c →
    ∀ (i : Nat), cfg.hist[i]? = some c.buf → (∀ i' : Nat, cfg.hist[i']? = some c.buf → i' = i) →
    (searchKey cfg c .reverseSearchHistory = some c' → c'.succ = true →
      ∀ (j : Nat) (e' : Text), c'.hi < j → j < i → cfg.hist[j]? = some e' → ∀ o, ¬ OccursAt c.sb e' o) ∧
    (searchKey cfg c .forwardSearchHistory = some c' → c'.succ = true →
      ∀ (j : Nat) (e' : Text), i < j → j < c'.hi → cfg.hist[j]? = some e' → ∀ o, ¬ OccursAt c.sb e' o)

/-- **Repeat = next nearest from the entry on display, whatever the flag** (after failed repeats,
    backspaces, direction changes …): no nearer match is skipped. -/
theorem C08_repeat_from_shown : C08_repeat_from_shown_statement := by
  intro cfg s keys c c' hne hrun i hi huniq
  obtain ⟨hinv, _⟩ := C08_shown_entry_invariant cfg s hne keys c hrun
  have hilt : i < cfg.hist.length := (List.getElem?_eq_some_iff.mp hi).1
  have hle : i ≤ c.hi ∧ (c.hi = i ∨ c.hi = cfg.hist.length - 1) := by
    rcases hinv.2.1 with ⟨_, _, h⟩ | h
    · exact ⟨by omega, Or.inr h⟩
    · have := huniq _ h
      exact ⟨by omega, Or.inl this⟩
  refine ⟨fun hk hs j e' h1 h2 => ?_, fun hk hs j e' h1 h2 => ?_⟩
  · obtain ⟨_, _, _, d⟩ := (C08_repeat_reverse cfg c c' hinv.1 hk).2.2.1 hs
    exact d j e' h1 (by omega)
  · obtain ⟨a, b, _, d⟩ := (C08_repeat_forward cfg c c' hk).2.2.1 hs
    have : c'.hi < cfg.hist.length := (List.getElem?_eq_some_iff.mp b).1
    exact d j e' (by omega) h2

/-- witness data: one cluster per character, width 1, emacs mode, history "a", "xa", "ab" -/
def C08_wit_seg : Segmenter where
  seg t := t.map fun c => [c]
  flatten_eq t := by induction t with
    | nil => rfl
    | cons c t ih => simp [ih]
  ne_nil t g h := by
    simp only [List.mem_map] at h
    obtain ⟨c, _, rfl⟩ := h
    exact List.cons_ne_nil _ _

def C08_wit_udata : UData :=
  { alnum := Char.isAlphanum, ws := Char.isWhitespace, upper := fun c => [c], lower := fun c => [c],
    width := List.length }

def C08_wit_cfg : EdCfg := { vi := false, hist := [['a'], ['x', 'a'], ['a', 'b']] }

/-- line "q", cursor 1, growable buffer; the pending input is a parameter -/
def C08_wit_state (future : List (List UInt8)) : Ed :=
  { line := { buf := ['q'], pos := 1, cap := 8, canGrow := true },
    saved := { buf := [], pos := 0, cap := 8, canGrow := true },
    changes := Changeset.new, ring := KillRing.new 60, histIdx := 3,
    inp := {}, hint := none, highlightChar := false, defaultPrompt := true,
    input := { buf := [], avail := [], future := future }, obs := [], validatorCalls := [] }

/-- regression (D51), the automaton on the replay's keys `a b C-r Backspace`: the entry on display is
    "ab" (index 2), the failed C-r leaves the index at 2 and only drops the flag; the next C-r offers
    "xa" (index 1) -/
theorem C08_failed_repeat_replay_automaton :
    searchRun C08_wit_cfg (C08_init C08_wit_cfg (C08_wit_state []))
      [.selfInsert 1 'a', .selfInsert 1 'b', .reverseSearchHistory, .kill (.backwardChar 1)] =
      some { sb := ['a'], hi := 2, d := .reverse, succ := false, buf := ['a', 'b'], pos := 0 } ∧
    searchKey C08_wit_cfg { sb := ['a'], hi := 2, d := .reverse, succ := false, buf := ['a', 'b'], pos := 0 }
      .reverseSearchHistory =
      some { sb := ['a'], hi := 1, d := .reverse, succ := true, buf := ['x', 'a'], pos := 1 } := by
  decide +kernel

/-- regression (D51), the replay through the MODEL's loop (keys a b C-r Backspace C-r Enter): Enter is
    handed back with the line "xa", cursor 1 (before the repair: "a", cursor 0) -/
theorem C08_failed_repeat_replay_model :
    (reverseIncrementalSearch C08_wit_seg C08_wit_udata C08_wit_cfg 20
        (C08_wit_state [[0x61], [0x62], [0x12], [0x7f], [0x12], [0x0d]])).toOption.map
      (fun r => (r.1, r.2.line.buf, r.2.line.pos)) =
    some (some (.acceptOrInsertLine true), ['x', 'a'], 1) := by decide +kernel

/-- non-vacuity of `C08_loop_is_run` / `C08_exit_hands_back_shown_entry`: a run of the model's loop
    that hands a command back on a growable buffer (keys a C-r Enter: "ab" then "xa", cursor 1) -/
example :
    (reverseIncrementalSearch C08_wit_seg C08_wit_udata C08_wit_cfg 20
        (C08_wit_state [[0x61], [0x12], [0x0d]])).toOption.map
      (fun r => (r.1, r.2.line.buf, r.2.line.pos)) =
    some (some (.acceptOrInsertLine true), ['x', 'a'], 1) ∧
    (C08_wit_state [[0x61], [0x12], [0x0d]]).line.canGrow = true := by decide +kernel

/-- non-vacuity of `C08_shown_entry_invariant`, `C08_repeat_after_success`: a run with the flag set,
    a non-empty text, and a successful repeat -/
example :
    searchRun C08_wit_cfg (C08_init C08_wit_cfg (C08_wit_state [])) [.selfInsert 1 'a'] =
      some { sb := ['a'], hi := 2, d := .reverse, succ := true, buf := ['a', 'b'], pos := 0 } ∧
    searchKey C08_wit_cfg { sb := ['a'], hi := 2, d := .reverse, succ := true, buf := ['a', 'b'], pos := 0 }
      .reverseSearchHistory =
      some { sb := ['a'], hi := 1, d := .reverse, succ := true, buf := ['x', 'a'], pos := 1 } ∧
    C08_wit_cfg.hist ≠ [] := by decide +kernel

/-- regression (D51), the replay as a whole read of the model (keys C-r a b C-r Backspace C-r Enter on
    an empty line): the line returned is "xa" — what the repaired crate returns for the harness request
    quoted above (corpus/C08.txt) -/
example :
    (readline C08_wit_seg C08_wit_udata C08_wit_cfg (KillRing.new 60) [] []
      { buf := [], avail := [], future := [[0x12], [0x61], [0x62], [0x12], [0x7f], [0x12], [0x0d]] }).1
      = .line ['x', 'a'] := by decide +kernel

/-- **What an iteration displays** (the link between the success flag and what the user sees).  Every
    iteration of the model's loop with variables `c`, on a state whose line is the text and cursor of
    `c`, *starts* with `refresh_prompt_and_line` of the search prompt — "(reverse-i-search)`text': " iff
    the flag is set, "(failed reverse-i-search)`text': " otherwise — and that call pushes exactly one
    record onto the render log: a refresh with this prompt showing `c.buf` with the cursor at `c.pos`;
    the line is untouched.  With `C08_shown_entry_invariant`: whenever the prompt displayed reports
    success for a non-empty text, the text displayed is the stored entry `cfg.hist[c.hi]` and the
    cursor is at an occurrence of the search text.  (That the iterations of a run are exactly at the
    automaton's reachable `c` is the induction of `searchLoop_refines`.) -/
theorem C08_iteration_display (S : Segmenter) (U : UData) (cfg : EdCfg) (mark : Nat) (backup : Text) (backupPos fuel : Nat)
    (c : SearchVars) (s : Ed) (hb : s.line.buf = c.buf) (hp : s.line.pos = c.pos) :
    (∃ k : Unit → EM (Option Cmd),
      searchLoop S U cfg mark backup backupPos (fuel + 1) c.sb c.hi c.d c.succ =
        (refreshPromptAndLine S U cfg (searchPrompt c.succ c.sb) >>= k)) ∧
    wp (refreshPromptAndLine S U cfg (searchPrompt c.succ c.sb))
      (fun _ s' => s'.line = s.line ∧
        ∃ h, s'.render = .refresh (some (searchPrompt c.succ c.sb)) c.buf c.pos h :: s.render)
      (fun _ _ => True) s := by
  refine ⟨searchLoop_starts_with_display S U cfg mark backup backupPos fuel c.sb c.hi c.d c.succ, ?_⟩
  have := refreshPromptAndLine_display S U cfg (searchPrompt c.succ c.sb) s
  rw [hb, hp] at this
  exact this
