/-
  Model of several `FileHistory` sessions sharing ONE history file (property C11):
  `FileHistory::{load, add, append, save}`, `can_just_append`, `update_path`, `PathInfo`,
  `new_entries` of `src/history.rs`, as a labelled transition system.

  Global state: the file (`content`, `mtime`) or no file, a clock (the largest modification time
  handed out so far) and one `Sess` per session id: the in-memory history with its
  `new_entries` counter (`FileHist`, from Rl/History.lean) and `path_info` = the
  (modification time, entry count) remembered by `update_path` — the path component is dropped,
  there is one path.  The single-session file code (`escEntry`, `fileOf`, `linesOf`, `loadFrom`,
  `newOnes`, `addAll`, `freshHist`) is reused from Rl/HistFile.lean.

  The environment supplies the modification time a write ends up with (`mt`): ANY number, so a
  coarse or stepping clock is covered; "distinguishable" is `mt > clock`.  `touch mt` is an outside
  `utimensat`.  (On the kernel of this sandbox every write that follows a `stat` gets a new
  timestamp, so the harness uses `touch` to produce the "indistinguishable" case.)

  Two granularities:
  * operation-atomic (`Sys.step`): each public call is one step — what the advisory lock is
    meant to provide;
  * sub-operation (`SubSys.step`): the parts of `save` and `append` that run BEFORE the lock is
    taken are separate steps: `save` = open/create the file ; [lock] write,  `append` =
    `path.exists()` ; [open, lock] the rest.  `truncFirst = true` is the code before the repair
    of D14 (`File::create` truncates the file before the lock is taken and the locked part
    writes from offset 0 without truncating again); `truncFirst = false` is the repaired code
    (open without truncation, take the lock, `set_len(0)`, write).
-/
import Rl.HistFile
namespace Rl.FS
open Rl

structure FileVal where
  content : List Atom
  mtime : Nat
deriving Repr, DecidableEq

structure Sess where
  fh : FileHist
  /-- `path_info`: (modification time, size) recorded by `update_path` -/
  pathInfo : Option (Nat × Nat)
deriving Repr, DecidableEq

structure Sys where
  file : Option FileVal
  /-- the largest modification time seen so far -/
  clock : Nat
  sess : Nat → Sess

def Sys.setSess (s : Sys) (i : Nat) (x : Sess) : Sys :=
  { s with sess := fun j => if j = i then x else s.sess j }

/-- a write through an open handle: new content, the modification time the environment gives -/
def Sys.write (s : Sys) (content : List Atom) (mt : Nat) : Sys :=
  { s with file := some { content, mtime := mt }, clock := max s.clock mt }

/-- `FileHistory::add` -/
def Sys.add (ws : Char → Bool) (s : Sys) (i : Nat) (l : Text) : Sys × Bool :=
  let x := s.sess i
  let r := x.fh.add ws l
  (s.setSess i { x with fh := r.1 }, r.2)

/-- the locked part of `FileHistory::save`: `save_to(file, false)`, `new_entries = 0`,
    `update_path(path, file, len)` -/
def Sys.saveWrite (s : Sys) (i : Nat) (mt : Nat) : Sys :=
  let x := s.sess i
  let h := x.fh
  (s.write (atomsOf (fileOf h.mem.entries)) mt).setSess i
    { fh := { h with newEntries := 0 }, pathInfo := some (mt, h.mem.entries.length) }

/-- `FileHistory::save` (one step) -/
def Sys.save (s : Sys) (i : Nat) (mt : Nat) : Sys × HfStatus :=
  let h := (s.sess i).fh
  if h.mem.entries.isEmpty || h.newEntries == 0 then (s, .ok)
  else (s.saveWrite i mt, .ok)

/-- `can_just_append` (the path always compares equal) -/
def canJustAppend (x : Sess) (f : FileVal) : Bool :=
  match x.pathInfo with
  | none => false
  | some (pm, size) =>
    !(pm != f.mtime || x.fh.mem.maxLen ≤ size || x.fh.mem.maxLen < size + x.fh.newEntries)

/-- the locked part of `FileHistory::append` on the file `f` (lines 728–761) -/
def Sys.appendLocked (ws : Char → Bool) (s : Sys) (i : Nat) (f : FileVal) (mt : Nat) : Sys × HfStatus :=
  let x := s.sess i
  let h := x.fh
  if canJustAppend x f then
    ((s.write (f.content ++ atomsOf (linesOf (newOnes h))) mt).setSess i
      { fh := { h with newEntries := 0 },
        pathInfo := some (mt, (x.pathInfo.map (·.2)).getD 0 + h.newEntries) }, .ok)
  else
    let r := loadFrom ws f.content (freshHist h)
    if r.status ≠ .ok then (s, r.status)
    else
      let other := addAll ws r.h (newOnes h)
      ((s.write (atomsOf (fileOf other.mem.entries)) mt).setSess i
        { fh := { h with newEntries := 0 }, pathInfo := some (mt, other.mem.entries.length) }, .ok)

/-- `FileHistory::append` (one step) -/
def Sys.append (ws : Char → Bool) (s : Sys) (i : Nat) (mt : Nat) : Sys × HfStatus :=
  let h := (s.sess i).fh
  if h.mem.entries.isEmpty || h.newEntries == 0 then (s, .ok)
  else
    match s.file with
    | none => s.save i mt
    | some f =>
      if h.newEntries == h.mem.maxLen then s.save i mt
      else s.appendLocked ws i f mt

/-- `FileHistory::load` (shared lock; no write) -/
def Sys.load (ws : Char → Bool) (s : Sys) (i : Nat) : Sys × HfStatus :=
  match s.file with
  | none => (s, .io)
  | some f =>
    let x := s.sess i
    let len := x.fh.mem.entries.length
    let r := loadFrom ws f.content x.fh
    if r.status = .ok then
      if r.appendable then
        (s.setSess i { fh := r.h, pathInfo := some (f.mtime, r.h.mem.entries.length - len) }, .ok)
      else (s.setSess i { fh := r.h, pathInfo := none }, .ok)
    else (s.setSess i { x with fh := r.h }, r.status)

/-- an outside `utimensat` on the file -/
def Sys.touch (s : Sys) (mt : Nat) : Sys :=
  match s.file with
  | none => s
  | some f => { s with file := some { f with mtime := mt }, clock := max s.clock mt }

/-! ### operation-atomic transition system -/

inductive Op
  | load (i : Nat)
  | add (i : Nat) (l : Text)
  | append (i : Nat) (mt : Nat)
  | save (i : Nat) (mt : Nat)
  | touch (mt : Nat)
deriving Repr, DecidableEq

inductive Obs
  | status (s : HfStatus)
  | bool (b : Bool)
  | unit
deriving Repr, DecidableEq

def Sys.step (ws : Char → Bool) (s : Sys) : Op → Sys × Obs
  | .load i => let r := s.load ws i; (r.1, .status r.2)
  | .add i l => let r := s.add ws i l; (r.1, .bool r.2)
  | .append i mt => let r := s.append ws i mt; (r.1, .status r.2)
  | .save i mt => let r := s.save i mt; (r.1, .status r.2)
  | .touch mt => (s.touch mt, .unit)

def Sys.run (ws : Char → Bool) (s : Sys) : List Op → Sys
  | [] => s
  | op :: ops => Sys.run ws (s.step ws op).1 ops

/-- every session fresh, each with its own settings -/
def Sys.init (file : Option FileVal) (cfg : Nat → Nat × Bool × Bool) : Sys :=
  { file, clock := (file.map (·.mtime)).getD 0,
    sess := fun i => { fh := FileHist.new (cfg i).1 (cfg i).2.1 (cfg i).2.2, pathInfo := none } }

/-! ### sub-operation transition system -/

/-- the last `|f| - k` bytes of a file (what a write of `k` bytes from offset 0 leaves of a longer
    file): whole characters stay, the trailing bytes of a character that is cut become `bad` -/
def dropAtoms : List Atom → Nat → List Atom
  | f, 0 => f
  | [], _ + 1 => []
  | .bad _ :: t, k + 1 => dropAtoms t k
  | .chr c :: t, k + 1 =>
    if c.utf8Size ≤ k + 1 then dropAtoms t (k + 1 - c.utf8Size)
    else ((utf8Bytes c).drop (k + 1)).map .bad ++ t

/-- writing `new` from offset 0 into a file holding `old`, without truncating -/
def overlay (new old : List Atom) : List Atom := new ++ dropAtoms old (atomsSize new)

/-- where a session is inside a call -/
inductive Pc
  | idle
  /-- `save` has opened (created) the file and has not taken the lock yet -/
  | saveOpened
  /-- `append` has evaluated `path.exists()` -/
  | appendChecked (existed : Bool)
deriving Repr, DecidableEq

structure SubSys where
  sys : Sys
  pc : Nat → Pc
  /-- `true`: the code before the repair of D14 -/
  truncFirst : Bool

def SubSys.setPc (t : SubSys) (i : Nat) (p : Pc) : SubSys :=
  { t with pc := fun j => if j = i then p else t.pc j }

inductive SubOp
  /-- whole calls that have no unlocked window -/
  | load (i : Nat) | add (i : Nat) (l : Text) | touch (mt : Nat)
  /-- `save`, part 1: `File::create` (before the repair: truncates; `mt` = the time it leaves) -/
  | saveOpen (i : Nat) (mt : Nat)
  /-- `save`, part 2: take the lock, write, `update_path` -/
  | saveWrite (i : Nat) (mt : Nat)
  /-- `append`, part 1: the early return and `path.exists()` -/
  | appendCheck (i : Nat)
  /-- `append`, part 2 when the file existed and `new_entries != max_len`: open, lock, the rest -/
  | appendLocked (i : Nat) (mt : Nat)
deriving Repr, DecidableEq

/-- A step that is not enabled (wrong program counter) leaves the state unchanged. -/
def SubSys.step (ws : Char → Bool) (t : SubSys) : SubOp → SubSys
  | .load i => if t.pc i = .idle then { t with sys := (t.sys.load ws i).1 } else t
  | .add i l => if t.pc i = .idle then { t with sys := (t.sys.add ws i l).1 } else t
  | .touch mt => { t with sys := t.sys.touch mt }
  | .saveOpen i mt =>
    let h := (t.sys.sess i).fh
    let enabled :=
      match t.pc i with
      | .idle => true
      | .appendChecked existed => !existed || h.newEntries == h.mem.maxLen
      | .saveOpened => false
    if !enabled then t
    else if h.mem.entries.isEmpty || h.newEntries == 0 then t.setPc i .idle
    else
      let sys :=
        if t.truncFirst then t.sys.write [] mt
        else match t.sys.file with
          | none => t.sys.write [] mt
          | some _ => t.sys
      { (t.setPc i .saveOpened) with sys }
  | .saveWrite i mt =>
    if t.pc i ≠ .saveOpened then t
    else
      let h := (t.sys.sess i).fh
      let new := atomsOf (fileOf h.mem.entries)
      let old := ((t.sys.file.map (·.content)).getD [])
      let content := if t.truncFirst then overlay new old else new
      let sys := (t.sys.write content mt).setSess i
        { fh := { h with newEntries := 0 }, pathInfo := some (mt, h.mem.entries.length) }
      { (t.setPc i .idle) with sys }
  | .appendCheck i =>
    if t.pc i ≠ .idle then t
    else
      let h := (t.sys.sess i).fh
      if h.mem.entries.isEmpty || h.newEntries == 0 then t
      else t.setPc i (.appendChecked t.sys.file.isSome)
  | .appendLocked i mt =>
    let h := (t.sys.sess i).fh
    match t.pc i with
    | .appendChecked true =>
      if h.newEntries == h.mem.maxLen then t
      else
        match t.sys.file with
        | none => t   -- (the file cannot disappear: there is no remove step)
        | some f => { (t.setPc i .idle) with sys := (t.sys.appendLocked ws i f mt).1 }
    | _ => t

def SubSys.run (ws : Char → Bool) (t : SubSys) : List SubOp → SubSys
  | [] => t
  | op :: ops => SubSys.run ws (t.step ws op) ops

def SubSys.init (s : Sys) (truncFirst : Bool) : SubSys :=
  { sys := s, pc := fun _ => .idle, truncFirst }

end Rl.FS
