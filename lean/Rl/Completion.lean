/-
  Model of the string functions of `src/completion.rs` (unix configuration):
  `unescape`, `escape`, `extract_word` (reverse scan with the escape-run counter),
  `find_unclosed_quote` (five-mode scanner), `bare_word_start` (the private forward scan over the
  same five modes that `complete_path` uses when no quote is open), `longest_common_prefix` (byte loop and the
  char-boundary back-off), `filename_complete` / `FilenameCompleter::complete_path` over a
  directory listing passed in as data.  Parametric in the break set and the escape character.
  Panics (`&line[..pos]` off a boundary or past the end) are `none`.
-/
import Rl.Text
namespace Rl.Completion

/-- `completion::Quote` -/
inductive Quote | double | single | none
deriving DecidableEq, Repr

/-! ### unescape / escape -/

/-- the `while let Some(ch) = chars.next()` loop of `unescape` (not windows): an escape character
    is dropped and the character after it is copied; an escape character at the end is dropped -/
def unescapeGo (e : Char) : Text → Text
  | [] => []
  | [c] => if c = e then [] else [c]
  | c :: d :: t => if c = e then d :: unescapeGo e t else c :: unescapeGo e (d :: t)

/-- `unescape(input, esc_char)` -/
def unescape (esc : Option Char) (s : Text) : Text :=
  match esc with
  | none => s
  | some e => if !(s.any (· == e)) then s else unescapeGo e s

/-- what `escape` writes for one character -/
def escChar (e : Char) (isBreak : Char → Bool) (c : Char) : Text :=
  if isBreak c then [e, c] else [c]

/-- `escape(input, esc_char, is_break_char, quote)` (not windows) -/
def escape (esc : Option Char) (isBreak : Char → Bool) (q : Quote) (s : Text) : Text :=
  if q = .single then s
  else if (s.filter isBreak).length = 0 then s
  else
    match esc with
    | none => s
    | some e => s.flatMap (escChar e isBreak)

/-! ### extract_word -/

/-- The `for (i, c) in line.char_indices().rev()` loop of `extract_word`.  The list is the
    not yet visited part of the line, reversed, so the byte index of its head `c` is
    `blen rest`.  State: `start`, `escapes`.  Returning is `break` or the end of the loop. -/
def extractGo (esc : Option Char) (isBreak : Char → Bool) :
    List Char → Option Nat → Nat → Option Nat × Nat
  | [], start, k => (start, k)
  | c :: rest, start, k =>
    match esc, start with
    | some e, some s =>
      if e = c then extractGo esc isBreak rest (some s) (k + 1)
      else if k % 2 = 0 then (some s, k)
      else if isBreak c then extractGo esc isBreak rest (some (blen rest + c.utf8Size)) 0
      else extractGo esc isBreak rest none 0
    | none, _ =>
      if isBreak c then (some (blen rest + c.utf8Size), k)
      else extractGo esc isBreak rest start k
    | some _, none =>
      if isBreak c then extractGo esc isBreak rest (some (blen rest + c.utf8Size)) k
      else extractGo esc isBreak rest none k

/-- `extract_word(line, pos, esc_char, is_break_char)`; `none` = panic of `&line[..pos]` -/
def extractWord (line : Text) (pos : Nat) (esc : Option Char) (isBreak : Char → Bool) :
    Option (Nat × Text) :=
  match splitAtByte line pos with
  | none => none
  | some (l, _) =>
    if l.isEmpty then some (0, l)
    else
      let r := extractGo esc isBreak l.reverse none 0
      let start := if r.2 % 2 = 1 then none else r.1
      match start with
      | some s =>
        match splitAtByte l s with
        | some (_, w) => some (s, w)
        | none => none
      | none => some (0, l)

/-! ### find_unclosed_quote -/

inductive ScanMode | doubleQuote | escape | escapeInDoubleQuote | normal | singleQuote
deriving DecidableEq, Repr

/-- one iteration of the scanner: (mode, quote_index) at (index, char) -/
def scanStep (mode : ScanMode) (qi : Nat) (index : Nat) (c : Char) : ScanMode × Nat :=
  match mode with
  | .doubleQuote =>
    if c = '"' then (.normal, qi) else if c = '\\' then (.escapeInDoubleQuote, qi) else (.doubleQuote, qi)
  | .escape => (.normal, qi)
  | .escapeInDoubleQuote => (.doubleQuote, qi)
  | .normal =>
    if c = '"' then (.doubleQuote, index)
    else if c = '\\' then (.escape, qi)
    else if c = '\'' then (.singleQuote, index)
    else (.normal, qi)
  | .singleQuote => if c = '\'' then (.normal, qi) else (.singleQuote, qi)

def scanGo : Text → Nat → ScanMode → Nat → ScanMode × Nat
  | [], _, mode, qi => (mode, qi)
  | c :: t, index, mode, qi =>
    let r := scanStep mode qi index c
    scanGo t (index + c.utf8Size) r.1 r.2

/-- `find_unclosed_quote(s)` (not windows) -/
def findUnclosedQuote (s : Text) : Option (Nat × Quote) :=
  let r := scanGo s 0 .normal 0
  if r.1 = .doubleQuote ∨ r.1 = .escapeInDoubleQuote then some (r.2, .double)
  else if r.1 = .singleQuote then some (r.2, .single)
  else none

/-! ### bare_word_start (private helper of `complete_path`, since the repair of D26) -/

/-- one iteration of the forward loop of `bare_word_start`: (mode, start) at (index, char).
    `brk` is the final `if may_break && is_break_char(char)`. -/
def bareStep (isBreak : Char → Bool) (mode : ScanMode) (start : Nat) (index : Nat) (c : Char) :
    ScanMode × Nat :=
  let brk := if isBreak c then index + c.utf8Size else start
  match mode with
  | .doubleQuote =>
    if c = '"' then (.normal, brk) else if c = '\\' then (.escapeInDoubleQuote, start) else (.doubleQuote, start)
  | .escape => (.normal, start)
  | .escapeInDoubleQuote => (.doubleQuote, start)
  | .normal =>
    if c = '\\' then (.escape, start)
    else if c = '"' then (.doubleQuote, brk)
    else if c = '\'' then (.singleQuote, brk)
    else (.normal, brk)
  | .singleQuote => if c = '\'' then (.normal, brk) else (.singleQuote, start)

def bareGo (isBreak : Char → Bool) : Text → Nat → ScanMode → Nat → ScanMode × Nat
  | [], _, mode, start => (mode, start)
  | c :: t, index, mode, start =>
    let r := bareStep isBreak mode start index c
    bareGo isBreak t (index + c.utf8Size) r.1 r.2

/-- `bare_word_start(s, is_break_char)` (not windows) -/
def bareWordStart (isBreak : Char → Bool) (s : Text) : Nat := (bareGo isBreak s 0 .normal 0).2

/-! ### longest_common_prefix (on bytes) -/

/-- `str::as_bytes` -/
def bytes (t : Text) : List UInt8 := t.flatMap String.utf8EncodeChar

/-- the inner `for` of the `'o` loop does not `break`: every adjacent pair of candidates has a
    byte at `n` and the two bytes are equal -/
def agreeAt : List (List UInt8) → Nat → Bool
  | [], _ => true
  | [_], _ => true
  | b1 :: b2 :: bs, n =>
    if b1.length ≤ n ∨ b2.length ≤ n ∨ b1[n]? ≠ b2[n]? then false else agreeAt (b2 :: bs) n

/-- the `'o: loop`, with fuel (the loop stops at the latest when `n` reaches the length of the
    first candidate; `lcpLoop_stops` in the lemma file shows the fuel given is never exhausted) -/
def lcpLoop (bs : List (List UInt8)) : Nat → Nat → Nat
  | 0, n => n
  | fuel + 1, n => if agreeAt bs n then lcpLoop bs fuel (n + 1) else n

/-- `str::is_char_boundary` on the bytes -/
def isCharBoundary (b : List UInt8) (i : Nat) : Bool :=
  if i = 0 then true
  else if i ≥ b.length then i = b.length
  else
    match b[i]? with
    | some x => x < 128 || x ≥ 192      -- `(x as i8) >= -0x40`
    | none => false

/-- `while !candidate.is_char_boundary(n) { n -= 1 }` (index 0 is a boundary, so no underflow) -/
def backOff (b : List UInt8) : Nat → Nat
  | 0 => 0
  | n + 1 => if isCharBoundary b (n + 1) then n + 1 else backOff b n

/-- byte length of the reported prefix for at least two candidates -/
def lcpLen (cs : List Text) : Nat :=
  let bs := cs.map bytes
  backOff (bs.headD []) (lcpLoop bs ((bs.headD []).length + 1) 0)

/-- `longest_common_prefix(candidates)`; outer `none` = panic of the final slice -/
def longestCommonPrefix (cs : List Text) : Option (Option Text) :=
  match cs with
  | [] => some none
  | [c] => some (some c)
  | c :: _ =>
    let n := lcpLen cs
    if n = 0 then some none
    else
      match splitAtByte c n with
      | some (p, _) => some (some p)
      | none => none

/-! ### filename_complete / complete_path over a listing -/

/-- one directory entry: the directory it lives in (path relative to the current directory,
    `[]` = the current directory itself), its name, and whether it is a directory -/
structure Entry where
  dir : Text
  name : Text
  isDir : Bool
deriving Repr, DecidableEq

abbrev Listing := List Entry

def Entry.full (e : Entry) : Text := if e.dir.isEmpty then e.name else e.dir ++ ['/'] ++ e.name

/-- `path.rfind('/')` then `split_at(idx + 1)`: (dir_name, file_name) -/
def splitPath (path : Text) : Text × Text :=
  let rn := path.reverse.takeWhile (· ≠ '/')
  (path.take (path.length - rn.length), rn.reverse)

/-- components of a relative directory path (`Path` ignores repeated and trailing separators) -/
def components : Text → List Text
  | [] => []
  | t =>
    let go := fun (acc : List Text × Text) (c : Char) =>
      if c = '/' then (if acc.2.isEmpty then acc.1 else acc.1 ++ [acc.2], []) else (acc.1, acc.2 ++ [c])
    let r := t.foldl go ([], [])
    if r.2.isEmpty then r.1 else r.1 ++ [r.2]

/-- lexicographic order on code points (= byte order of the UTF-8 strings) -/
def textLe : Text → Text → Bool
  | [], _ => true
  | _ :: _, [] => false
  | a :: s, b :: t => a.toNat < b.toNat || (a = b && textLe s t)

/-- `filename_complete`; the outer `none` means the addressed directory is outside what the
    listing describes (absolute path, `.`/`..`/`~` components) -/
def filenameComplete (fs : Listing) (path : Text) (esc : Option Char) (isBreak : Char → Bool)
    (q : Quote) : Option (List (Text × Text)) :=
  let (dirName, fileName) := splitPath path
  let comps := components dirName
  if dirName.head? = some '/' ∨ comps.any (fun c => c = ['.'] ∨ c = ['.', '.'] ∨ c = ['~']) then none
  else
    let key : Text := (comps.intersperse ['/']).flatten
    let exists_ := key.isEmpty || fs.any (fun e => e.isDir && e.full == key)
    if !exists_ then some []
    else
      some ((fs.filter (fun e => e.dir == key && fileName.isPrefixOf e.name)).map (fun e =>
        (e.name, escape esc isBreak q (dirName ++ e.name ++ (if e.isDir then ['/'] else [])))))

/-- the first part of `complete_path_unsorted`: (start, path, esc_char, break_chars, quote) -/
def parsePath (isBreak dqSpecial : Char → Bool) (line : Text) (pos : Nat) :
    Option (Nat × Text × Option Char × (Char → Bool) × Quote) :=
  match splitAtByte line pos with
  | none => none
  | some (l, _) =>
    match findUnclosedQuote l with
    | some (idx, q) =>
      match splitAtByte l (idx + 1) with
      | none => none
      | some (_, seg) =>
        if q = .double then some (idx + 1, unescape (some '\\') seg, some '\\', dqSpecial, q)
        else some (idx + 1, seg, none, isBreak, q)
    | none =>
      let start := bareWordStart isBreak l
      match splitAtByte l start with
      | none => none      -- panic of `&line[start..pos]`; excluded by `bareWordStart_split`
      | some (_, w) => some (start, unescape (some '\\') w, some '\\', isBreak, .none)

inductive Outcome (α : Type) | ok (a : α) | panic | outOfModel
deriving Repr, DecidableEq

/-- `FilenameCompleter::complete_path` (candidates sorted by display) -/
def completePath (isBreak dqSpecial : Char → Bool) (fs : Listing) (line : Text) (pos : Nat) :
    Outcome (Nat × List (Text × Text)) :=
  match parsePath isBreak dqSpecial line pos with
  | none => .panic
  | some (start, path, esc, brk, q) =>
    match filenameComplete fs path esc brk q with
    | none => .outOfModel
    | some ms => .ok (start, ms.mergeSort (fun a b => textLe a.1 b.1))

/-- unix `default_break_chars` -/
def defaultBreak (c : Char) : Bool :=
  c = ' ' || c = '\t' || c = '\n' || c = '"' || c = '\\' || c = '\'' || c = '`' || c = '@' || c = '$'
    || c = '>' || c = '<' || c = '=' || c = ';' || c = '|' || c = '&' || c = '{' || c = '(' || c = '\x00'

/-- unix `double_quotes_special_chars` -/
def dqSpecial (c : Char) : Bool := c = '"' || c = '$' || c = '\\' || c = '`'

end Rl.Completion
