/-
  Model of `src/sqlite_history.rs` (`SQLiteHistory`, feature `with-sqlite-history`) and of
  `HistoryHinter` (`src/hint.rs`) on top of it.

  The database file is an abstract row store: `Db.rows` is the `history` table as the list of its
  rows **in rowid order** (the order of the table's B-tree; `C20_sorted` proves every operation
  keeps it), `Db.sessions` the largest id of table `session`, `Db.index` whether the unique index
  `ignore_dups ON history(entry, session_id)` exists, `Db.init` whether `user_version > 0`.
  SQL statements are modelled by what they do to that store:
    * a new row gets rowid `max(rowid) + 1` (1 in an empty table), chosen *before* the conflicting
      row of an `INSERT OR REPLACE` is deleted (probed: add a, add a gives rowid 2);
    * `INSERT OR REPLACE` deletes the row with the same (entry, session) iff the index exists;
    * `CREATE UNIQUE INDEX` fails iff two rows share (entry, session); the code then deletes all
      but the newest row of every (entry, session) group and retries;
    * `set_max_len` deletes the `count - len` lowest rowids;
    * `get` is `… WHERE rowid >= ?1 ORDER BY rowid ASC LIMIT 1` / `<= … DESC`.
  With `PRAGMA recursive_triggers = 1` the FTS table mirrors `history` exactly, so a full-text
  query is a predicate on the entry: the oracle parameter `fts : query → entry → Bool`
  (SQLite's FTS4 tokenizer and query parser are external).  `searchMatch` is that oracle followed
  by the code's own verification of the candidates.  `ftsSimple` is the executable instance of the
  oracle used by the driver (FTS4 `simple` tokenizer, one quoted phrase).
-/
import Rl.Text
import Rl.History
namespace Rl.Sq
open Rl

structure Row where
  rowid : Nat
  session : Nat
  entry : Text
deriving Repr, DecidableEq

structure Db where
  init : Bool := false
  sessions : Nat := 0
  rows : List Row := []
  index : Bool := false
deriving Repr, DecidableEq

structure Cfg where
  maxLen : Nat
  ignoreSpace : Bool
  ignoreDups : Bool
deriving Repr, DecidableEq

structure Hist where
  db : Db
  maxLen : Nat
  ignoreSpace : Bool
  ignoreDups : Bool
  /-- 0 = no session row yet -/
  sessionId : Nat
  /-- the cached largest rowid: `len()` -/
  rowId : Nat
deriving Repr, DecidableEq

/-- `SELECT ifnull(max(rowid), 0) FROM history` (rows are in rowid order) -/
def maxRowid (rows : List Row) : Nat :=
  match rows.getLast? with
  | some r => r.rowid
  | none => 0

def sameKey (a b : Row) : Bool := a.entry == b.entry && a.session == b.session

/-- two rows share (entry, session): `CREATE UNIQUE INDEX` fails -/
def hasDup (rows : List Row) : Bool :=
  rows.any (fun r => rows.any (fun r' => sameKey r' r && r.rowid < r'.rowid))

/-- `DELETE FROM history WHERE rowid NOT IN (SELECT max(rowid) … GROUP BY entry, session_id)` -/
def dedupe (rows : List Row) : List Row :=
  rows.filter (fun r => !rows.any (fun r' => sameKey r' r && r.rowid < r'.rowid))

namespace Hist

/-- `set_ignore_dups` -/
def setIgnoreDupsIndex (h : Hist) : Hist :=
  if h.ignoreDups then
    if h.db.index then h
    else if hasDup h.db.rows then { h with db := { h.db with rows := dedupe h.db.rows, index := true } }
    else { h with db := { h.db with index := true } }
  else { h with db := { h.db with index := false } }

/-- `update_row_id` -/
def updateRowId (h : Hist) : Hist := { h with rowId := maxRowid h.db.rows }

/-- `check_schema` -/
def checkSchema (h : Hist) : Hist :=
  let was := h.db.init
  let h := if was then h else { h with db := { h.db with init := true } }
  let h := if h.ignoreDups || was then h.setIgnoreDupsIndex else h
  if h.rowId == 0 && was then h.updateRowId else h

/-- `SQLiteHistory::open` on the database file `db` -/
def openDb (c : Cfg) (db : Db) : Hist :=
  checkSchema { db, maxLen := c.maxLen, ignoreSpace := c.ignoreSpace, ignoreDups := c.ignoreDups,
                sessionId := 0, rowId := 0 }

/-- `create_session` -/
def createSession (h : Hist) : Hist :=
  if h.sessionId == 0 then
    let h := h.checkSchema
    { h with db := { h.db with sessions := h.db.sessions + 1 }, sessionId := h.db.sessions + 1 }
  else h

/-- `ignore` -/
def ignore (ws : Char → Bool) (h : Hist) (line : Text) : Bool :=
  if h.maxLen == 0 then true
  else if line.isEmpty || (h.ignoreSpace && (match line.head? with | none => true | some c => ws c)) then true
  else false

/-- `add_entry`: `INSERT OR REPLACE INTO history (session_id, entry) … RETURNING rowid` -/
def addEntry (h : Hist) (line : Text) : Hist × Bool :=
  let new : Row := { rowid := maxRowid h.db.rows + 1, session := h.sessionId, entry := line }
  let kept := if h.db.index then h.db.rows.filter (fun r => !sameKey r new) else h.db.rows
  ({ h with db := { h.db with rows := kept ++ [new] }, rowId := new.rowid }, true)

/-- `add` -/
def add (ws : Char → Bool) (h : Hist) (line : Text) : Hist × Bool :=
  if h.ignore ws line then (h, false)
  else h.createSession.addEntry line

/-- `set_max_len` -/
def setMaxLen (h : Hist) (len : Nat) : Hist :=
  let count := h.db.rows.length
  let h := if count > len then { h with db := { h.db with rows := h.db.rows.drop (count - len) } } else h
  { h with maxLen := len }

/-- `ignore_dups` -/
def setIgnoreDups (h : Hist) (yes : Bool) : Hist :=
  if h.ignoreDups != yes then { h with ignoreDups := yes }.setIgnoreDupsIndex else h

def setIgnoreSpace (h : Hist) (yes : Bool) : Hist := { h with ignoreSpace := yes }

def len (h : Hist) : Nat := h.rowId
def isEmpty (h : Hist) : Bool := h.rowId == 0

/-- `if rowid > self.row_id.get() { self.row_id.set(rowid) }` -/
def bump (h : Hist) (rowid : Nat) : Hist := if rowid > h.rowId then { h with rowId := rowid } else h

/-- the row `get` selects -/
def getRow (h : Hist) (index : Nat) : Dir → Option Row
  | .forward => h.db.rows.find? (fun r => index + 1 ≤ r.rowid)
  | .reverse => (h.db.rows.filter (fun r => r.rowid ≤ index + 1)).getLast?

/-- `get`; result = (idx, entry) -/
def get (h : Hist) (index : Nat) (d : Dir) : Hist × Option (Nat × Text) :=
  if h.isEmpty then (h, none)
  else
    match h.getRow index d with
    | some r => (h.bump r.rowid, some (r.rowid - 1, r.entry))
    | none => (h, none)

end Hist

/-! ### searches -/

/-- `is_fts_token_char` -/
def isTok (c : Char) : Bool := c.isAlphanum || 128 ≤ c.toNat

/-- `str::to_ascii_lowercase` -/
def lower (t : Text) : Text := t.map Char.toLower

/-- `fts_phrase` -/
def ftsPhrase (term : Text) (startWith : Bool) : Option Text :=
  if !term.any isTok then none
  else
    some (['"'] ++ (if startWith then ['^'] else []) ++ term.map (fun c => if isTok c then c else ' ')
      ++ (if (term.getLast?.map isTok).getD false then ['*'] else []) ++ ['"'])

/-- `match_pos` -/
def matchPos (entry term : Text) (startWith : Bool) : Option Nat :=
  if startWith then (if (lower term).isPrefixOf (lower entry) then some (blen term) else none)
  else findSub (lower term) (lower entry)

/-- the `while let Some(r) = rows.next()?` loop over the candidates -/
def firstVerified (term : Text) (startWith : Bool) : List Row → Option (Row × Nat)
  | [] => none
  | r :: rs =>
    match matchPos r.entry term startWith with
    | some pos => some (r, pos)
    | none => firstVerified term startWith rs

/-- `search_match`; `fts q e` = "the FTS index matches entry `e` for the query `q`" -/
def Hist.searchMatch (fts : Text → Text → Bool) (h : Hist) (term : Text) (start : Nat) (d : Dir)
    (startWith : Bool) : Hist × Option (Nat × Text × Nat) :=
  if term.isEmpty || start ≥ h.len then (h, none)
  else
    match ftsPhrase term startWith with
    | none => (h, none)
    | some q =>
      let start := start + 1
      let inRange : List Row := match d with
        | .forward => h.db.rows.filter (fun (r : Row) => start ≤ r.rowid)
        | .reverse => (h.db.rows.filter (fun (r : Row) => r.rowid ≤ start)).reverse
      match firstVerified term startWith (inRange.filter (fun r => fts q r.entry)) with
      | some (r, pos) => (h.bump r.rowid, some (r.rowid - 1, r.entry, pos))
      | none => (h, none)

def Hist.search (fts : Text → Text → Bool) (h : Hist) (term : Text) (start : Nat) (d : Dir) :=
  h.searchMatch fts term start d false
def Hist.startsWith (fts : Text → Text → Bool) (h : Hist) (term : Text) (start : Nat) (d : Dir) :=
  h.searchMatch fts term start d true

/-- `HistoryHinter::hint(line, pos, ctx)` with `ctx = Context::new(history)` (history index = len).
    Outer `none` = panic (`sr.entry[pos..]` out of range or off a character boundary). -/
def Hist.hint (fts : Text → Text → Bool) (h : Hist) (line : Text) (pos : Nat) : Hist × Option (Option Text) :=
  if line.isEmpty || pos < blen line then (h, some none)
  else
    let hi := h.len
    let start := if hi == h.len then hi - 1 else hi
    match h.startsWith fts line start .reverse with
    | (h', some (_, entry, _)) =>
      if entry == line then (h', some none)
      else
        match splitAtByte entry pos with
        | some (_, rest) => (h', some (some rest))
        | none => (h', none)
    | (h', none) => (h', some none)

/-! ### the editor's walk over the history (`State::edit_history_next`, src/edit.rs) -/

/-- previous-history pressed until the index stops moving; returns the entries shown and the
    final history index -/
def walkDown (h : Hist) : Nat → Nat → List (Nat × Text) × Nat
  | hi, 0 => ([], hi)
  | hi, fuel + 1 =>
    if h.isEmpty || hi == 0 then ([], hi)
    else if hi - 1 < h.len then
      match (h.get (hi - 1) .reverse).2 with
      | some (i, e) => let (l, f) := walkDown h i fuel; ((i, e) :: l, f)
      | none => ([], hi)
    else ([], hi)

/-- next-history pressed until the index is back at `len` (the edited line is restored) -/
def walkUp (h : Hist) : Nat → Nat → List (Nat × Text)
  | _, 0 => []
  | hi, fuel + 1 =>
    if h.isEmpty || hi == h.len then []
    else if hi + 1 < h.len then
      match (h.get (hi + 1) .forward).2 with
      | some (i, e) => (i, e) :: walkUp h i fuel
      | none => []
    else []

def walk (h : Hist) (fuel : Nat) : List (Nat × Text) × List (Nat × Text) :=
  let (down, hi) := walkDown h h.len fuel
  (down, walkUp h hi fuel)

/-! ### operations of the public API as driven by the harness -/

inductive QOp
  | add (l : Text) | setMax (n : Nat) | dups (b : Bool) | space (b : Bool)
  | reopen (c : Cfg) | crash (c : Cfg) (ls : List Text)
  | len | get (i : Nat) (d : Dir) | walk
  | search (t : Text) (s : Nat) (d : Dir) | startsWith (t : Text) (s : Nat) (d : Dir)
  | hint (t : Text)
deriving Repr

inductive QObs
  | unit | bool (b : Bool) | nat (n : Nat) | bools (bs : List Bool)
  | got (r : Option (Nat × Text)) | found (r : Option (Nat × Text × Nat))
  | walk (down up : List (Nat × Text))
  | hint (r : Option (Option Text))
  /-- only ever parsed from the implementation's output -/
  | err (cls : String)
deriving Repr, DecidableEq

def addAll (ws : Char → Bool) (h : Hist) : List Text → Hist × List Bool
  | [] => (h, [])
  | l :: ls =>
    let (h', b) := h.add ws l
    let (h'', bs) := addAll ws h' ls
    (h'', b :: bs)

/-- fuel of the walk loops in the harness -/
def walkFuel : Nat := 10000

def Hist.step (ws : Char → Bool) (fts : Text → Text → Bool) (h : Hist) : QOp → Hist × QObs
  | .add l => let (h', b) := h.add ws l; (h', .bool b)
  | .setMax n => (h.setMaxLen n, .unit)
  | .dups b => (h.setIgnoreDups b, .unit)
  | .space b => (h.setIgnoreSpace b, .unit)
  | .reopen c => (Hist.openDb c h.db, .unit)
  | .crash c ls =>
    -- the child opens the file, adds, and is gone without closing; every add was committed
    let (h', bs) := addAll ws (Hist.openDb c h.db) ls
    (Hist.openDb c h'.db, .bools bs)
  | .len => (h, .nat h.len)
  | .get i d => let (h', r) := h.get i d; (h', .got r)
  | .walk => let (d, u) := walk h walkFuel; (h, .walk d u)
  | .search t s d => let (h', r) := h.search fts t s d; (h', .found r)
  | .startsWith t s d => let (h', r) := h.startsWith fts t s d; (h', .found r)
  | .hint t => let (h', r) := h.hint fts t (blen t); (h', .hint r)

def Hist.run (ws : Char → Bool) (fts : Text → Text → Bool) (h : Hist) : List QOp → Hist × List QObs
  | [] => (h, [])
  | op :: ops =>
    let (h', o) := h.step ws fts op
    let (h'', os) := Hist.run ws fts h' ops
    (h'', o :: os)

/-! ### executable instance of the FTS oracle (FTS4, tokenizer `simple`, one quoted phrase) -/

/-- tokens of the `simple` tokenizer: maximal runs of token characters, ASCII letters folded -/
def tokensAux : Text → Text → List Text
  | [], cur => if cur.isEmpty then [] else [cur.reverse]
  | c :: t, cur =>
    if isTok c then tokensAux t (c.toLower :: cur)
    else if cur.isEmpty then tokensAux t [] else cur.reverse :: tokensAux t []

def tokens (t : Text) : List Text := tokensAux t []

/-- the phrase `q` matches the document tokens starting at their head -/
def phraseAt : List Text → Bool → List Text → Bool
  | [], _, _ => true
  | [q], pre, d :: _ => if pre then q.isPrefixOf d else q == d
  | q :: qs, pre, d :: ds => q == d && phraseAt qs pre ds
  | _ :: _, _, [] => false

def tails : List α → List (List α)
  | [] => [[]]
  | a :: l => (a :: l) :: tails l

/-- `entry MATCH q` for the queries `ftsPhrase` builds: `"[^]tok tok … tok[*]"` -/
def ftsSimple (q e : Text) : Bool :=
  let body := q.filter (· != '"')
  let anchored := body.head? == some '^'
  let body := if anchored then body.drop 1 else body
  let pre := body.getLast? == some '*'
  let qt := tokens body
  let dt := tokens e
  if qt.isEmpty then false
  else if anchored then phraseAt qt pre dt
  else (tails dt).any (phraseAt qt pre)

end Rl.Sq
