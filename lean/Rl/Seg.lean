/-
  Grapheme segmentation.  The models are parametric in a *lawful* segmenter (`Segmenter`): theorems
  are proved for every lawful one.  `uaxSeg` is a concrete, executable instance implementing the
  UAX #29 extended-grapheme-cluster rules GB3, GB4, GB5, GB6–GB8 (Hangul), GB9, GB9a, GB9b, GB11,
  GB12/13, GB999 over a class function (the `gcb` column of the `charinfo` header), so that the
  driver can run.  Its agreement with `unicode-segmentation` is a correspondence target.
-/
import Rl.Text
namespace Rl

structure Segmenter where
  seg : Text → List Text
  flatten_eq : ∀ t, (seg t).flatten = t
  ne_nil : ∀ t g, g ∈ seg t → g ≠ []

/-- generic grouping: `glue st c` decides whether `c` joins the cluster in progress -/
def groupGo {σ : Type} (glue : σ → Char → Bool) (upd : σ → Char → σ) (init : Char → σ) :
    σ → Text → Text → List Text
  | _, cur, [] => [cur.reverse]
  | st, cur, c :: t =>
    if glue st c then groupGo glue upd init (upd st c) (c :: cur) t
    else cur.reverse :: groupGo glue upd init (init c) [c] t

def group {σ : Type} (glue : σ → Char → Bool) (upd : σ → Char → σ) (init : Char → σ) : Text → List Text
  | [] => []
  | c :: t => groupGo glue upd init (init c) [c] t

theorem groupGo_flatten {σ : Type} (glue : σ → Char → Bool) (upd : σ → Char → σ) (init : Char → σ)
    (st : σ) (cur t : Text) :
    (groupGo glue upd init st cur t).flatten = cur.reverse ++ t := by
  induction t generalizing st cur with
  | nil => simp [groupGo]
  | cons c t ih =>
    simp only [groupGo]
    split
    · rw [ih]; simp
    · simp [ih]

theorem groupGo_ne_nil {σ : Type} (glue : σ → Char → Bool) (upd : σ → Char → σ) (init : Char → σ)
    (st : σ) (cur t : Text) (hc : cur ≠ []) :
    ∀ g ∈ groupGo glue upd init st cur t, g ≠ [] := by
  induction t generalizing st cur with
  | nil => intro g hg; simp [groupGo] at hg; subst hg; simpa using hc
  | cons c t ih =>
    intro g hg
    simp only [groupGo] at hg
    split at hg
    · exact ih _ _ (by simp) g hg
    · simp at hg
      rcases hg with rfl | hg
      · simpa using hc
      · exact ih _ _ (by simp) g hg

def Segmenter.ofGroup {σ : Type} (glue : σ → Char → Bool) (upd : σ → Char → σ) (init : Char → σ) : Segmenter where
  seg := group glue upd init
  flatten_eq := by
    intro t
    cases t with
    | nil => rfl
    | cons c t => simp [group, groupGo_flatten]
  ne_nil := by
    intro t g hg
    cases t with
    | nil => simp [group] at hg
    | cons c t => exact groupGo_ne_nil glue upd init _ _ _ (by simp) g hg

/-- The class strings are `<Grapheme_Cluster_Break>` optionally followed by `/C`, `/L` or `/E`
    (Indic_Conjunct_Break = Consonant / Linker / Extend, for GB9c). -/
def gcbBase (k : String) : String := (k.splitOn "/").headD k
def gcbInCB (k : String) : String := ((k.splitOn "/").drop 1).headD ""

/-- state of the UAX #29 scan: class of the previous character, whether we are inside
    `ExtPict Extend*` (for GB11), whether the run of regional indicators so far is odd (GB12/13),
    and how far an Indic conjunct has got (GB9c): 0 = not in one, 1 = consonant (then only
    InCB extenders), 2 = a linker has been seen as well -/
structure UaxSt where
  prev : String
  pict : Bool
  riOdd : Bool
  incb : Nat := 0

def incbNext (st : Nat) (i : String) : Nat :=
  if i == "C" then 1
  else if i == "L" then (if st ≥ 1 then 2 else 0)
  else if i == "E" then st
  else 0

def uaxInit (cls : Char → String) (c : Char) : UaxSt :=
  let k := gcbBase (cls c)
  { prev := k, pict := k == "ExtPict", riOdd := k == "RI", incb := incbNext 0 (gcbInCB (cls c)) }

def uaxUpd (cls : Char → String) (st : UaxSt) (c : Char) : UaxSt :=
  let k := gcbBase (cls c)
  { prev := k
    pict := if k == "ExtPict" then true
            else if k == "Extend" then st.pict
            else if k == "ZWJ" then false   -- the ZWJ case is handled through `prev`/`pictZwj` below
            else false
    riOdd := if k == "RI" then !st.riOdd else false
    incb := incbNext st.incb (gcbInCB (cls c)) }

/-- `pictZwj`: previous char was a ZWJ that closed an `ExtPict Extend*` run; kept by packing it in
    `prev` as the pseudo-class "ZWJ+" -/
def uaxUpd' (cls : Char → String) (st : UaxSt) (c : Char) : UaxSt :=
  let k := gcbBase (cls c)
  let s := uaxUpd cls st c
  if k == "ZWJ" && st.pict then { s with prev := "ZWJ+" } else s

/-- no break between `st.prev` and `c`? -/
def uaxGlue (cls : Char → String) (st : UaxSt) (c : Char) : Bool :=
  let p := st.prev
  let k := gcbBase (cls c)
  if p == "CR" && k == "LF" then true                         -- GB3
  else if p == "CR" || p == "LF" || p == "Control" then false -- GB4
  else if k == "CR" || k == "LF" || k == "Control" then false -- GB5
  else if p == "L" && (k == "L" || k == "V" || k == "LV" || k == "LVT") then true  -- GB6
  else if (p == "LV" || p == "V") && (k == "V" || k == "T") then true            -- GB7
  else if (p == "LVT" || p == "T") && k == "T" then true                          -- GB8
  else if k == "Extend" || k == "ZWJ" then true               -- GB9
  else if k == "SpacingMark" then true                        -- GB9a
  else if p == "Prepend" then true                            -- GB9b
  else if st.incb == 2 && gcbInCB (cls c) == "C" then true    -- GB9c
  else if p == "ZWJ+" && k == "ExtPict" then true             -- GB11
  else if p == "RI" && k == "RI" && st.riOdd then true        -- GB12/13
  else false                                                  -- GB999

def uaxSeg (cls : Char → String) : Segmenter :=
  Segmenter.ofGroup (uaxGlue cls) (uaxUpd' cls) (uaxInit cls)

/-- legacy mode / tests: every character its own cluster -/
def charSeg : Segmenter := Segmenter.ofGroup (fun (_ : Unit) _ => false) (fun _ _ => ()) (fun _ => ())

end Rl
