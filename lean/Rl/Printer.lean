/-
  The external-printer protocol (property C19) as a labelled transition system at the granularity
  of its atomic steps.  Transliteration of

    src/tty/unix.rs  ExternalPrinter::print        (load flag; direct write | lock, send, wake-up byte, unlock)
                     PosixRawReader::select        (tty first, then wake-up pipe: read one byte, try_recv)
                     enable_raw_mode / disable_raw_mode   (flag store before the paste-on marker / after paste-off)
    src/keymap.rs    InputState::next_cmd          (wait_for_input loop; sub-loops read with next_key)
    src/edit.rs      State::external_print         (clear rows, write message, repaint)

  Shared state: `raw` (AtomicBool, SeqCst), `chan` (mpsc::sync_channel(1): one buffered message, `send`
  blocks while it is full), `pipe` (bytes in the wake-up pipe), `wlock` (the writer mutex), the terminal
  output `out`.  Any number of printer threads (`pr : Nat → Printer`); each has a queue of messages
  still to be handed to `print`, and `hist`, the messages it has handed over so far.
  Everything here is executable; `Rl/Props/C19.lean` proves the invariants over all interleavings.
-/
import Std.Data.HashSet
namespace Rl.Printer

/-- a message is identified by its thread and a per-request identifier; its text is irrelevant to the
    protocol (one `write` on a terminal is atomic: trusted base) -/
structure Msg where
  tid : Nat
  id : Nat
deriving DecidableEq, Repr, Hashable

/-- what reaches the terminal -/
inductive Ev
  | rawOn                -- bracketed-paste-on marker: written right after `raw := true`
  | rawOff               -- bracketed-paste-off marker: written right before `raw := false`
  | prompt               -- first drawing of prompt and line
  | shown (m : Msg)      -- `external_print`: rows cleared, message, repaint
  | direct (m : Msg)     -- printer wrote the message itself
deriving DecidableEq, Repr

/-- program counter of one `print` call -/
inductive PPc
  | idle
  | cooked (id : Nat)    -- loaded `raw = false`: will write directly
  | rawSeen (id : Nat)   -- loaded `raw = true`: will take the writer mutex
  | locked (id : Nat)    -- holds the mutex, about to `send`
  | sent                 -- message is in the channel, about to write the wake-up byte
  | wrote                -- byte written, about to release the mutex and return
deriving DecidableEq, Repr, Hashable

structure Printer where
  pc : PPc := .idle
  queue : List Nat := []   -- issued by the application, `print` not yet called
  hist : List Nat := []    -- `print` called (in call order)

/-- key classes that matter to the protocol -/
inductive Key
  | plain (c : Nat)   -- self-inserting character
  | enter             -- accepts the line
  | sub               -- enters a sub-loop that reads with `next_key` (digit argument `M-1`)
  | exit              -- `C-g`
deriving DecidableEq, Repr, Hashable

/-- program counter of the editing thread -/
inductive EPc
  | outside               -- no read in progress
  | enabling              -- `raw := true` done, marker not yet written
  | drawing               -- marker written, prompt not yet drawn
  | waiting               -- main loop, inside `select`
  | woken                 -- `select` returned: tty not readable, pipe readable
  | gotByte               -- wake-up byte read, before `try_recv`
  | showing (m : Msg)     -- `Event::ExternalPrint(m)` returned, before `external_print`
  | sub                   -- sub-loop, inside `next_key`
  | finishing             -- line accepted, paste-off marker not yet written
  | disabling             -- marker written, `raw := false` not yet done
deriving DecidableEq, Repr, Hashable

structure Sys where
  raw : Bool := false
  chan : Option Msg := none
  pipe : Nat := 0
  wlock : Option Nat := none
  out : List Ev := []               -- oldest first
  pr : Nat → Printer := fun _ => {}
  epc : EPc := .outside
  keys : List Key := []             -- typed, not yet read by the editor
  typing : Option Key := none       -- the environment is inside the `write` of this key
  reads : Nat := 0                  -- `readline` calls requested by the application, not yet started
  line : List Nat := []             -- the text being edited
  results : List (List Nat) := []   -- lines returned so far, oldest first

def Sys.setPr (s : Sys) (t : Nat) (p : Printer) : Sys :=
  { s with pr := fun i => if i = t then p else s.pr i }

inductive Label
  -- environment
  | issue (t id : Nat) | cmdRead | keyWrite (k : Key) | keyArrive
  -- printer thread `t`
  | pLoad (t : Nat) | pDirect (t : Nat) | pLock (t : Nat) | pSend (t : Nat) | pByte (t : Nat) | pUnlock (t : Nat)
  -- editing thread
  | eStoreTrue | eMarkOn | ePrompt | eKey | eWake | eReadByte | eRecv | eShow | eMarkOff | eStoreFalse
deriving DecidableEq, Repr

/-- effect of a key read in the main loop / in the sub-loop -/
def keyMain (s : Sys) (k : Key) (ks : List Key) : Sys :=
  match k with
  | .plain c => { s with keys := ks, line := s.line ++ [c] }
  | .enter => { s with keys := ks, epc := .finishing, results := s.results ++ [s.line], line := [] }
  | .sub => { s with keys := ks, epc := .sub }
  | .exit => { s with keys := ks }

def keySub (s : Sys) (k : Key) (ks : List Key) : Sys :=
  match k with
  | .plain c => { s with keys := ks, epc := .waiting, line := s.line ++ [c] }
  | .enter => { s with keys := ks, epc := .finishing, results := s.results ++ [s.line], line := [] }
  | .sub => { s with keys := ks }
  | .exit => { s with keys := ks, epc := .waiting }

/-- one atomic step; `none` = the step is not enabled (a blocked `send`, a held mutex, …) -/
def step (s : Sys) : Label → Option Sys
  | .issue t id => some (s.setPr t { s.pr t with queue := (s.pr t).queue ++ [id] })
  | .cmdRead => some { s with reads := s.reads + 1 }
  | .keyWrite k =>
    match s.typing with
    | none => some { s with typing := some k }
    | some _ => none
  | .keyArrive =>
    match s.typing with
    | some k => some { s with typing := none, keys := s.keys ++ [k] }
    | none => none
  | .pLoad t =>
    match (s.pr t).pc, (s.pr t).queue with
    | .idle, id :: q =>
      some (s.setPr t { pc := if s.raw then .rawSeen id else .cooked id, queue := q,
                        hist := (s.pr t).hist ++ [id] })
    | _, _ => none
  | .pDirect t =>
    match (s.pr t).pc with
    | .cooked id => some (({ s with out := s.out ++ [Ev.direct ⟨t, id⟩] } : Sys).setPr t { s.pr t with pc := .idle })
    | _ => none
  | .pLock t =>
    match (s.pr t).pc, s.wlock with
    | .rawSeen id, none => some (({ s with wlock := some t } : Sys).setPr t { s.pr t with pc := .locked id })
    | _, _ => none
  | .pSend t =>
    match (s.pr t).pc, s.chan with
    | .locked id, none => some (({ s with chan := some ⟨t, id⟩ } : Sys).setPr t { s.pr t with pc := .sent })
    | _, _ => none
  | .pByte t =>
    match (s.pr t).pc with
    | .sent => some (({ s with pipe := s.pipe + 1 } : Sys).setPr t { s.pr t with pc := .wrote })
    | _ => none
  | .pUnlock t =>
    match (s.pr t).pc with
    | .wrote => some (({ s with wlock := none } : Sys).setPr t { s.pr t with pc := .idle })
    | _ => none
  | .eStoreTrue =>
    match s.epc, s.reads with
    | .outside, r + 1 => some { s with epc := .enabling, raw := true, reads := r }
    | _, _ => none
  | .eMarkOn =>
    match s.epc with
    | .enabling => some { s with epc := .drawing, out := s.out ++ [.rawOn] }
    | _ => none
  | .ePrompt =>
    match s.epc with
    | .drawing => some { s with epc := .waiting, out := s.out ++ [.prompt] }
    | _ => none
  | .eKey =>
    match s.epc, s.keys with
    | .waiting, k :: ks => some (keyMain s k ks)
    | .sub, k :: ks => some (keySub s k ks)
    | _, _ => none
  | .eWake =>
    -- `select` reports the pipe only when the terminal is not readable ("prefer user input")
    match s.epc, s.keys, s.pipe with
    | .waiting, [], _ + 1 => some { s with epc := .woken }
    | _, _, _ => none
  | .eReadByte =>
    match s.epc, s.pipe with
    | .woken, p + 1 => some { s with epc := .gotByte, pipe := p }
    | _, _ => none
  | .eRecv =>
    match s.epc, s.chan with
    | .gotByte, some m => some { s with epc := .showing m, chan := none }
    | .gotByte, none => some { s with epc := .waiting }
    | _, _ => none
  | .eShow =>
    match s.epc with
    | .showing m => some { s with epc := .waiting, out := s.out ++ [.shown m] }
    | _ => none
  | .eMarkOff =>
    match s.epc with
    | .finishing => some { s with epc := .disabling, out := s.out ++ [.rawOff] }
    | _ => none
  | .eStoreFalse =>
    match s.epc with
    | .disabling => some { s with epc := .outside, raw := false }
    | _ => none

def init : Sys := {}

def run (s : Sys) : List Label → Option Sys
  | [] => some s
  | l :: ls => (step s l).bind (fun s' => run s' ls)

/-- the states the protocol can be in -/
inductive Reach : Sys → Prop
  | init : Reach init
  | step {s s' : Sys} (l : Label) : Reach s → step s l = some s' → Reach s'

/-- the editing thread is blocked in `select`: no key pending, wake-up pipe empty -/
def Sys.blocked (s : Sys) : Bool :=
  s.epc == .waiting && s.keys.isEmpty && s.pipe == 0

/-! ## Replay: is an observed trace a trace of the system?

  The harness observes the terminal output stream (markers and messages) and the actions of its own
  main thread (issuing print commands, starting reads, typing keys, barriers).  `accepts` decides
  whether some interleaving of the atomic steps above produces exactly that trace, by a breadth-first
  search over sets of states (closed under the steps that are invisible in the trace). -/

inductive Quiet
  | inSelect     -- the reader sleeps in select: nothing typed is unread, nothing is in the pipe
  | inRead       -- the reader sleeps in read(0): a sub-loop waits for a key
  | noRead       -- every requested read has returned
  | unknown      -- the harness gave up waiting
deriving DecidableEq, Repr

inductive TEv
  | issue (t id : Nat)
  | read
  | keyW (k : Key)       -- the harness starts writing a key …
  | keyD                 -- … and has written it
  | sync (ok : Bool)     -- every issued `print` call has returned (or: the harness gave up waiting)
  | quiet (q : Quiet)
  | on | off | prompt
  | shown (m : Msg) | direct (m : Msg)
  | broken               -- a fragment of a message
deriving DecidableEq, Repr

structure Snap where
  raw : Bool
  chan : Option Msg
  pipe : Nat
  wlock : Option Nat
  prs : List (PPc × List Nat)
  epc : EPc
  keys : List Key
  typing : Option Key
  reads : Nat
  line : List Nat
  results : List (List Nat)
deriving BEq, Hashable

def snap (n : Nat) (s : Sys) : Snap :=
  { raw := s.raw, chan := s.chan, pipe := s.pipe, wlock := s.wlock,
    prs := (List.range n).map (fun t => ((s.pr t).pc, (s.pr t).queue)),
    epc := s.epc, keys := s.keys, typing := s.typing, reads := s.reads, line := s.line,
    results := s.results }

def invisible (n : Nat) : List Label :=
  [.keyArrive, .eStoreTrue, .eKey, .eWake, .eReadByte, .eRecv, .eStoreFalse] ++
  (List.range n).flatMap (fun t => [.pLoad t, .pLock t, .pSend t, .pByte t, .pUnlock t])

/-- all states reachable from `todo` by invisible steps (worklist; `fuel` bounds the work) -/
def closure (n : Nat) : Nat → List Sys → Std.HashSet Snap → List Sys → List Sys
  | 0, _, _, acc => acc
  | _, [], _, acc => acc
  | fuel + 1, s :: todo, seen, acc =>
    let k := snap n s
    if seen.contains k then closure n fuel todo seen acc
    else
      let next := (invisible n).filterMap (step s)
      closure n fuel (next ++ todo) (seen.insert k) (s :: acc)

def closed (n : Nat) (l : List Sys) : List Sys := closure n 200000 l {} []

def allIdle (n : Nat) (s : Sys) : Bool :=
  (List.range n).all (fun t => (s.pr t).pc == .idle && (s.pr t).queue.isEmpty)

/-- the states after one more observed event -/
def applyEv (n : Nat) (ss : List Sys) : TEv → List Sys
  | .issue t id => if t < n then ss.filterMap (fun s => step s (.issue t id)) else []
  | .read => ss.filterMap (fun s => step s .cmdRead)
  | .keyW k => ss.filterMap (fun s => step s (.keyWrite k))
  | .keyD => ss.map (fun s => (step s .keyArrive).getD s)
  | .sync true => ss.filter (allIdle n)
  | .sync false => ss
  | .quiet .inSelect => ss.filter (fun s => s.blocked && s.typing.isNone)
  | .quiet .inRead => ss.filter (fun s => s.epc == .sub && s.keys.isEmpty && s.typing.isNone)
  | .quiet .noRead => ss.filter (fun s => s.epc == .outside && s.reads == 0)
  | .quiet .unknown => ss
  | .on => ss.filterMap (fun s => step s .eMarkOn)
  | .off => ss.filterMap (fun s => step s .eMarkOff)
  | .prompt => ss.filterMap (fun s => step s .ePrompt)
  | .shown m => ss.filterMap (fun s => if s.epc == .showing m then step s .eShow else none)
  | .direct m => ss.filterMap (fun s => if (s.pr m.tid).pc == .cooked m.id then step s (.pDirect m.tid) else none)
  | .broken => []

/-- replays the trace; `.error i` = no interleaving explains the first `i + 1` events -/
def replayFrom (n : Nat) (ss : List Sys) (i : Nat) : List TEv → Except Nat (List Sys)
  | [] => .ok ss
  | e :: es =>
    match closed n (applyEv n ss e) with
    | [] => .error i
    | ss' => replayFrom n ss' (i + 1) es

def replay (n : Nat) (tr : List TEv) : Except Nat (List Sys) :=
  replayFrom n (closed n [init]) 0 tr

/-- the trace and the returned lines are explained by some interleaving -/
def accepts (n : Nat) (tr : List TEv) (results : List (List Nat)) : Except String Unit :=
  match replay n tr with
  | .error i => .error s!"no-interleaving-explains-event-{i}"
  | .ok ss => if ss.any (fun s => s.results == results) then .ok () else .error "returned-lines-differ"

end Rl.Printer
