/-
  Model of `src/history.rs` — `MemHistory` (and the `new_entries` counter of `FileHistory`).
  Transliteration of the code: `ignore`, `insert` (pop-front iff `len == max_len`),
  `add`, `set_max_len` (drain), `search_match` with its skip/enumerate arithmetic.
  `char::is_whitespace` is a parameter (`ws`).
-/
import Rl.Text
namespace Rl

inductive Dir | forward | reverse
deriving DecidableEq, Repr

structure MemHist where
  entries : List Text
  maxLen : Nat
  ignoreSpace : Bool
  ignoreDups : Bool
deriving Repr, DecidableEq

namespace MemHist

def new (maxLen : Nat) (ignoreSpace ignoreDups : Bool) : MemHist :=
  { entries := [], maxLen, ignoreSpace, ignoreDups }

/-- `MemHistory::ignore` -/
def ignore (ws : Char → Bool) (h : MemHist) (line : Text) : Bool :=
  if h.maxLen == 0 then true
  else if line.isEmpty || (h.ignoreSpace && (match line.head? with | none => true | some c => ws c)) then true
  else if h.ignoreDups then
    match h.entries.getLast? with
    | some s => s == line
    | none => false
  else false

/-- `MemHistory::insert` -/
def insert (h : MemHist) (line : Text) : MemHist :=
  let es := if h.entries.length == h.maxLen then h.entries.drop 1 else h.entries
  { h with entries := es ++ [line] }

/-- `MemHistory::add` / `add_owned` (identical bodies) -/
def add (ws : Char → Bool) (h : MemHist) (line : Text) : MemHist × Bool :=
  if h.ignore ws line then (h, false) else (h.insert line, true)

/-- `MemHistory::set_max_len` -/
def setMaxLen (h : MemHist) (len : Nat) : MemHist :=
  let h' := { h with maxLen := len }
  if h'.entries.length > len then { h' with entries := h'.entries.drop (h'.entries.length - len) } else h'

def setIgnoreDups (h : MemHist) (b : Bool) : MemHist := { h with ignoreDups := b }
def setIgnoreSpace (h : MemHist) (b : Bool) : MemHist := { h with ignoreSpace := b }
def clear (h : MemHist) : MemHist := { h with entries := [] }

/-- `MemHistory::get` -/
def get (h : MemHist) (i : Nat) : Option Text := h.entries[i]?

/-- first element satisfying `test` in an enumerated scan, with the enumeration index -/
def scan (test : Text → Option Nat) : List Text → Nat → Option (Nat × Text × Nat)
  | [], _ => none
  | e :: es, k =>
    match test e with
    | some cur => some (k, e, cur)
    | none => scan test es (k + 1)

/-- `MemHistory::search_match`; result = (idx, entry, pos) -/
def searchMatch (h : MemHist) (term : Text) (start : Nat) (dir : Dir)
    (test : Text → Option Nat) : Option (Nat × Text × Nat) :=
  if term.isEmpty || start ≥ h.entries.length then none
  else
    match dir with
    | .reverse =>
      match scan test (h.entries.reverse.drop (h.entries.length - 1 - start)) 0 with
      | some (idx, e, cur) => some (start - idx, e, cur)
      | none => none
    | .forward =>
      match scan test (h.entries.drop start) 0 with
      | some (idx, e, cur) => some (idx + start, e, cur)
      | none => none

/-- `MemHistory::search` (feature `case_insensitive_history_search` off) -/
def search (h : MemHist) (term : Text) (start : Nat) (dir : Dir) :=
  h.searchMatch term start dir (fun e => findSub term e)

/-- `MemHistory::starts_with` -/
def startsWith (h : MemHist) (term : Text) (start : Nat) (dir : Dir) :=
  h.searchMatch term start dir (fun e => if term.isPrefixOf e then some (blen term) else none)

end MemHist

/-- `FileHistory`'s in-memory part: `MemHistory` plus the `new_entries` counter. -/
structure FileHist where
  mem : MemHist
  newEntries : Nat
deriving Repr, DecidableEq

namespace FileHist
def new (maxLen : Nat) (isp idp : Bool) : FileHist := { mem := MemHist.new maxLen isp idp, newEntries := 0 }
def add (ws : Char → Bool) (f : FileHist) (line : Text) : FileHist × Bool :=
  let (m, ok) := f.mem.add ws line
  if ok then ({ mem := m, newEntries := min (f.newEntries + 1) m.entries.length }, true)
  else (f, false)
def setMaxLen (f : FileHist) (len : Nat) : FileHist :=
  { mem := f.mem.setMaxLen len, newEntries := min f.newEntries len }
def clear (f : FileHist) : FileHist := { mem := f.mem.clear, newEntries := 0 }
end FileHist

/-- Operations of the public API, as driven by the harness. -/
inductive HOp
  | add (l : Text) | addOwned (l : Text) | setMax (n : Nat) | dups (b : Bool) | space (b : Bool)
  | clear | get (i : Nat) | search (t : Text) (s : Nat) (d : Dir) | startsWith (t : Text) (s : Nat) (d : Dir)
  | len | dump
deriving Repr

/-- Observation of one operation. -/
inductive HObs
  | unit | bool (b : Bool) | nat (n : Nat) | entry (e : Option Text)
  | found (r : Option (Nat × Text × Nat)) | all (es : List Text)
deriving Repr, DecidableEq

def MemHist.step (ws : Char → Bool) (h : MemHist) : HOp → MemHist × HObs
  | .add l | .addOwned l => let (h', b) := h.add ws l; (h', .bool b)
  | .setMax n => (h.setMaxLen n, .unit)
  | .dups b => (h.setIgnoreDups b, .unit)
  | .space b => (h.setIgnoreSpace b, .unit)
  | .clear => (h.clear, .unit)
  | .get i => (h, .entry (h.get i))
  | .search t s d => (h, .found (h.search t s d))
  | .startsWith t s d => (h, .found (h.startsWith t s d))
  | .len => (h, .nat h.entries.length)
  | .dump => (h, .all h.entries)

def MemHist.run (ws : Char → Bool) (h : MemHist) : List HOp → MemHist × List HObs
  | [] => (h, [])
  | op :: ops =>
    let (h', o) := h.step ws op
    let (h'', os) := MemHist.run ws h' ops
    (h'', o :: os)

end Rl
