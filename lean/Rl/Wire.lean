/-
  Line protocol shared by every driver target.
  text      : `-` (empty) or decimal code points joined by `,`
  text list : `~` (empty) or texts joined by `;`
-/
import Rl.Text
namespace Rl.Wire

def splitOnChar (s : String) (c : Char) : List String :=
  (s.splitOn (String.singleton c))

def parseNat (s : String) : Option Nat := s.toNat?

def parseBool (s : String) : Option Bool :=
  if s == "1" then some true else if s == "0" then some false else none

def parseText (s : String) : Option Text :=
  if s == "-" then some []
  else (splitOnChar s ',').mapM (fun t => t.toNat?.map Char.ofNat)

def parseTexts (s : String) : Option (List Text) :=
  if s == "~" then some []
  else (splitOnChar s ';').mapM parseText

def showText (t : Text) : String :=
  if t.isEmpty then "-" else ",".intercalate (t.map (fun c => toString c.toNat))

def showTexts (ts : List Text) : String :=
  if ts.isEmpty then "~" else ";".intercalate (ts.map showText)

def showBool (b : Bool) : String := if b then "1" else "0"

def showOptNat : Option Nat → String
  | none => "n"
  | some k => toString k

/-- Per-character data reported by the implementation's own libraries (`charinfo` lines). -/
structure CharInfo where
  cp : Nat
  alnum : Bool
  ws : Bool
  ctrl : Bool
  gcb : String
  width : Nat
  upper : Text
  lower : Text
  swidth : Nat
deriving Repr

abbrev CharTable := List CharInfo

def CharTable.find (t : CharTable) (c : Char) : Option CharInfo :=
  List.find? (fun i => i.cp == c.toNat) t

/-- `charinfo <cp> <alnum> <ws> <ctrl> <gcb> <width> <upper> <lower> <swidth>`:
    `width` is `UnicodeWidthChar::width` (0 for controls), `swidth` the `UnicodeWidthStr::width`
    of the one-character string. -/
def parseCharInfo (f : List String) : Option CharInfo :=
  match f with
  | [cp, an, ws, ct, gcb, w, up, lo, sw] => do
    let sw ← parseNat sw
    let cp ← parseNat cp
    let an ← parseBool an
    let ws ← parseBool ws
    let ct ← parseBool ct
    let w ← parseNat w
    let up ← parseText up
    let lo ← parseText lo
    pure { cp, alnum := an, ws, ctrl := ct, gcb, width := w, upper := up, lower := lo, swidth := sw }
  | _ => none

def CharTable.ws (t : CharTable) (c : Char) : Bool := ((t.find c).map (·.ws)).getD false
def CharTable.alnum (t : CharTable) (c : Char) : Bool := ((t.find c).map (·.alnum)).getD false
def CharTable.knows (t : CharTable) (txt : Text) : Bool := txt.all (fun c => (t.find c).isSome)

end Rl.Wire
