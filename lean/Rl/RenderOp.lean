/-
  The calls the editor (`src/edit.rs`, `src/command.rs`, `src/keymap.rs`, `src/lib.rs`) makes on its
  renderer, as a log the editor model appends to.  Decisions that depend on the believed screen layout
  (fast path of `edit_insert`, "cursor cell unchanged" in `move_cursor`) are taken by `Rl/Render.lean`
  when the log is replayed, because only the renderer knows the layout.
-/
import Rl.Text
namespace Rl

inductive RenderOp
  /-- `State::refresh(prompt, prompt_size, default_prompt, info)`; `prompt = none` is the read's own
      prompt (`default_prompt = true`), `some p` a dynamic prompt (`refresh_prompt_and_line`) -/
  | refresh (prompt : Option Text) (line : Text) (pos : Nat) (info : Option Text)
  /-- `State::move_cursor(kind)`; `hl` = what `highlight_char(kind)` answers if it is asked -/
  | moveCursor (line : Text) (pos : Nat) (hl : Bool)
  /-- `edit_insert` after a successful `line.insert`: `push`, the new hint, whether a hint was
      displayed before, and what `highlight_char(Other)` answers if it is asked -/
  | insert (ch : Char) (n : Nat) (push : Bool) (line : Text) (pos : Nat) (hint : Option Text)
      (noPrevHint : Bool) (hl : Bool)
  /-- `State::clear_screen` -/
  | clearScreen
  /-- `State::move_cursor_to_end` (on `Cmd::Interrupt`) -/
  | moveToEnd
  /-- `Event::Any` handler called: everything before is on the terminal; what the handler sees -/
  | sync (line : Text) (pos : Nat) (hint : Option Text)
  /-- `self.term.writeln()` after `readline_edit` returned -/
  | writeln
deriving Repr

end Rl
