/-
  A VT100-subset terminal emulator: `cols` columns, unboundedly many rows below the origin (no
  scrolling), cells holding a base character plus the zero-width characters attached to it, a cursor,
  deferred wrap at the right margin (xenl / `am`), wide characters that do not fit wrapping early,
  zero-width characters attaching to the previous cell, and the control functions the renderer emits:
  CR, LF (as CR LF: `OPOST|ONLCR` stays on in rustyline's raw mode), BEL, BS, HT, `ESC[nA/B/C/D`,
  `ESC[K`, `ESC[H`, `ESC[J`; SGR (`ESC[…m`) and `ESC[?…h/l` are ignored.
  Input is a sequence of characters (the driver decodes the UTF-8 byte stream first); the width of a
  character comes from the implementation's `unicode-width` table (`cw`).
-/
import Rl.Text
namespace Rl

structure Cell where
  /-- base character followed by attached zero-width characters; `[]` = blank -/
  g : Text := []
  /-- right half of a wide character -/
  cont : Bool := false
deriving DecidableEq, Repr, Inhabited

abbrev Grid := List (List Cell)

def Grid.get (g : Grid) (r c : Nat) : Cell := ((g[r]?).getD [])[c]?.getD {}

/-- overwrite column `c` of a row, padding with blanks -/
def rowSet : List Cell → Nat → Cell → List Cell
  | [], 0, x => [x]
  | [], c + 1, x => {} :: rowSet [] c x
  | _ :: t, 0, x => x :: t
  | y :: t, c + 1, x => y :: rowSet t c x

/-- apply `f` to row `r`, padding with empty rows -/
def Grid.modifyRow : Grid → Nat → (List Cell → List Cell) → Grid
  | [], 0, f => [f []]
  | [], r + 1, f => [] :: Grid.modifyRow [] r f
  | row :: t, 0, f => f row :: t
  | row :: t, r + 1, f => row :: Grid.modifyRow t r f

def Grid.set (g : Grid) (r c : Nat) (x : Cell) : Grid := g.modifyRow r (fun row => rowSet row c x)

/-- `ESC[K`: erase from column `c` to the end of row `r` -/
def Grid.eraseLineFrom (g : Grid) (r c : Nat) : Grid := g.modifyRow r (fun row => row.take c)

/-- `ESC[J`: erase from the cursor to the end of the screen -/
def Grid.eraseBelow (g : Grid) (r c : Nat) : Grid :=
  Grid.modifyRow (g.take (r + 1)) r (fun row => row.take c)

inductive PState
  | ground
  | esc
  | csi (priv : Bool) (params : List Nat) (cur : Option Nat)
deriving DecidableEq, Repr

structure Term where
  cols : Nat
  grid : Grid := []
  cr : Nat := 0
  cc : Nat := 0
  /-- deferred wrap: the cursor is on the last column and the next printable character wraps first -/
  pending : Bool := false
  ps : PState := .ground
  /-- a control function outside the modelled subset was seen -/
  bad : Bool := false
deriving Repr

def Term.blank (cols : Nat) : Term := { cols }

/-- mark `k` continuation cells starting at column `c` -/
def setCont (g : Grid) (r : Nat) : Nat → Nat → Grid
  | _, 0 => g
  | c, k + 1 => setCont (g.set r c { cont := true }) r (c + 1) k

/-- the column of the cell a zero-width character joins: the cell before the cursor (the cell under
    it when a wrap is pending); none at the start of a row -/
def Term.attachCol (t : Term) : Option Nat :=
  if t.pending then some t.cc else if t.cc == 0 then none else some (t.cc - 1)

/-- a zero-width character joins the previous cell (the base cell of a wide character) -/
def Term.attach (t : Term) (ch : Char) : Term :=
  match t.attachCol with
  | none => t
  | some c0 =>
    let c := if (t.grid.get t.cr c0).cont && c0 > 0 then c0 - 1 else c0
    let cell := t.grid.get t.cr c
    { t with grid := t.grid.set t.cr c { cell with g := cell.g ++ [ch] } }

/-- print one character of width `w` -/
def Term.print (t : Term) (w : Nat) (ch : Char) : Term :=
  if w == 0 then t.attach ch
  else
    let wrap := t.pending || t.cc + w > t.cols
    let r := if wrap then t.cr + 1 else t.cr
    let c := if wrap then 0 else t.cc
    let g := setCont (t.grid.set r c { g := [ch] }) r (c + 1) (w - 1)
    if c + w ≥ t.cols then { t with grid := g, cr := r, cc := t.cols - 1, pending := true }
    else { t with grid := g, cr := r, cc := c + w, pending := false }

def Term.param (params : List Nat) (cur : Option Nat) : List Nat :=
  match cur with
  | some n => params ++ [n]
  | none => params

/-- first parameter of a cursor motion: default 1, and 0 means 1 -/
def Term.count (ps : List Nat) : Nat :=
  match ps with
  | n :: _ => if n == 0 then 1 else n
  | [] => 1

def Term.csiFinal (t : Term) (priv : Bool) (ps : List Nat) (f : Char) : Term :=
  let t := { t with ps := .ground }
  if priv then (if f == 'h' || f == 'l' then t else { t with bad := true })
  else if f == 'A' then { t with cr := t.cr - Term.count ps, pending := false }
  else if f == 'B' then { t with cr := t.cr + Term.count ps, pending := false }
  else if f == 'C' then { t with cc := min (t.cols - 1) (t.cc + Term.count ps), pending := false }
  else if f == 'D' then { t with cc := t.cc - Term.count ps, pending := false }
  else if f == 'K' then
    (if ps.head?.getD 0 == 0 then { t with grid := t.grid.eraseLineFrom t.cr t.cc } else { t with bad := true })
  else if f == 'H' then
    { t with cr := (ps.head?.getD 1) - 1, cc := min (t.cols - 1) (((ps.drop 1).head?.getD 1) - 1), pending := false }
  else if f == 'J' then
    (if ps.head?.getD 0 == 0 then { t with grid := t.grid.eraseBelow t.cr t.cc }
     else if ps.head?.getD 0 == 2 then { t with grid := [] }
     else { t with bad := true })
  else if f == 'm' then t
  else { t with bad := true }

def Term.control (t : Term) (ch : Char) : Term :=
  if ch == '\r' then { t with cc := 0, pending := false }
  else if ch == '\n' then { t with cr := t.cr + 1, cc := 0, pending := false }
  else if ch == '\x08' then { t with cc := t.cc - 1, pending := false }
  else if ch == '\t' then { t with cc := min (t.cols - 1) ((t.cc / 8 + 1) * 8) }
  else if ch == '\x1b' then { t with ps := .esc }
  else t  -- BEL and the other C0 controls have no visible effect

def isC0Control (ch : Char) : Bool := ch.toNat < 32 || ch.toNat == 127

/-- interpret one character -/
def Term.step (cw : Char → Nat) (t : Term) (ch : Char) : Term :=
  match t.ps with
  | .ground => if isC0Control ch then t.control ch else t.print (cw ch) ch
  | .esc => if ch == '[' then { t with ps := .csi false [] none } else { t with ps := .ground }
  | .csi priv params cur =>
    if ch == '?' then { t with ps := .csi true params cur }
    else if '0' ≤ ch && ch ≤ '9' then
      { t with ps := .csi priv params (some (cur.getD 0 * 10 + (ch.toNat - '0'.toNat))) }
    else if ch == ';' then { t with ps := .csi priv (params ++ [cur.getD 0]) none }
    else t.csiFinal priv (Term.param params cur) ch

def Term.feed (cw : Char → Nat) (t : Term) (s : Text) : Term := s.foldl (Term.step cw) t

/-! ### canonical view of the screen (what an observer sees) -/

/-- what a cell shows: a written space and a blank cell look the same -/
def Cell.vis (x : Cell) : Text := if x.g == [' '] then [] else x.g

def dropTrailing {α : Type} (p : α → Bool) (l : List α) : List α :=
  (l.reverse.dropWhile p).reverse

/-- visible content of a row: one entry per cell, trailing blanks removed -/
def rowCanon (row : List Cell) : List (Text × Bool) :=
  dropTrailing (fun x => x.1.isEmpty && !x.2) (row.map (fun x => (x.vis, x.cont)))

def Grid.canon (g : Grid) : List (List (Text × Bool)) :=
  dropTrailing (fun r => r.isEmpty) (g.map rowCanon)

/-- visible cursor cell: a pending wrap is shown on the last column -/
def Term.cursor (t : Term) : Nat × Nat := (t.cr, t.cc)

end Rl
