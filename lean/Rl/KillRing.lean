/- Model of `src/kill_ring.rs`. `slots.capacity()` is modelled as the requested size (60). -/
import Rl.Text
import Rl.Types
namespace Rl

inductive KAction | kill | yank (size : Nat) | other
deriving DecidableEq, Repr

inductive KMode | append | prepend
deriving DecidableEq, Repr

structure KillRing where
  slots : List Text
  index : Nat
  lastAction : KAction
  killing : Bool
  cap : Nat
deriving Repr, DecidableEq

namespace KillRing

def new (size : Nat) : KillRing := { slots := [], index := 0, lastAction := .other, killing := false, cap := size }

def reset (k : KillRing) : KillRing := { k with lastAction := .other }

/-- `KillRing::kill`; `slots[index]` indexing panics when out of range -/
def kill (k : KillRing) (text : Text) (dir : KMode) : Except Panic KillRing :=
  if k.lastAction == .kill then
    if k.cap == 0 then .ok k
    else
      match k.slots[k.index]? with
      | none => .error .panic
      | some s =>
        let s' := match dir with | .append => s ++ text | .prepend => text ++ s
        .ok { k with slots := k.slots.set k.index s' }
  else
    let k := { k with lastAction := .kill }
    if k.cap == 0 then .ok k
    else
      let idx := if k.index == k.cap - 1 then 0 else if !k.slots.isEmpty then k.index + 1 else k.index
      if idx == k.slots.length then .ok { k with index := idx, slots := k.slots ++ [text] }
      else if idx < k.slots.length then .ok { k with index := idx, slots := k.slots.set idx text }
      else .error .panic

/-- `KillRing::yank` -/
def yank (k : KillRing) : Except Panic (KillRing × Option Text) :=
  if k.slots.isEmpty then .ok (k, none)
  else
    match k.slots[k.index]? with
    | none => .error .panic
    | some s => .ok ({ k with lastAction := .yank (blen s) }, some s)

/-- the second half of `KillRing::yank_n` (`yank_n n` = `yank`, then the size recorded for a following
    yank-pop is that of the `n` copies `edit_yank` inserts) -/
def yankCount (k : KillRing) (n : Nat) : KillRing :=
  match k.lastAction with
  | .yank size => { k with lastAction := .yank (size * n) }
  | _ => k

/-- `KillRing::yank_pop` -/
def yankPop (k : KillRing) : Except Panic (KillRing × Option (Nat × Text)) :=
  match k.lastAction with
  | .yank size =>
    if k.slots.isEmpty then .ok (k, none)
    else
      let idx := if k.index == 0 then k.slots.length - 1 else k.index - 1
      match k.slots[idx]? with
      | none => .error .panic
      | some s => .ok ({ k with index := idx, lastAction := .yank (blen s) }, some (size, s))
  | _ => .ok (k, none)

def startKilling (k : KillRing) : KillRing := { k with killing := true }
def stopKilling (k : KillRing) : KillRing := { k with killing := false }

/-- `DeleteListener::delete` for the ring -/
def onDelete (k : KillRing) (text : Text) (dir : Direction) : Except Panic KillRing :=
  if !k.killing then .ok k
  else k.kill text (match dir with | .forward => .append | .backward => .prepend)

end KillRing
end Rl
