/- Model of `src/kill_ring.rs`. `slots.capacity()` is modelled as the requested size (60). -/
import Rl.Text
import Rl.Types
namespace Rl

inductive KAction | kill | yank (size : Nat) | other
deriving DecidableEq, Repr

inductive KMode | append | prepend
deriving DecidableEq, Repr

structure KillRing where
  slots : List Text
  /-- slot of the most recent kill -/
  index : Nat
  /-- slot that yank returns: `index`, moved back by each yank-pop until the next kill -/
  yankIndex : Nat := 0
  lastAction : KAction
  killing : Bool
  cap : Nat
deriving Repr, DecidableEq

namespace KillRing

def new (size : Nat) : KillRing := { slots := [], index := 0, lastAction := .other, killing := false, cap := size }

def reset (k : KillRing) : KillRing := { k with lastAction := .other }

/-- `KillRing::kill`; `slots[index]` indexing panics when out of range -/
def kill (k : KillRing) (text : Text) (dir : KMode) : Except Panic KillRing :=
  if k.lastAction == .kill then
    if k.cap == 0 then .ok k
    else
      match k.slots[k.index]? with
      | none => .error .panic
      | some s =>
        let s' := match dir with | .append => s ++ text | .prepend => text ++ s
        .ok { k with slots := k.slots.set k.index s' }
  else
    let k := { k with lastAction := .kill }
    if k.cap == 0 then .ok k
    else
      let idx := if k.index == k.cap - 1 then 0 else if !k.slots.isEmpty then k.index + 1 else k.index
      if idx == k.slots.length then .ok { k with index := idx, yankIndex := idx, slots := k.slots ++ [text] }
      else if idx < k.slots.length then .ok { k with index := idx, yankIndex := idx, slots := k.slots.set idx text }
      else .error .panic

/-- `KillRing::yank` -/
def yank (k : KillRing) : Except Panic (KillRing × Option Text) :=
  if k.slots.isEmpty then .ok (k, none)
  else
    match k.slots[k.yankIndex]? with
    | none => .error .panic
    | some s => .ok ({ k with lastAction := .yank (blen s) }, some s)

/-- the second half of `KillRing::yank_n` (`yank_n n` = `yank`, then the size recorded for a following
    yank-pop is that of the `n` copies `edit_yank` inserts) -/
def yankCount (k : KillRing) (n : Nat) : KillRing :=
  match k.lastAction with
  | .yank size => { k with lastAction := .yank (size * n) }
  | _ => k

/-- `KillRing::yank_pop` -/
def yankPop (k : KillRing) : Except Panic (KillRing × Option (Nat × Text)) :=
  match k.lastAction with
  | .yank size =>
    if k.slots.isEmpty then .ok (k, none)
    else
      let idx := if k.yankIndex == 0 then k.slots.length - 1 else k.yankIndex - 1
      match k.slots[idx]? with
      | none => .error .panic
      | some s => .ok ({ k with yankIndex := idx, lastAction := .yank (blen s) }, some (size, s))
  | _ => .ok (k, none)

def startKilling (k : KillRing) : KillRing := { k with killing := true }
def stopKilling (k : KillRing) : KillRing := { k with killing := false }

/-- the first `n` bytes of a text and the rest (total: a cut inside a character goes behind it) -/
def cutBytes : Text → Nat → Text × Text
  | [], _ => ([], [])
  | c :: t, n => if n = 0 then ([], c :: t) else ((cutBytes t (n - c.utf8Size)).1.cons c, (cutBytes t (n - c.utf8Size)).2)

/-- `DeleteListener::delete` / `delete_around` for the ring: of a span with the cursor inside, the text
    on the left of the cursor goes before and the text on the right behind what the kill sequence has
    accumulated (empty parts are not reported) -/
def onDelete (k : KillRing) (text : Text) (dir : Direction) : Except Panic KillRing :=
  if !k.killing then .ok k
  else
    match dir with
    | .forward => k.kill text .append
    | .backward => k.kill text .prepend
    | .around n =>
      let (before, after) := cutBytes text n
      match (if before.isEmpty then .ok k else k.kill before .prepend) with
      | .error e => .error e
      | .ok k1 => if after.isEmpty then .ok k1 else k1.kill after .append

end KillRing
end Rl
