/-
  Model of `src/keys.rs` (`KeyEvent::new`) and of the byte → key decoder of `src/tty/unix.rs`
  (`next_char`, `next_key`, `escape_sequence`, `escape_csi`, `extended_escape`, `escape_o`,
  `read_pasted_text`, `poll`) over a model of the terminal input queue.
-/
namespace Rl

inductive KeyCode
  | unknownEscSeq | backspace | backTab | bracketedPasteStart | bracketedPasteEnd
  | char (c : Char) | delete | down | end_ | enter | esc | f (n : Nat) | home | insert
  | left | null | pageDown | pageUp | right | tab | up
deriving DecidableEq, Repr

/-- modifiers as the `bitflags` value: CTRL = 8, ALT = 4, SHIFT = 2 -/
structure KeyEvent where
  code : KeyCode
  mods : Nat
deriving DecidableEq, Repr

namespace Mods
def none : Nat := 0
def shift : Nat := 2
def alt : Nat := 4
def ctrl : Nat := 8
def has (m b : Nat) : Bool := (m / b) % 2 == 1
def add (m b : Nat) : Nat := if has m b then m else m + b
def remove (m b : Nat) : Nat := if has m b then m - b else m
end Mods

/-- `char::is_control` (general category Cc, a stable set) -/
def isControl (c : Char) : Bool := c.toNat < 0x20 || (0x7f ≤ c.toNat && c.toNat ≤ 0x9f)

/-- `KeyEvent::new` (unix) -/
def KeyEvent.new (c : Char) (mods : Nat) : KeyEvent :=
  if !isControl c then
    ⟨.char c, if mods != 0 then Mods.remove mods Mods.shift else mods⟩
  else
    let n := c.toNat
    let ctl := fun (ch : Char) => (⟨.char ch, Mods.add mods Mods.ctrl⟩ : KeyEvent)
    if n == 0x00 then ctl '@'
    else if n == 0x08 then ⟨.backspace, mods⟩
    else if n == 0x09 then
      if Mods.has mods Mods.shift then ⟨.backTab, Mods.remove mods Mods.shift⟩ else ⟨.tab, mods⟩
    else if n == 0x0d then ⟨.enter, mods⟩
    else if n == 0x1b then ⟨.esc, mods⟩
    else if 0x01 ≤ n && n ≤ 0x1a then ctl (Char.ofNat (n + 0x40))
    else if n == 0x1c then ctl '\\'
    else if n == 0x1d then ctl ']'
    else if n == 0x1e then ctl '^'
    else if n == 0x1f then ctl '_'
    else if n == 0x7f then ⟨.backspace, mods⟩
    else if n == 0x9b then ⟨.esc, Mods.add mods Mods.shift⟩
    else ⟨.null, mods⟩

def KeyEvent.alt (c : Char) : KeyEvent := KeyEvent.new c Mods.alt
def KeyEvent.plain (k : KeyCode) : KeyEvent := ⟨k, 0⟩
def KeyEvent.ESC : KeyEvent := ⟨.esc, 0⟩
def KeyEvent.ENTER : KeyEvent := ⟨.enter, 0⟩
def KeyEvent.BACKSPACE : KeyEvent := ⟨.backspace, 0⟩

/-! ### terminal input queue

  `buf`    bytes already in the reader's user-space buffer (`BufReader`, capacity 1024)
  `avail`  bytes delivered to the kernel queue but not yet read
  `future` chunks the user has not typed yet (one chunk per key press; the next one arrives
           only when the reader blocks)
  When everything is consumed the terminal hangs up: reads fail with an I/O error. -/
structure Input where
  buf : List UInt8
  avail : List UInt8
  future : List (List UInt8)
deriving Repr

inductive RdErr | eof | io | invalidData
deriving DecidableEq, Repr

def bufCap : Nat := 1024

/-- one byte, as `BufReader<TtyIn>::read(&mut [u8;1])` -/
def Input.readByte (i : Input) : Except RdErr (UInt8 × Input) :=
  match i.buf with
  | b :: bs => .ok (b, { i with buf := bs })
  | [] =>
    match i.avail with
    | b :: bs =>
      let all := b :: bs
      let taken := all.take bufCap
      .ok (b, { i with buf := taken.drop 1, avail := all.drop bufCap })
    | [] =>
      -- blocks until the next chunk arrives
      let rec next : List (List UInt8) → Except RdErr (UInt8 × Input)
        | [] => .error .io                       -- hang-up: read(2) fails with EIO
        | [] :: rest => next rest
        | (b :: bs) :: rest =>
          let all := b :: bs
          let taken := all.take bufCap
          .ok (b, { buf := taken.drop 1, avail := all.drop bufCap, future := rest })
      next i.future

/-- `poll` with a zero time-out: is a byte available right now? -/
def Input.pollNow (i : Input) : Bool := !i.buf.isEmpty || !i.avail.isEmpty

/-- `poll` with an infinite time-out: returns once a byte (or the hang-up) arrives, i.e. always
    `true`; the pending chunk is moved to the kernel queue. -/
def Input.pollWait (i : Input) : Input :=
  if i.pollNow then i
  else
    let rec next : List (List UInt8) → Input
      | [] => { i with future := [] }
      | [] :: rest => next rest
      | c :: rest => { i with avail := c, future := rest }
    next i.future

/-! ### UTF-8 (`utf8parse`): standard validation, the offending byte is consumed -/

def contByte (b : UInt8) : Bool := 0x80 ≤ b.toNat && b.toNat ≤ 0xBF

/-- `next_char` -/
def Input.nextChar (i : Input) : Except RdErr (Char × Input) := do
  let (b0, i) ← i.readByte
  let n0 := b0.toNat
  if n0 < 0x80 then pure (Char.ofNat n0, i)
  else if n0 < 0xC2 then throw .invalidData
  else if n0 < 0xE0 then
    let (b1, i) ← i.readByte
    if contByte b1 then pure (Char.ofNat ((n0 - 0xC0) * 64 + (b1.toNat - 0x80)), i) else throw .invalidData
  else if n0 < 0xF0 then
    let (b1, i) ← i.readByte
    let lo := if n0 == 0xE0 then 0xA0 else 0x80
    let hi := if n0 == 0xED then 0x9F else 0xBF
    if !(lo ≤ b1.toNat && b1.toNat ≤ hi) then throw .invalidData
    let (b2, i) ← i.readByte
    if contByte b2 then
      pure (Char.ofNat ((n0 - 0xE0) * 4096 + (b1.toNat - 0x80) * 64 + (b2.toNat - 0x80)), i)
    else throw .invalidData
  else if n0 < 0xF5 then
    let (b1, i) ← i.readByte
    let lo := if n0 == 0xF0 then 0x90 else 0x80
    let hi := if n0 == 0xF4 then 0x8F else 0xBF
    if !(lo ≤ b1.toNat && b1.toNat ≤ hi) then throw .invalidData
    let (b2, i) ← i.readByte
    if !contByte b2 then throw .invalidData
    let (b3, i) ← i.readByte
    if contByte b3 then
      pure (Char.ofNat ((n0 - 0xF0) * 262144 + (b1.toNat - 0x80) * 4096 + (b2.toNat - 0x80) * 64 + (b3.toNat - 0x80)), i)
    else throw .invalidData
  else throw .invalidData

/-! ### escape sequences -/

def unk : KeyEvent := ⟨.unknownEscSeq, 0⟩
def isDigit (c : Char) : Bool := '0' ≤ c && c ≤ '9'

/-- modifier digit of xterm-style sequences → modifier bits -/
def modOfDigit (c : Char) : Option Nat :=
  if c == '2' then some 2 else if c == '3' then some 4 else if c == '4' then some 6
  else if c == '5' then some 8 else if c == '6' then some 10 else if c == '7' then some 12
  else if c == '8' then some 14 else none

def arrowOf (c : Char) : Option KeyCode :=
  if c == 'A' then some .up else if c == 'B' then some .down else if c == 'C' then some .right
  else if c == 'D' then some .left else if c == 'F' then some .end_ else if c == 'H' then some .home
  else none

/-- the `(seq4, seq5)` table of `\E[1;<seq4><seq5>` -/
def csi1Table (seq4 seq5 : Char) : KeyEvent :=
  match modOfDigit seq4 with
  | some m =>
    match arrowOf seq5 with
    | some k => ⟨k, m⟩
    | none =>
      if Mods.has m Mods.ctrl then
        -- CTRL (+SHIFT / +ALT / +ALT+SHIFT) with p..y = digits; CTRL alone also P Q S = F1 F2 F4
        if 'p' ≤ seq5 && seq5 ≤ 'y' then ⟨.char (Char.ofNat (seq5.toNat - 'p'.toNat + '0'.toNat)), m⟩
        else if m == 8 && seq5 == 'P' then ⟨.f 1, 8⟩
        else if m == 8 && seq5 == 'Q' then ⟨.f 2, 8⟩
        else if m == 8 && seq5 == 'S' then ⟨.f 4, 8⟩
        else unk
      else unk
  | none =>
    if seq4 == '9' then
      if seq5 == 'A' then ⟨.up, 4⟩ else if seq5 == 'B' then ⟨.down, 4⟩
      else if seq5 == 'C' then ⟨.right, 4⟩ else if seq5 == 'D' then ⟨.left, 4⟩ else unk
    else unk

/-- `extended_escape` -/
def Input.extendedEscape (i : Input) (seq2 : Char) : Except RdErr (KeyEvent × Input) := do
  let (seq3, i) ← i.nextChar
  if seq3 == '~' then
    let k : KeyEvent :=
      if seq2 == '1' || seq2 == '7' then ⟨.home, 0⟩
      else if seq2 == '2' then ⟨.insert, 0⟩
      else if seq2 == '3' then ⟨.delete, 0⟩
      else if seq2 == '4' || seq2 == '8' then ⟨.end_, 0⟩
      else if seq2 == '5' then ⟨.pageUp, 0⟩
      else if seq2 == '6' then ⟨.pageDown, 0⟩
      else unk
    pure (k, i)
  else if isDigit seq3 then
    let (seq4, i) ← i.nextChar
    if seq4 == '~' then
      let fk : Option Nat :=
        if seq2 == '1' then
          (if seq3 == '1' then some 1 else if seq3 == '2' then some 2 else if seq3 == '3' then some 3
           else if seq3 == '4' then some 4 else if seq3 == '5' then some 5 else if seq3 == '7' then some 6
           else if seq3 == '8' then some 7 else if seq3 == '9' then some 8 else none)
        else if seq2 == '2' then
          (if seq3 == '0' then some 9 else if seq3 == '1' then some 10 else if seq3 == '3' then some 11
           else if seq3 == '4' then some 12 else none)
        else none
      pure (match fk with | some n => ⟨.f n, 0⟩ | none => unk, i)
    else if seq4 == ';' then
      let (seq5, i) ← i.nextChar
      if isDigit seq5 then
        let (seq6, i) ← i.nextChar
        if isDigit seq6 then
          let (_, i) ← i.nextChar   -- 'R' expected
          pure (unk, i)
        else if seq6 == 'R' then pure (unk, i)
        else if seq6 == '~' then
          let fk : Option Nat :=
            if seq5 != '5' then none
            else if seq2 == '1' then
              (if seq3 == '5' then some 5 else if seq3 == '7' then some 6 else if seq3 == '8' then some 7
               else if seq3 == '9' then some 8 else none)
            else if seq2 == '2' then
              (if seq3 == '0' then some 9 else if seq3 == '1' then some 10 else if seq3 == '3' then some 11
               else if seq3 == '4' then some 12 else none)
            else none
          pure (match fk with | some n => ⟨.f n, 8⟩ | none => unk, i)
        else pure (unk, i)
      else pure (unk, i)
    else if isDigit seq4 then
      let (seq5, i) ← i.nextChar
      if seq5 == '~' then
        if seq2 == '2' && seq3 == '0' && seq4 == '0' then pure (⟨.bracketedPasteStart, 0⟩, i)
        else if seq2 == '2' && seq3 == '0' && seq4 == '1' then pure (⟨.bracketedPasteEnd, 0⟩, i)
        else pure (unk, i)
      else pure (unk, i)
    else pure (unk, i)
  else if seq3 == ';' then
    let (seq4, i) ← i.nextChar
    if isDigit seq4 then
      let (seq5, i) ← i.nextChar
      if isDigit seq5 then
        let (_, i) ← i.nextChar   -- 'R' expected
        pure (unk, i)
      else if seq2 == '1' then pure (csi1Table seq4 seq5, i)
      else if seq5 == '~' then
        let base : Option KeyCode :=
          if seq2 == '2' then some .insert else if seq2 == '3' then some .delete
          else if seq2 == '5' then some .pageUp else if seq2 == '6' then some .pageDown else none
        pure (match base, modOfDigit seq4 with
              | some k, some m => ⟨k, m⟩
              | _, _ => unk, i)
      else pure (unk, i)
    else pure (unk, i)
  else
    -- rxvt style: `$` shift, `^` (0x1e) ctrl, `@` ctrl-shift; and `\E[5A` style ctrl-arrows
    let rx : Option Nat :=
      if seq3 == Char.ofNat 0x1e then some 8 else if seq3 == '$' then some 2
      else if seq3 == '@' then some 10 else none
    let k : KeyEvent :=
      if seq2 == '3' then
        (match rx with | some 8 => ⟨.delete, 8⟩ | some 10 => ⟨.delete, 10⟩ | _ => unk)
      else if seq2 == '5' then
        (if seq3 == 'A' then ⟨.up, 8⟩ else if seq3 == 'B' then ⟨.down, 8⟩
         else if seq3 == 'C' then ⟨.right, 8⟩ else if seq3 == 'D' then ⟨.left, 8⟩
         else match rx with | some m => ⟨.pageUp, m⟩ | none => unk)
      else if seq2 == '6' then (match rx with | some m => ⟨.pageDown, m⟩ | none => unk)
      else if seq2 == '7' then (match rx with | some m => ⟨.home, m⟩ | none => unk)
      else if seq2 == '8' then (match rx with | some m => ⟨.end_, m⟩ | none => unk)
      else unk
    pure (k, i)

/-- `escape_csi` -/
def Input.escapeCsi (i : Input) : Except RdErr (KeyEvent × Input) := do
  let (seq2, i) ← i.nextChar
  if isDigit seq2 then
    if seq2 == '0' || seq2 == '9' then pure (unk, i) else i.extendedEscape seq2
  else if seq2 == '[' then
    let (seq3, i) ← i.nextChar
    let k : KeyEvent :=
      if seq3 == 'A' then ⟨.f 1, 0⟩ else if seq3 == 'B' then ⟨.f 2, 0⟩ else if seq3 == 'C' then ⟨.f 3, 0⟩
      else if seq3 == 'D' then ⟨.f 4, 0⟩ else if seq3 == 'E' then ⟨.f 5, 0⟩ else unk
    pure (k, i)
  else
    let k : KeyEvent :=
      match arrowOf seq2 with
      | some kc => ⟨kc, 0⟩
      | none =>
        if seq2 == 'Z' then ⟨.backTab, 0⟩
        else if seq2 == 'a' then ⟨.up, 2⟩ else if seq2 == 'b' then ⟨.down, 2⟩
        else if seq2 == 'c' then ⟨.right, 2⟩ else if seq2 == 'd' then ⟨.left, 2⟩ else unk
    pure (k, i)

/-- `escape_o` -/
def Input.escapeO (i : Input) : Except RdErr (KeyEvent × Input) := do
  let (seq2, i) ← i.nextChar
  let k : KeyEvent :=
    match arrowOf seq2 with
    | some kc => ⟨kc, 0⟩
    | none =>
      if seq2 == 'M' then KeyEvent.ENTER
      else if seq2 == 'P' then ⟨.f 1, 0⟩ else if seq2 == 'Q' then ⟨.f 2, 0⟩
      else if seq2 == 'R' then ⟨.f 3, 0⟩ else if seq2 == 'S' then ⟨.f 4, 0⟩
      else if seq2 == 'a' then ⟨.up, 8⟩ else if seq2 == 'b' then ⟨.down, 8⟩
      else if seq2 == 'c' then ⟨.right, 8⟩ else if seq2 == 'd' then ⟨.left, 8⟩
      else if seq2 == 'l' then ⟨.f 8, 0⟩ else if seq2 == 't' then ⟨.f 5, 0⟩
      else if seq2 == 'u' then ⟨.f 6, 0⟩ else if seq2 == 'v' then ⟨.f 7, 0⟩
      else if seq2 == 'w' then ⟨.f 9, 0⟩ else if seq2 == 'x' then ⟨.f 10, 0⟩ else unk
  pure (k, i)

/-- `_do_escape_sequence` -/
def Input.escapeSequence (i : Input) (allowRecurse : Bool) : Except RdErr (KeyEvent × Input) := do
  let (seq1, i) ← i.nextChar
  if seq1 == '[' then i.escapeCsi
  else if seq1 == 'O' then i.escapeO
  else if seq1 == Char.ofNat 0x1b then
    if !allowRecurse then pure (KeyEvent.ESC, i)
    else
      -- `poll(100 ms)` (time-out `None` ⇒ 100 ms): the harness delivers the next key press as soon
      -- as the reader blocks, i.e. within the window; a hang-up also wakes the poll. So the poll
      -- always reports readiness here (a user pausing > 100 ms is outside the modelled schedules).
      let i := i.pollWait
      -- recurse once, adding ALT (the inner call has `allow_recurse = false`)
      let (seq1', i) ← i.nextChar
      let (k, i) ←
        if seq1' == '[' then i.escapeCsi
        else if seq1' == 'O' then i.escapeO
        else if seq1' == Char.ofNat 0x1b then pure (KeyEvent.ESC, i)
        else pure (KeyEvent.alt seq1', i)
      pure (⟨k.code, Mods.add k.mods Mods.alt⟩, i)
  else pure (KeyEvent.alt seq1, i)

/-- `next_key(single_esc_abort)` with `keyseq_timeout = None` (the default) -/
def Input.nextKey (i : Input) (singleEscAbort : Bool) : Except RdErr (KeyEvent × Input) := do
  let (c, i) ← i.nextChar
  let key := KeyEvent.new c 0
  if key == KeyEvent.ESC then
    if singleEscAbort then
      if i.pollNow then i.escapeSequence true else pure (key, i)
    else
      -- infinite time-out: waits for the next byte (or the hang-up), then reads a sequence
      (i.pollWait).escapeSequence true
  else pure (key, i)

/-- `read_pasted_text` (fuel = number of remaining bytes, every iteration consumes one) -/
def Input.readPasted (i : Input) : Nat → List Char → Except RdErr (List Char × Input)
  | 0, _ => .error .io
  | fuel + 1, acc => do
    let (c, i) ← i.nextChar
    if c == Char.ofNat 0x1b then
      let (k, i) ← i.escapeSequence true
      if k == ⟨.bracketedPasteEnd, 0⟩ then pure (acc.reverse, i) else i.readPasted fuel acc
    else i.readPasted fuel (c :: acc)

/-- `buffer.replace("\r\n", "\n").replace('\r', "\n")` -/
def normalizePaste : List Char → List Char
  | [] => []
  | '\r' :: '\n' :: t => '\n' :: normalizePaste t
  | '\r' :: t => '\n' :: normalizePaste t
  | c :: t => c :: normalizePaste t

def Input.size (i : Input) : Nat := i.buf.length + i.avail.length + (i.future.map List.length).sum

end Rl
