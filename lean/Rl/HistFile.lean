/-
  Model of the history *file* code of `src/history.rs` (`FileHistory::{save_to, load_from,
  save, append, load, can_just_append, update_path}`), after the repairs of D11 (a carriage
  return is written as the escape `\r`) and D19 (a backslash left dangling at the end of a
  line by a torn write is dropped instead of making the whole line fall back to its raw text).

  A file is a list of *atoms*: `chr c` for every validly encoded character, `bad b` for a byte
  that is not part of one (the harness produces this view with Rust's own `Utf8Chunks`), so
  UTF-8 *decoding* stays out of the model.  UTF-8 *encoding* (`utf8Bytes`) is needed in two
  places only: `str.as_bytes()[j]` in the unescape loop and truncating a file at a byte offset.

  Panics are outcomes: the unescape loop is written with the code's byte arithmetic
  (`find`, `&str[..i]`, `as_bytes()[j]`, `&str[j+1..]`), every slice/index is an `Option`,
  and `none` is reported as status `panic`.
-/
import Rl.Text
import Rl.History
namespace Rl

/-! ### UTF-8 encoding of one character (`char::encode_utf8`) -/

def utf8Bytes (c : Char) : List Nat :=
  let n := c.toNat
  if n < 0x80 then [n]
  else if n < 0x800 then [0xC0 + n / 64, 0x80 + n % 64]
  else if n < 0x10000 then [0xE0 + n / 4096, 0x80 + n / 64 % 64, 0x80 + n % 64]
  else [0xF0 + n / 262144, 0x80 + n / 4096 % 64, 0x80 + n / 64 % 64, 0x80 + n % 64]

/-- `str::as_bytes` -/
def bytesOf (t : Text) : List Nat := t.flatMap utf8Bytes

/-- `s.as_bytes()[j]`; `none` where Rust would panic (index out of range) -/
def byteAt (t : Text) (j : Nat) : Option Nat := (bytesOf t)[j]?

/-- `&s[..i]`; `none` where Rust would panic -/
def hfSliceTo (t : Text) (i : Nat) : Option Text := (splitAtByte t i).map (·.1)
/-- `&s[i..]`; `none` where Rust would panic -/
def hfSliceFrom (t : Text) (i : Nat) : Option Text := (splitAtByte t i).map (·.2)

/-- `str::find(char)`: byte offset of the first occurrence -/
def hfFindChar (c : Char) : Text → Option Nat
  | [] => none
  | d :: t => if d = c then some 0 else (hfFindChar c t).map (· + d.utf8Size)

/-! ### File contents -/

inductive Atom
  | chr (c : Char)
  | bad (b : Nat)
deriving DecidableEq, Repr

def atomsOf (t : Text) : List Atom := t.map .chr

def Atom.size : Atom → Nat
  | .chr c => c.utf8Size
  | .bad _ => 1

/-- The first `k` bytes of a file (`File::set_len(k)` / a write torn after `k` bytes): whole
    characters stay, the leading bytes of a character that is cut become `bad` atoms. -/
def cutAtoms : List Atom → Nat → List Atom
  | _, 0 => []
  | [], _ + 1 => []
  | .bad b :: t, k + 1 => .bad b :: cutAtoms t k
  | .chr c :: t, k + 1 =>
    if c.utf8Size ≤ k + 1 then .chr c :: cutAtoms t (k + 1 - c.utf8Size)
    else ((utf8Bytes c).take (k + 1)).map .bad

/-! ### Writing: `save_to` -/

/-- the `memchr3` loop of `save_to`: `\n ↦ \ n`, `\r ↦ \ r`, `\ ↦ \ \` (these three bytes are
    ASCII, so they occur in UTF-8 only as themselves and the byte loop is a character loop) -/
def escEntry : Text → Text
  | [] => []
  | c :: t =>
    if c = '\n' then '\\' :: 'n' :: escEntry t
    else if c = '\r' then '\\' :: 'r' :: escEntry t
    else if c = '\\' then '\\' :: '\\' :: escEntry t
    else c :: escEntry t

/-- the lines `save_to` writes for a list of entries -/
def linesOf (es : List Text) : Text := es.flatMap (fun e => escEntry e ++ ['\n'])

def header : Text := ['#', 'V', '2']

/-- `save_to(file, append = false)` -/
def fileOf (es : List Text) : Text := header ++ '\n' :: linesOf es

/-! ### Reading: `BufRead::lines` and `load_from` -/

/-- `read_until(b'\n')`: the segments of a file, each with the flag "was terminated by `\n`".
    (0x0A is never part of a multi-byte sequence, so splitting atoms = splitting bytes.) -/
def splitLines : List Atom → List (List Atom × Bool)
  | [] => []
  | a :: t =>
    if a = .chr '\n' then ([], true) :: splitLines t
    else
      match splitLines t with
      | [] => [([a], false)]
      | (l, term) :: rest => (a :: l, term) :: rest

/-- `String::from_utf8` of a segment: fails iff it contains a byte that is not part of a character -/
def lineText : List Atom → Option Text
  | [] => some []
  | .chr c :: t => (lineText t).map (c :: ·)
  | .bad _ :: _ => none

def stripCr (t : Text) : Text := if t.getLast? = some '\r' then t.dropLast else t

/-- one item of `BufRead::lines`: `none` = `Err(InvalidData)`; a `\r` is removed only together
    with a `\n` -/
def decodeLine (l : List Atom) (term : Bool) : Option Text :=
  (lineText l).map (fun t => if term then stripCr t else t)

/-- The unescape loop of `load_from` (lines 546–580), byte-indexed like the code.
    `line` is the raw line, `str` the unread rest, `copy` the lazily created output.
    Result `none` = a panic (or the fuel ran out, which `unescape` rules out by giving
    `length + 1` iterations to a loop that consumes at least one character per iteration). -/
def unescLoop (line : Text) : Nat → Text → Option Text → Option Text
  | 0, _, _ => none
  | fuel + 1, str, copy =>
    match hfFindChar '\\' str with
    | none => some (match copy with | some s => s ++ str | none => line)
    | some i =>
      match hfSliceTo str i with
      | none => none
      | some head =>
        let s := copy.getD [] ++ head
        let j := i + 1
        if j < blen str then
          match byteAt str j with
          | none => none
          | some b =>
            if b = 110 then          -- b'n'
              match hfSliceFrom str (j + 1) with
              | none => none
              | some rest => unescLoop line fuel rest (some (s ++ ['\n']))
            else if b = 114 then     -- b'r'
              match hfSliceFrom str (j + 1) with
              | none => none
              | some rest => unescLoop line fuel rest (some (s ++ ['\r']))
            else if b = 92 then      -- b'\\'
              match hfSliceFrom str (j + 1) with
              | none => none
              | some rest => unescLoop line fuel rest (some (s ++ ['\\']))
            else some line           -- bad escape: `copy = None; break` → the raw line
        else some s                  -- dangling backslash (torn file): `str = ""; break`

def unescape (line : Text) : Option Text := unescLoop line (line.length + 1) line none

inductive HfStatus | ok | invalidData | io | panic
deriving DecidableEq, Repr

structure LoadRes where
  h : FileHist
  status : HfStatus
  appendable : Bool
deriving Repr

/-- the `for line in lines` loop of `load_from` -/
def loadLines (ws : Char → Bool) (v2 : Bool) : List (List Atom × Bool) → FileHist → Bool → LoadRes
  | [], h, app => { h := { h with newEntries := 0 }, status := .ok, appendable := app }
  | (l, term) :: rest, h, app =>
    match decodeLine l term with
    | none => { h, status := .invalidData, appendable := app }      -- `line?`
    | some line =>
      if line.isEmpty then loadLines ws v2 rest h app
      else
        match (if v2 then unescape line else some line) with
        | none => { h, status := .panic, appendable := app }
        | some line' =>
          let r := h.add ws line'
          loadLines ws v2 rest r.1 (app && r.2)

/-- `load_from` -/
def loadFrom (ws : Char → Bool) (f : List Atom) (h : FileHist) : LoadRes :=
  match splitLines f with
  | [] => { h := { h with newEntries := 0 }, status := .ok, appendable := false }
  | (l, term) :: rest =>
    match decodeLine l term with
    | none => { h, status := .invalidData, appendable := false }
    | some line =>
      if line = header then loadLines ws true rest h true
      else loadLines ws false rest (h.add ws line).1 false

/-! ### `save`, `append`, `load` on a one-file world

  One path, one live handle: the path comparison in `can_just_append` is always "equal";
  the modification-time comparison is "equal" unless the file was changed from outside since
  the handle last recorded it (`stale`). -/

structure Sess where
  fh : FileHist
  /-- `path_info`: the entry count recorded by `update_path` -/
  pathSize : Option Nat
deriving Repr

structure World where
  sess : Sess
  file : Option (List Atom)
  /-- the file's mtime differs from the one recorded in `path_info` -/
  stale : Bool
deriving Repr

def freshHist (h : FileHist) : FileHist :=
  FileHist.new h.mem.maxLen h.mem.ignoreSpace h.mem.ignoreDups

def World.new (maxLen : Nat) (isp idp : Bool) : World :=
  { sess := { fh := FileHist.new maxLen isp idp, pathSize := none }, file := none, stale := false }

/-- the entries `save_to(append = true)` writes: `skip(len - new_entries)` -/
def newOnes (h : FileHist) : List Text := h.mem.entries.drop (h.mem.entries.length - h.newEntries)

/-- `FileHistory::save` -/
def World.save (w : World) : World × HfStatus :=
  let h := w.sess.fh
  if h.mem.entries.isEmpty || h.newEntries == 0 then (w, .ok)
  else
    ({ sess := { fh := { h with newEntries := 0 }, pathSize := some h.mem.entries.length },
       file := some (atomsOf (fileOf h.mem.entries)), stale := false }, .ok)

/-- `can_just_append` -/
def World.canJustAppend (w : World) : Bool :=
  match w.sess.pathSize with
  | none => false
  | some size =>
    let h := w.sess.fh
    !(w.stale || h.mem.maxLen ≤ size || h.mem.maxLen < size + h.newEntries)

def addAll (ws : Char → Bool) (h : FileHist) : List Text → FileHist
  | [] => h
  | e :: es => addAll ws (h.add ws e).1 es

/-- `FileHistory::append` -/
def World.append (ws : Char → Bool) (w : World) : World × HfStatus :=
  let h := w.sess.fh
  if h.mem.entries.isEmpty || h.newEntries == 0 then (w, .ok)
  else
    match w.file with
    | none => w.save
    | some f =>
      if h.newEntries == h.mem.maxLen then w.save
      else if w.canJustAppend then
        ({ sess := { fh := { h with newEntries := 0 },
                     pathSize := some (w.sess.pathSize.getD 0 + h.newEntries) },
           file := some (f ++ atomsOf (linesOf (newOnes h))), stale := false }, .ok)
      else
        let r := loadFrom ws f (freshHist h)
        if r.status ≠ .ok then (w, r.status)
        else
          let other := addAll ws r.h (newOnes h)
          ({ sess := { fh := { h with newEntries := 0 }, pathSize := some other.mem.entries.length },
             file := some (atomsOf (fileOf other.mem.entries)), stale := false }, .ok)

/-- `FileHistory::load` -/
def World.load (ws : Char → Bool) (w : World) : World × HfStatus :=
  match w.file with
  | none => (w, .io)
  | some f =>
    let len := w.sess.fh.mem.entries.length
    let r := loadFrom ws f w.sess.fh
    if r.status = .ok then
      if r.appendable then
        ({ w with sess := { fh := r.h, pathSize := some (r.h.mem.entries.length - len) }, stale := false }, .ok)
      else ({ w with sess := { fh := r.h, pathSize := none } }, .ok)
    else ({ w with sess := { w.sess with fh := r.h } }, r.status)

/-- Operations driven by the harness (target `hf`). -/
inductive FOp
  | add (l : Text) | save | append
  | fresh            -- a new session: fresh history, same settings
  | freshLoad        -- a new session that loads the file
  | load             -- load into the current history
  | raw | dump | rm
  | cut (k : Nat)    -- outside event: the file is truncated to its first `k` bytes
  | put (f : List Atom)  -- outside event: the file is replaced
deriving Repr

inductive FObs
  | unit | bool (b : Bool) | status (s : HfStatus)
  | file (f : Option (List Atom)) | all (es : List Text)
deriving Repr

def atomsSize (f : List Atom) : Nat := (f.map Atom.size).sum

def World.step (ws : Char → Bool) (w : World) : FOp → World × FObs
  | .add l => let r := w.sess.fh.add ws l; ({ w with sess := { w.sess with fh := r.1 } }, .bool r.2)
  | .save => let r := w.save; (r.1, .status r.2)
  | .append => let r := w.append ws; (r.1, .status r.2)
  | .fresh => ({ w with sess := { fh := freshHist w.sess.fh, pathSize := none } }, .unit)
  | .freshLoad =>
    let r := World.load ws { w with sess := { fh := freshHist w.sess.fh, pathSize := none } }
    (r.1, .status r.2)
  | .load => let r := w.load ws; (r.1, .status r.2)
  | .raw => (w, .file w.file)
  | .dump => (w, .all w.sess.fh.mem.entries)
  | .rm => ({ w with file := none, stale := true }, .unit)
  | .cut k =>
    match w.file with
    | none => (w, .unit)
    | some f => if k < atomsSize f then ({ w with file := some (cutAtoms f k), stale := true }, .unit) else (w, .unit)
  | .put f => ({ w with file := some f, stale := true }, .unit)

def World.run (ws : Char → Bool) (w : World) : List FOp → World × List FObs
  | [] => (w, [])
  | op :: ops =>
    let r := w.step ws op
    let r' := World.run ws r.1 ops
    (r'.1, r.2 :: r'.2)

end Rl
