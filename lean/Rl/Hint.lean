/-
  Model of `src/hint.rs` — `HistoryHinter::hint(line, pos, ctx)`.
  Transliteration: the guard `line.is_empty() || pos < line.len()`, the start index computed from
  `ctx.history_index()` / `ctx.history().len()` (saturating_sub), `History::starts_with(line, start,
  Reverse)` (model: `MemHist.startsWith`), the `entry == line` test and the slice `entry[pos..]`
  (a panic when `pos` is past the end of the entry or not a character boundary).
-/
import Rl.Text
import Rl.History
namespace Rl

/-- `HistoryHinter::hint`.  `histIdx` is `ctx.history_index()` (`Context::new` sets it to
    `history.len()`).  Outer `none` = panic (the slice `sr.entry[pos..]`). -/
def historyHint (h : MemHist) (histIdx : Nat) (line : Text) (pos : Nat) : Option (Option Text) :=
  if line.isEmpty || pos < blen line then some none
  else
    let start := if histIdx == h.entries.length then histIdx - 1 else histIdx
    match h.startsWith line start .reverse with
    | some (_, e, _) =>
      if e == line then some none
      else
        match splitAtByte e pos with
        | some (_, r) => some (some r)
        | none => none
    | none => some none

/-- The hinter as reached through the public API: `Context::new(&history)`. -/
def historyHintNew (h : MemHist) (line : Text) (pos : Nat) : Option (Option Text) :=
  historyHint h h.entries.length line pos

/-- history built by `add`ing the lines in order (refused lines are skipped by `add`) -/
def MemHist.addAll (ws : Char → Bool) (h : MemHist) : List Text → MemHist
  | [] => h
  | l :: ls => MemHist.addAll ws (h.add ws l).1 ls

end Rl
