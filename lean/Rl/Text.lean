/-
  Text = `List Char` with *byte* positions (the Rust API is byte indexed).
  Core-only: no imports, so the driver links as a `lean_exe`.
-/
namespace Rl

abbrev Text := List Char

/-- UTF-8 byte length of a text (`str::len`). -/
def blen : Text → Nat
  | [] => 0
  | c :: t => c.utf8Size + blen t

@[simp] theorem blen_nil : blen [] = 0 := rfl
@[simp] theorem blen_cons (c : Char) (t : Text) : blen (c :: t) = c.utf8Size + blen t := rfl

@[simp] theorem blen_append (a b : Text) : blen (a ++ b) = blen a + blen b := by
  induction a with
  | nil => simp
  | cons c a ih => simp [ih]; omega

theorem blen_pos_of_ne_nil {t : Text} (h : t ≠ []) : 0 < blen t := by
  cases t with
  | nil => exact absurd rfl h
  | cons c t => have := Char.utf8Size_pos c; simp; omega

theorem blen_eq_zero {t : Text} : blen t = 0 ↔ t = [] := by
  constructor
  · intro h
    cases t with
    | nil => rfl
    | cons c t => have := Char.utf8Size_pos c; simp at h; omega
  · intro h; subst h; rfl

/-- Split at a byte offset; `none` when the offset is not on a character boundary or is
    past the end (where Rust slicing would panic). -/
def splitAtByte : Text → Nat → Option (Text × Text)
  | t, 0 => some ([], t)
  | [], _ + 1 => none
  | c :: t, n + 1 =>
    if c.utf8Size ≤ n + 1 then
      match splitAtByte t (n + 1 - c.utf8Size) with
      | some (a, b) => some (c :: a, b)
      | none => none
    else none

/-- `p` is a character boundary of `t` (`str::is_char_boundary`, including `p = len`). -/
def IsBoundary (t : Text) (p : Nat) : Prop := ∃ a b, t = a ++ b ∧ p = blen a

theorem splitAtByte_some {t : Text} {n : Nat} {a b : Text}
    (h : splitAtByte t n = some (a, b)) : t = a ++ b ∧ n = blen a := by
  induction t generalizing n a b with
  | nil =>
    cases n with
    | zero => simp [splitAtByte] at h; obtain ⟨rfl, rfl⟩ := h; simp
    | succ n => simp [splitAtByte] at h
  | cons c t ih =>
    cases n with
    | zero => simp [splitAtByte] at h; obtain ⟨rfl, rfl⟩ := h; simp
    | succ n =>
      simp only [splitAtByte] at h
      split at h
      · rename_i hc
        split at h
        · rename_i a' b' hs
          simp at h; obtain ⟨rfl, rfl⟩ := h
          have := ih hs
          obtain ⟨h1, h2⟩ := this
          subst h1
          simp; omega
        · simp at h
      · simp at h

theorem splitAtByte_append (a b : Text) : splitAtByte (a ++ b) (blen a) = some (a, b) := by
  induction a with
  | nil => cases b <;> simp [splitAtByte]
  | cons c a ih =>
    have hp := Char.utf8Size_pos c
    simp only [List.cons_append, blen_cons]
    obtain ⟨k, hk⟩ : ∃ k, c.utf8Size + blen a = k + 1 := ⟨c.utf8Size + blen a - 1, by omega⟩
    rw [hk]
    simp only [splitAtByte]
    have : c.utf8Size ≤ k + 1 := by omega
    simp only [this, if_true]
    have h2 : k + 1 - c.utf8Size = blen a := by omega
    rw [h2, ih]

theorem isBoundary_iff_split {t : Text} {p : Nat} :
    IsBoundary t p ↔ ∃ a b, splitAtByte t p = some (a, b) := by
  constructor
  · rintro ⟨a, b, rfl, rfl⟩; exact ⟨a, b, splitAtByte_append a b⟩
  · rintro ⟨a, b, h⟩; exact ⟨a, b, splitAtByte_some h⟩

/-- First occurrence of `term` in `e`, as a byte offset (`str::find` with a `&str` pattern,
    modelled as naive search).  For the empty pattern the answer is `some 0`, as in Rust. -/
def findSub (term : Text) : Text → Option Nat
  | [] => if term.isPrefixOf [] then some 0 else none
  | c :: t =>
    if term.isPrefixOf (c :: t) then some 0
    else (findSub term t).map (· + c.utf8Size)

/-- `term` occurs in `e` starting at byte offset `off`. -/
def OccursAt (term e : Text) (off : Nat) : Prop :=
  ∃ a b, e = a ++ term ++ b ∧ off = blen a

theorem findSub_some {term e : Text} {off : Nat} (h : findSub term e = some off) :
    OccursAt term e off ∧ ∀ off', OccursAt term e off' → off ≤ off' := by
  induction e generalizing off with
  | nil =>
    simp only [findSub] at h
    split at h
    · rename_i hp
      simp at h; subst h
      rw [List.isPrefixOf_iff_prefix] at hp
      have : term = [] := List.prefix_nil.mp hp
      subst this
      exact ⟨⟨[], [], by simp, rfl⟩, fun _ _ => Nat.zero_le _⟩
    · simp at h
  | cons c t ih =>
    simp only [findSub] at h
    split at h
    · rename_i hp
      simp at h; subst h
      rw [List.isPrefixOf_iff_prefix] at hp
      obtain ⟨b, hb⟩ := hp
      exact ⟨⟨[], b, by simp [hb], rfl⟩, fun _ _ => Nat.zero_le _⟩
    · rename_i hp
      cases hf : findSub term t with
      | none => simp [hf] at h
      | some o =>
        simp [hf] at h; subst h
        obtain ⟨⟨a, b, hab, ho⟩, hmin⟩ := ih hf
        refine ⟨⟨c :: a, b, by simp [hab], by simp [ho]; omega⟩, ?_⟩
        rintro off' ⟨a', b', hab', ho'⟩
        cases a' with
        | nil =>
          exfalso; apply hp
          rw [List.isPrefixOf_iff_prefix]
          exact ⟨b', by simpa using hab'.symm⟩
        | cons c' a'' =>
          simp at hab'
          obtain ⟨rfl, ht⟩ := hab'
          have := hmin (blen a'') ⟨a'', b', by simp [ht], rfl⟩
          simp [ho']; omega

theorem findSub_none {term e : Text} (h : findSub term e = none) :
    ∀ off, ¬ OccursAt term e off := by
  induction e with
  | nil =>
    simp only [findSub] at h
    split at h
    · simp at h
    · rename_i hp
      rintro off ⟨a, b, hab, _⟩
      apply hp
      rw [List.isPrefixOf_iff_prefix]
      have : a = [] ∧ term = [] ∧ b = [] := by
        have := congrArg List.length hab
        simp at this
        refine ⟨?_, ?_, ?_⟩ <;> apply List.eq_nil_of_length_eq_zero <;> omega
      obtain ⟨_, rfl, _⟩ := this
      exact List.prefix_refl _
  | cons c t ih =>
    simp only [findSub] at h
    split at h
    · simp at h
    · rename_i hp
      cases hf : findSub term t with
      | some o => simp [hf] at h
      | none =>
        rintro off ⟨a, b, hab, _⟩
        cases a with
        | nil =>
          apply hp; rw [List.isPrefixOf_iff_prefix]; exact ⟨b, by simpa using hab.symm⟩
        | cons c' a' =>
          simp at hab
          exact ih hf (blen a') ⟨a', b, by simp [hab.2], rfl⟩

end Rl
