/-
  The byte strings the renderer emits: `PosixRenderer::{clear_old_rows, move_cursor, refresh_line,
  clear_screen}` (`src/tty/unix.rs`) and the `State` methods that call them (`src/edit.rs`: `refresh`,
  `move_cursor`, `move_cursor_to_end`, the fast path of `edit_insert`, `clear_screen`).
  Highlighting (`Highlighter::highlight*`) only adds SGR sequences, which have no effect on the cells of
  a terminal, so the emitted text is modelled without them; the *control flow* effect of
  `highlight_char` (forcing a full refresh) is part of the log (`RenderOp`).
-/
import Rl.Layout
import Rl.RenderOp
namespace Rl

def natText (n : Nat) : Text := (toString n).toList

/-- `ESC [ n f` -/
def csiN (n : Nat) (f : Char) : Text := ['\x1b', '['] ++ natText n ++ [f]

/-- `ESC [ f` when `n = 1`, else `ESC [ n f` (the spelling `move_cursor` uses) -/
def csi1 (n : Nat) (f : Char) : Text := if n == 1 then ['\x1b', '[', f] else csiN n f

def clearRow : Text := ['\r', '\x1b', '[', 'K']
def clearRowUp : Text := ['\r', '\x1b', '[', 'K', '\x1b', '[', 'A']

/-- `PosixRenderer::clear_old_rows` -/
def clearOldRows (R : RCfg) (l : Layout) : Text :=
  let oldRows := (onScreen R l.end_).row
  let m := oldRows - (onScreen R l.cursor).row   -- saturating_sub
  (if m > 0 then csiN m 'B' else []) ++ (List.replicate oldRows clearRowUp).flatten ++ clearRow

/-- `PosixRenderer::move_cursor` -/
def moveCursorBytes (R : RCfg) (old0 new0 : Pos) : Text :=
  let old := onScreen R old0
  let new := onScreen R new0
  (if new.row > old.row then csi1 (new.row - old.row) 'B'
   else if new.row < old.row then csi1 (old.row - new.row) 'A' else []) ++
  (if new.col > old.col then csi1 (new.col - old.col) 'C'
   else if new.col < old.col then csi1 (old.col - new.col) 'D' else [])

def endsWithNl (t : Text) : Bool := t.getLast? == some '\n'

/-- `PosixRenderer::refresh_line` (SGR of the highlighter left out); `end.row - cursor.row` underflows
    (a panic in the dev profile) if the layout is inconsistent -/
def refreshLineBytes (R : RCfg) (prompt line : Text) (hint : Option Text) (old new : Layout) : Except Panic Text :=
  let body := clearOldRows R old ++ prompt ++ line ++ hint.getD []
  -- the text ends exactly at the right margin: the renderer writes its own newline
  let body := if new.end_.col ≥ R.cols then body ++ ['\n'] else body
  let cursor := onScreen R new.cursor
  let endp := onScreen R new.end_
  if endp.row < cursor.row then .error .panic
  else
    let up := endp.row - cursor.row
    let body := if up > 0 then body ++ csiN up 'A' else body
    .ok (if cursor.col > 0 then body ++ ['\r'] ++ csiN cursor.col 'C' else body ++ ['\r'])

def clearScreenBytes : Text := ['\x1b', '[', 'H', '\x1b', '[', 'J']

/-! ### the `State` level -/

/-- what `edit::State` remembers about the screen, plus everything written so far -/
structure RS where
  layout : Layout := {}
  /-- `State.prompt_size` of the read's own prompt -/
  promptSize : Pos := {}
  /-- output of the current segment (since the last `sync`), in order -/
  out : Text := []
  /-- closed segments, most recent first -/
  segs : List Text := []
deriving Repr

def RS.emit (s : RS) (t : Text) : RS := { s with out := s.out ++ t }

section
variable (S : Segmenter) (R : RCfg) (prompt : Text)

/-- `State::refresh` -/
def RS.refresh (s : RS) (p : Text) (psize : Pos) (dflt : Bool) (line : Text) (pos : Nat)
    (info : Option Text) : Except Panic RS := do
  let nl ← computeLayout S R psize dflt line pos info
  let b ← refreshLineBytes R p line info s.layout nl
  pure { (s.emit b) with layout := nl }

/-- `State::move_cursor` -/
def RS.moveCursor (s : RS) (line : Text) (pos : Nat) (hl : Bool) : Except Panic RS :=
  match splitAtByte line pos with
  | none => .error .panic
  | some (before, _) =>
    let cursor := calculatePosition S R before s.promptSize
    if s.layout.cursor == cursor then .ok s
    else if hl then s.refresh S R prompt s.promptSize true line pos none
    else
      let s' := s.emit (moveCursorBytes R s.layout.cursor cursor)
      let l := { s.layout with promptSize := s.promptSize, cursor := cursor }
      if !(l.promptSize.le l.cursor) || !(l.cursor.le l.end_) then .error .panic
      else .ok { s' with layout := l }

/-- the guard of the fast path of `edit_insert` -/
def fastPathGuard (l : Layout) (ch : Char) (n : Nat) (hint : Option Text) (noPrevHint hl : Bool) : Bool :=
  n == 1 && R.cw ch != 0 && l.cursor.col + R.cw ch < R.cols && (hint.isNone && noPrevHint) && !hl

/-- `edit_insert` after the buffer accepted the character -/
def RS.insert (s : RS) (ch : Char) (n : Nat) (push : Bool) (line : Text) (pos : Nat)
    (hint : Option Text) (noPrevHint hl : Bool) : Except Panic RS :=
  if push && fastPathGuard R s.layout ch n hint noPrevHint hl then
    let w := R.cw ch
    let l := { s.layout with cursor := { s.layout.cursor with col := s.layout.cursor.col + w },
                             end_ := { s.layout.end_ with col := s.layout.end_.col + w } }
    if !(l.promptSize.le l.cursor) || !(l.cursor.le l.end_) then .error .panic
    else .ok { (s.emit [ch]) with layout := l }
  else s.refresh S R prompt s.promptSize true line pos hint

def RS.apply (s : RS) : RenderOp → Except Panic RS
  | .refresh none line pos info => s.refresh S R prompt s.promptSize true line pos info
  | .refresh (some p) line pos info =>
    s.refresh S R p (calculatePosition S R p {}) false line pos info
  | .moveCursor line pos hl => s.moveCursor S R prompt line pos hl
  | .insert ch n push line pos hint nph hl => s.insert S R prompt ch n push line pos hint nph hl
  | .clearScreen =>
    .ok { (s.emit clearScreenBytes) with layout := { s.layout with cursor := {}, end_ := {} } }
  | .moveToEnd =>
    if s.layout.cursor == s.layout.end_ then .ok s
    else .ok { (s.emit (moveCursorBytes R s.layout.cursor s.layout.end_)) with
               layout := { s.layout with cursor := s.layout.end_ } }
  | .sync _ _ _ => .ok { s with out := [], segs := s.out :: s.segs }
  | .writeln => .ok (s.emit ['\n'])

/-- `State::new`: the prompt size is computed once -/
def RS.init : RS := { promptSize := calculatePosition S R prompt {} }

/-- replay a log (oldest first); on a panic the segments written so far are kept -/
def RS.run : RS → List RenderOp → RS × Bool
  | s, [] => (s, false)
  | s, op :: rest =>
    match s.apply S R prompt op with
    | .ok s' => RS.run s' rest
    | .error _ => (s, true)

end
end Rl
