/-
  Shared vocabulary of `src/keymap.rs` used by the line-buffer model and by the editor model:
  `Word`, `At`, `Anchor`, `CharSearch`, `Movement`, `WordAction`, `Direction`.
-/
namespace Rl

inductive Word | big | emacs | vi
deriving DecidableEq, Repr

inductive At | start | beforeEnd | afterEnd
deriving DecidableEq, Repr

inductive Anchor | after | before
deriving DecidableEq, Repr

inductive CharSearch
  | forward (c : Char) | forwardBefore (c : Char) | backward (c : Char) | backwardAfter (c : Char)
deriving DecidableEq, Repr

def CharSearch.opposite : CharSearch → CharSearch
  | .forward c => .backward c
  | .forwardBefore c => .backwardAfter c
  | .backward c => .forward c
  | .backwardAfter c => .forwardBefore c

/-- `keymap::Movement`; counts are `RepeatCount = u16` in the code, `Nat` here (values ≤ 65535) -/
inductive Movement
  | wholeLine | beginningOfLine | endOfLine
  | backwardWord (n : Nat) (w : Word)
  | forwardWord (n : Nat) (at_ : At) (w : Word)
  | viCharSearch (n : Nat) (cs : CharSearch)
  | viFirstPrint
  | backwardChar (n : Nat) | forwardChar (n : Nat)
  | lineUp (n : Nat) | lineDown (n : Nat)
  | wholeBuffer | beginningOfBuffer | endOfBuffer
deriving DecidableEq, Repr

/-- `Movement::redo` -/
def Movement.redo (m : Movement) (new : Option Nat) : Movement :=
  let rc := fun (prev : Nat) => match new with | some n => n | none => prev
  match m with
  | .backwardWord p w => .backwardWord (rc p) w
  | .forwardWord p a w => .forwardWord (rc p) a w
  | .viCharSearch p cs => .viCharSearch (rc p) cs
  | .backwardChar p => .backwardChar (rc p)
  | .forwardChar p => .forwardChar (rc p)
  | .lineUp p => .lineUp (rc p)
  | .lineDown p => .lineDown (rc p)
  | m => m

inductive WordAction | capitalize | lowercase | uppercase
deriving DecidableEq, Repr

/-- `line_buffer::Direction` of a deletion notification -/
inductive Direction
  | forward | backward
  /-- not a value of the Rust enum: the notification is `DeleteListener::delete_around(idx, before,
      after)`, the deleted text is `before ++ after` and `before` is `k` bytes long (whole line(s) /
      buffer deletion with the cursor inside the span).  The default implementation of the trait method
      is `delete(idx, before + after, Forward)`, which is what every listener that only looks at index
      and text does with it. -/
  | around (k : Nat)
deriving DecidableEq, Repr

/-- Rust panics are outcomes of the model (slice out of range / off a char boundary, `unwrap` on
    `None`, `unreachable!`, failed `assert!`, arithmetic overflow in a dev build). -/
inductive Panic | panic
deriving DecidableEq, Repr

end Rl
