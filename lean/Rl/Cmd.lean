/- Model of `keymap::Cmd` (`src/keymap.rs`): the command vocabulary and its predicates. -/
import Rl.Text
import Rl.Types
namespace Rl

inductive Cmd
  | abort | acceptLine | beginningOfHistory | capitalizeWord | clearScreen
  | complete | completeBackward | completeHint
  | dedent (m : Movement) | downcaseWord | endOfFile | endOfHistory | forwardSearchHistory
  | historySearchBackward | historySearchForward
  | indent (m : Movement) | insert (n : Nat) (t : Text) | interrupt
  | kill (m : Movement) | move (m : Movement) | nextHistory | noop | repaint
  | overwrite (c : Char) | previousHistory | quotedInsert
  | replaceChar (n : Nat) (c : Char) | replace (m : Movement) (t : Option Text)
  | reverseSearchHistory | selfInsert (n : Nat) (c : Char) | suspend
  | transposeChars | transposeWords (n : Nat) | undo (n : Nat) | unknown | upcaseWord
  | viYankTo (m : Movement) | yank (n : Nat) (a : Anchor) | yankPop
  | lineUpOrPreviousHistory (n : Nat) | lineDownOrNextHistory (n : Nat)
  | newline | acceptOrInsertLine (acceptInTheMiddle : Bool)
deriving DecidableEq, Repr

namespace Cmd

/-- `Cmd::should_reset_kill_ring` -/
def shouldResetKillRing : Cmd → Bool
  | .kill (.backwardChar _) | .kill (.forwardChar _) => true
  | .clearScreen | .kill _ | .replace _ _ | .noop | .suspend | .yank _ _ | .yankPop => false
  | _ => true

def isRepeatableChange : Cmd → Bool
  | .dedent _ | .indent _ | .insert _ _ | .kill _ | .replaceChar _ _ | .replace _ _
  | .selfInsert _ _ | .viYankTo _ | .yank _ _ => true
  | _ => false

def isRepeatable : Cmd → Bool
  | .move _ => true
  | c => c.isRepeatableChange

def rc (prev : Nat) (new : Option Nat) : Nat := match new with | some n => n | none => prev

end Cmd

namespace Cmd
/-- `Cmd::redo`; `lastInsert` is `wrt.last_insert()`; `unreachable!()` for non-repeatable commands;
    `RepeatCount::try_from(len).unwrap()` panics above 65535. -/
def redo (c : Cmd) (new : Option Nat) (lastInsert : Option Text) : Except Panic Cmd :=
  match c with
  | .dedent m => .ok (.dedent (m.redo new))
  | .indent m => .ok (.indent (m.redo new))
  | .insert p t => .ok (.insert (rc p new) t)
  | .kill m => .ok (.kill (m.redo new))
  | .move m => .ok (.move (m.redo new))
  | .replaceChar p ch => .ok (.replaceChar (rc p new) ch)
  | .replace m t =>
    match t with
    | none =>
      if m == .forwardChar 0 then
        let len := match lastInsert with | some t => blen t | none => 0
        if len > 65535 then .error .panic else .ok (.replace (.forwardChar len) lastInsert)
      else .ok (.replace (m.redo new) lastInsert)
    | some t => .ok (.replace (m.redo new) (some t))
  | .selfInsert p ch =>
    match lastInsert with
    | some t => .ok (.insert (rc p new) t)
    | none => .ok (.selfInsert (rc p new) ch)
  | .viYankTo m => .ok (.viYankTo (m.redo new))
  | .yank p a => .ok (.yank (rc p new) a)
  | _ => .error .panic
end Cmd

end Rl
